"""C04 — in-handler await of a child never deadlocks and returns it complete: structural necessary conditions."""

from __future__ import annotations

import ast

from .common import *  # noqa: F401,F403
from .common import SVC, MOD, TASKVARS, AnalysisError, Ctx, Facts, Registry, U, Unit, await_coro, call_name, own_nodes, parent, q, where
from .c03 import SIGNAL_NAMES, inline_branch

ob = Registry()


def inline_awaits(c: Ctx, u: Unit, branch: ast.If) -> list[ast.Await]:
    return sorted([n for n in own_nodes(u.node) if isinstance(n, ast.Await) and q.lexically_in(n, branch, 'body')], key=lambda n: n.lineno)


def is_sleep0(a: ast.Await) -> bool:
    v = a.value
    if isinstance(v, ast.Call) and U(v.func) in ('asyncio.sleep', 'sleep') and len(v.args) == 1 and isinstance(v.args[0], ast.Constant) and v.args[0].value == 0:
        return True
    return is_bounded_pause(a)


def is_bounded_pause(a: ast.Await) -> bool:
    """`await asyncio.wait_for(<awaitable>, timeout=<numeric constant of at most 50 ms>)`: whatever is waited for, the caller continues after at most that long (a pause with an
    early wake-up, negligible next to any handler timeout); not a wait that can deadlock.  Longer waits hold the processing lock of every bus for their whole duration."""
    v = a.value
    if isinstance(v, ast.Call) and U(v.func) in ('asyncio.wait_for', 'wait_for'):
        to = q.kw(v, 'timeout') or (v.args[1] if len(v.args) > 1 else None)
        return isinstance(to, ast.Constant) and isinstance(to.value, (int, float)) and not isinstance(to.value, bool) and 0 <= to.value <= 0.05 \
            and v.args and not (isinstance(v.args[0], (ast.Name, ast.Attribute)))  # (wait_for on a task object waits for its cancellation to finish: not bounded)
    return False


@ob('C04.1', 'EFFECT', 'on the in-handler (inline) branch of `await event` the only awaits are process_event(...), asyncio.sleep(0), a pause bounded by a constant of at most 50 ms, and '
    'nested entries of the re-entrant lock the handler already owns; unbounded waits on the completion signal, queue join/get or lock acquisition appear only on the other branch '
    '(the awaiting handler holds the processing lock: a blocking wait there is a deadlock)')
def c04_1(c: Ctx) -> None:
    u = await_coro(c)
    br = inline_branch(c, u)
    aws = inline_awaits(c, u, br)
    c.floor(len(aws), 2, 'awaits on the inline branch (process_event, sleep(0))')
    pe = c.unit(SVC, 'EventBus.process_event')
    for a in aws:
        v = a.value
        r = c.an.fm.resolve_call(v, u) if isinstance(v, ast.Call) else None
        if isinstance(r, Unit) and r.key == pe.key:
            c.ok(where(u, a), 'inline branch awaits process_event (does the work itself)')
        elif is_sleep0(a):
            c.ok(where(u, a), 'inline branch yields with asyncio.sleep(0) (non-blocking)')
        else:
            c.fail(u, f'inline branch awaits {U(v)[:90]}', f'the handler branch of `await event` blocks on `{U(v)[:60]}` while holding the processing lock: nothing can complete the awaited event (deadlock)', node=a)
    for n in own_nodes(u.node):
        if isinstance(n, (ast.AsyncWith, ast.AsyncFor)) and q.lexically_in(n, br, 'body'):
            if isinstance(n, ast.AsyncWith) and len(n.items) == 1 and (t_ := c.prog.infer(n.items[0].context_expr, u)) is not None and t_.kind == 'cls' and t_.name == 'ReentrantLock' \
                    and 'holds_global_lock.get()' in U(br.test):
                c.ok(where(u, n), 'nested entry of the re-entrant global lock on a branch entered only while this context owns it: does not wait')
                continue
            c.fail(u, f'inline branch uses {type(n).__name__}: {q.stmt_text(n, 70)}', 'the handler branch of `await event` may block in an async with/for while holding the processing lock', node=n)


@ob('C04.2', 'DOM', 'ReentrantLock.__aenter__ awaits the semaphore only when holds_global_lock.get() is false (re-entrant for the owner); the inline branch calls '
    'process_event, never step()')
def c04_2(c: Ctx) -> None:
    ae = c.unit(SVC, 'ReentrantLock.__aenter__')
    g = c.cfg(ae)
    acq = [n for n in g.live_nodes() if any(call_name(x) == 'acquire' for x in q.node_calls(n)) and q.node_has_await(n)]
    c.floor(len(acq), 1, 'semaphore acquisition in ReentrantLock.__aenter__')
    facts = Facts(lambda a: a == 'holds_global_lock.get()', cg=c.cg, unit=ae, taskvars=TASKVARS)
    for n in acq:
        p = q.guard_search(g, n, 'not holds_global_lock.get()', facts)
        if p is None:
            c.ok(where(ae, n.ast), 'semaphore acquired only when this context does not already hold the lock')
        else:
            c.fail(ae, 'semaphore acquire not guarded by `not holds_global_lock.get()`', 'a context that already holds the global lock blocks on it again: in-handler await deadlocks', node=n.ast, witness=c.path(g.entry, p))
    u = await_coro(c)
    br = inline_branch(c, u)
    bad = [n for n in own_nodes(u.node) if isinstance(n, ast.Call) and call_name(n) in ('step', 'wait_until_idle', 'stop') and q.lexically_in(n, br, 'body')]
    if not bad:
        c.ok(where(u, br), 'inline branch never calls step()/wait_until_idle()/stop()')
    for n in bad:
        c.fail(u, f'inline branch calls {U(n)[:70]}', f'the handler branch of `await event` calls {call_name(n)}(), which waits on the queue/lock the handler itself blocks', node=n)


@ob('C04.3', 'FACTS', 'on every normal path of the await coroutine the completion signal is known to be set at `return self`')
def c04_3(c: Ctx) -> None:
    u = await_coro(c)
    g = c.cfg(u)
    self_ = c.unit(MOD, 'BaseEvent.__await__').params()[0]
    atom = f'{self_}.event_completed_signal.is_set()'

    def post(n, env):
        for a in ([x for h in q.node_exprs(n) for x in ast.walk(h) if isinstance(x, ast.Await)] if n.kind in ('stmt', 'return') else []):
            v = a.value
            if isinstance(v, ast.Call) and call_name(v) == 'wait' and isinstance(v.func, ast.Attribute) and U(v.func.value) == f'{self_}.event_completed_signal':
                env[atom] = 'T'

    facts = Facts(lambda a: a == atom, sticky_true=[atom], cg=c.cg, unit=u, post=post)
    rets = [n for n in g.live_nodes() if n.kind == 'return']
    c.floor(len(rets), 1, 'returns of the await coroutine')
    found = False
    for rn in rets:
        p = q.reach_search(g, [(g.entry, {})], lambda n, d: n is rn and d.get(atom) not in ('T', 'Ty'), facts=facts, exc_ok=lambda e: False)
        if p is None:
            c.ok(where(u, rn.ast), f'`{q.stmt_text(rn.ast)}` reached only with the completion signal known set')
            continue
        found = True
        # name the construct through which the signal fact is lost: the last loop (else branch) on the witness before the return
        br = inline_branch(c, u)
        inline = any(s.node.ast is not None and s.node.ast is not br and q.lexically_in(s.node.ast, br, 'body') for s in p)
        last = next((s.node for s in reversed(p[:-1]) if s.node.kind in ('while', 'for')), None) or next((s.node for s in reversed(p[:-1]) if s.node.kind == 'if'), None)
        if last is not None and last.kind in ('while', 'for') and inline:
            via = 'the bounded in-handler polling loop giving up'  # independent of how the bound is spelled (while counter / for range)
        else:
            via = f'exit of `{last.text(100)}`' if last is not None else 'no check'
        encl = q.enclosing(rn.ast, (ast.If, ast.While, ast.For, ast.Try, ast.With, ast.AsyncWith))
        at = f'under `{q.stmt_text(encl, 80)}`' if encl is not None else 'at function level'
        c.fail(u, f'return {at} reachable with the completion signal not known set, via {via}', 'in-handler await can return a child that is still pending (the bounded polling loop gives up)' if inline else 'await can return an event that is not complete', node=rn.ast, witness=c.path(g.entry, p))



@ob('C04.4', 'DOM', 'the inline loop looks at the queue of every bus on every round: a bus is skipped only if it does not exist any more, has no queue or is not running — '
    'a descendant of the awaited event may sit on any bus, and while the handler holds the lock nobody else can process it')
def c04_4(c: Ctx) -> None:
    u = await_coro(c)
    g = c.cfg(u)
    br = inline_branch(c, u)
    def iter_text(n) -> str:
        # `for bus in buses` where `buses = list(EventBus.all_instances)` is (re)bound on the same round (e.g. the argument of a folded helper)
        if isinstance(n.iter, ast.Name):
            defs = [d for d in own_nodes(u.node) if isinstance(d, ast.Assign) and len(d.targets) == 1 and isinstance(d.targets[0], ast.Name) and d.targets[0].id == n.iter.id]
            if len(defs) == 1 and q.block_of(defs[0]) is not None and any(n is x or q.lexically_in(n, x) for x in q.block_of(defs[0])[q.block_of(defs[0]).index(defs[0]) + 1:]) \
                    and all(isinstance(a, (ast.While, ast.For)) is False or q.lexically_in(defs[0], a) for a in q.ancestors_of(n) if q.lexically_in(a, br, 'body')):
                return U(defs[0].value)
        return U(n.iter)

    ALL_BUSES = ('list(EventBus.all_instances)', 'EventBus.all_instances', 'tuple(EventBus.all_instances)')

    def iter_expr(n) -> ast.AST:
        if isinstance(n.iter, ast.Name):
            defs = [d for d in own_nodes(u.node) if isinstance(d, ast.Assign) and len(d.targets) == 1 and isinstance(d.targets[0], ast.Name) and d.targets[0].id == n.iter.id]
            if len(defs) == 1 and U(defs[0].value) == iter_text(n):
                return defs[0].value
        return n.iter

    def snapshot_filter(e: ast.AST) -> list[str] | None:
        """`[b for b in list(EventBus.all_instances) if <tests on b>]` computed on the same round: the tests that are NOT among the allowed skips (None: not of this form)."""
        if not (isinstance(e, (ast.ListComp, ast.GeneratorExp)) and len(e.generators) == 1 and isinstance(e.generators[0].target, ast.Name) and U(e.generators[0].iter) in ALL_BUSES
                and isinstance(e.elt, ast.Name) and e.elt.id == e.generators[0].target.id):
            return None
        v = e.generators[0].target.id
        keep_ok = {v, f'{v}.event_queue', f'{v}._is_running', f'{v} is not None', f'{v}.event_queue is not None'}
        conj = [x for t in e.generators[0].ifs for x in (t.values if isinstance(t, ast.BoolOp) and isinstance(t.op, ast.And) else [t])]
        return [U(x) for x in conj if U(x) not in keep_ok]

    loops = [n for n in own_nodes(u.node) if isinstance(n, (ast.For, ast.AsyncFor)) and 'all_instances' in iter_text(n) and q.lexically_in(n, br, 'body')]
    if len(loops) != 1 or not isinstance(loops[0].target, ast.Name):
        c.fail(u, f'{len(loops)} loops over EventBus.all_instances on the inline branch', 'the in-handler await does not look at every bus: a child dispatched to another bus can never be completed while the handler waits (deadlock / pending child)')
        return
    loop = loops[0]
    bus = loop.target.id
    extra = snapshot_filter(iter_expr(loop))
    if iter_text(loop) in ALL_BUSES or extra == []:
        pass
    elif extra:
        c.fail(u, f'the buses of a round are selected up front by `{" and ".join(extra)[:70]}`', 'the in-handler await drains only a subset of the buses: a bus that does not pass the test when the round starts is not '
               'looked at on that round, although a handler run earlier in the round may just have queued the awaited event\'s descendant there (the next round starts with other buses\' unrelated events)', node=loop)
    else:
        c.fail(u, f'bus loop iterates {iter_text(loop)[:60]}', 'the in-handler await drains only a subset of the buses', node=loop)
    head = g.nodes_of(loop, ('for',))[0]
    attempts = [n for n in g.live_nodes() if n.kind in ('if', 'while') and f'{bus}.event_queue.qsize()' in U(n.ast.test)] or [n for n in g.live_nodes() if q.node_calls(n, 'get_nowait')]  # (looking at the queue's size is the attempt)
    c.floor(len(attempts), 1, 'dequeue attempt in the bus loop')
    aid = {n.id for n in attempts}
    allowed = {f'not {bus}', f'not {bus}.event_queue', f'not {bus}._is_running', f'{bus} is None', f'{bus}.event_queue is None'}
    from sa.cfg import search

    live_atoms = {bus, f'{bus}.event_queue', f'{bus}._is_running'}
    f_live = Facts(lambda a: a in live_atoms)

    def allowed_skip(n, e) -> bool:
        # the branch cannot be taken for a bus that exists, has a queue and is running — however the test is spelled
        if n.kind != 'if' or e.label not in ('true', 'false'):
            return False
        t = n.ast.test
        if e.label == 'true':
            dis = t.values if isinstance(t, ast.BoolOp) and isinstance(t.op, ast.Or) else [t]
            if all(U(x) in allowed for x in dis):
                return True
        if any(isinstance(x, ast.Call) for x in ast.walk(t)):
            return False
        env_ = {bus: 'Ty', f'{bus}.event_queue': 'Ty', f'{bus}._is_running': 'T'}
        return f_live.assume(t, e.label == 'true', env_) is None

    flags = Facts(lambda a: a.startswith('__inl_'), cg=c.cg, unit=u)  # flags introduced by folding a helper with early returns: correlated branches
    p = search([(head, ())], is_target=lambda n, d: n is head, is_barrier=lambda n, d: n.id in aid,
               edge_ok=lambda n, e, d: None if (e.is_exc or (n is head and e.label != 'iter') or allowed_skip(n, e)) else flags.edge_ok(n, e, d), transfer=flags.transfer)
    if p is None:
        c.ok(where(u, loop), f'every running bus with a queue gets a dequeue attempt on every round (skips only: {sorted(allowed)[:3]}…)')
    else:
        cond = next((s_.node.text(80) for s_ in p if s_.node.kind == 'if'), '?')
        c.fail(u, f'the bus loop can skip a running bus with a queue: `{cond}`', 'a descendant of the awaited event queued on a skipped bus is never processed while the handler waits: the await gives up and returns the child incomplete', node=loop, witness=c.path(head, p))


@ob('C04.5', 'WMW/DOM/SHAPE', 'the completion signal the await relies on is set only when all results are terminal and all descendants are complete (same obligation as C03.1)')
def c04_5(c: Ctx) -> None:
    from .c03 import c03_1

    c03_1(c)



@ob('C04.6', 'SHAPE/DOM', 'after a timeout inside the awaited subtree every pending result below it is cancelled, at every depth (same obligation as C10.4): otherwise an await in a '
    'handler that was not itself cancelled returns an event that can never complete')
def c04_6(c: Ctx) -> None:
    from .c10 import c10_4

    c10_4(c)



def check_blocking_wait_unreachable_with_lock(c: Ctx) -> None:
    u = await_coro(c)
    g = c.cfg(u)
    self_ = c.unit(MOD, 'BaseEvent.__await__').params()[0]
    sig = f'{self_}.event_completed_signal.is_set()'
    waits = [n for n in g.live_nodes() if n.kind in ('stmt', 'return') and any(isinstance(x, ast.Await) and isinstance(x.value, ast.Call) and call_name(x.value) in ('wait', 'wait_for', 'join', 'acquire')
                                                                            and 'sleep' not in U(x.value) for h in q.node_exprs(n) for x in ast.walk(h))]
    waits = [n for n in waits if not any(call_name(x) == 'process_event' for x in q.node_calls(n))]
    waits = [n for n in waits if not all(is_bounded_pause(x) for h in q.node_exprs(n) for x in ast.walk(h) if isinstance(x, ast.Await))]  # a bounded pause is not a blocking wait
    c.floor(len(waits), 1, 'blocking waits in the await coroutine')
    atoms = {'inside_handler_context.get()', 'holds_global_lock.get()', sig}
    tests = {U(n.test) for n in own_nodes(u.node) if isinstance(n, (ast.If, ast.While))}
    facts = Facts(lambda a: a in atoms or a in tests or a.isidentifier(), sticky_true=[sig], cg=c.cg, unit=u, taskvars=TASKVARS)
    guard = f'not inside_handler_context.get() or not holds_global_lock.get() or {sig}'
    for n in waits:
        p = q.guard_search(g, n, guard, facts)
        if p is None:
            c.ok(where(u, n.ast), 'the blocking wait is reached only when not (inside a handler and holding the lock), or the event is already complete')
        else:
            c.fail(u, f'blocking wait `{n.text(60)}` reachable while inside a handler and holding the processing lock', 'the handler blocks on the completion signal while it holds the lock nothing else can take: the awaited event is never processed (deadlock until the handler times out)', node=n.ast, witness=c.path(g.entry, p))


@ob('C04.7', 'DOM', 'the blocking wait on the completion signal is never reached by a handler that holds the processing lock (unless the event is already complete): the in-handler branch '
    'is taken for every event, whatever else is known about it')
def c04_7(c: Ctx) -> None:
    check_blocking_wait_unreachable_with_lock(c)


@ob('C04.8', 'CTX', 'the in-handler branch of `await event` is selected by inside_handler_context / holds_global_lock of the *awaiting handler\'s own* context: each async handler runs in '
    'its own task (private context snapshot), never inline in execute_handler\'s task, whose context is shared between the handlers of a parallel_handlers bus (same obligation as '
    'C09.8) — otherwise a sibling\'s cleanup resets the flag and the awaiting handler blocks on the completion signal while holding the lock')
def c04_8(c: Ctx) -> None:
    from .c09 import c09_8

    c09_8(c)


@ob('C04.9', 'DOM', 'the awaited child is complete only when its own descendants are: every accepted event dispatched from a handler is registered as that handler\'s child (same obligation '
    'as C09.9), by every dispatching entry point — a bulk / fast-path dispatch that skips the registration lets `await child` return a child whose descendants are still pending')
def c04_9(c: Ctx) -> None:
    from .c09 import check_child_registration_guards, check_dispatch_entry_points

    check_child_registration_guards(c)
    check_dispatch_entry_points(c)


OBLIGATIONS = ob.obs
