"""C13 — history is bounded and eviction spares in-flight events: structural necessary conditions."""

from __future__ import annotations

import ast

from .common import *  # noqa: F401,F403
from .common import SVC, MOD, AnalysisError, Ctx, Facts, Registry, U, Unit, call_name, own_nodes, parent, q, where
from sa.shape import canon

ob = Registry()


def _is_excess_test(x: ast.AST, n, self_: str) -> bool:
    """x is true exactly when the history holds more than max_history_size events: `len(H) - M > 0` in any linear spelling, or a local that holds the excess
    (`0` when there is no bound, else `max(0, len(H) - M)` / `len(H) - M`) used as a truth value."""
    from sa.loops import lin

    H, M = f'len({self_}.event_history)', f'{self_}.max_history_size'

    def is_excess(e: ast.AST) -> bool:
        if isinstance(e, ast.Call) and isinstance(e.func, ast.Name) and e.func.id == 'max' and len(e.args) == 2:
            zero = [a for a in e.args if isinstance(a, ast.Constant) and a.value == 0]
            rest = [a for a in e.args if not (isinstance(a, ast.Constant) and a.value == 0)]
            return len(zero) == 1 and len(rest) == 1 and is_excess(rest[0])
        l = lin(e, {})
        return l is not None and {k: v for k, v in l.items() if v} == {H: 1, M: -1}

    if isinstance(x, ast.Compare) and len(x.ops) == 1 and isinstance(x.ops[0], (ast.Gt, ast.Lt)):
        a, b = (x.left, x.comparators[0]) if isinstance(x.ops[0], ast.Gt) else (x.comparators[0], x.left)
        diff = ast.BinOp(left=a, op=ast.Sub(), right=b)
        return is_excess(diff)
    if isinstance(x, ast.Name):
        from sa.loader import parent as _parent

        fn = n.ast
        while fn is not None and not isinstance(fn, (ast.FunctionDef, ast.AsyncFunctionDef)):
            fn = _parent(fn)
        defs = [d for d in own_nodes(fn) if isinstance(d, ast.Assign) and len(d.targets) == 1 and isinstance(d.targets[0], ast.Name) and d.targets[0].id == x.id] if fn is not None else []
        if not defs:
            return False
        for d in defs:
            if isinstance(d.value, ast.Constant) and not d.value.value:
                # "no excess": only where there is no bound at all
                gi = q.enclosing(d, (ast.If,))
                if gi is None or U(gi.test) not in (f'not {M}', f'{M} is None') or not q.lexically_in(d, gi, 'body'):
                    return False
            elif not is_excess(d.value):
                return False
        return True
    return False


def is_bound_step(n, self_: str) -> bool:
    """`if <..> len(self.event_history) > self.max_history_size: self.cleanup_event_history()` or a direct cleanup call."""
    if n.kind == 'if':
        t = U(n.ast.test)
        calls_cleanup = any(isinstance(x, ast.Call) and call_name(x) == 'cleanup_event_history' for b in n.ast.body for x in ast.walk(b))
        if not calls_cleanup:
            return False
        conj = n.ast.test.values if isinstance(n.ast.test, ast.BoolOp) and isinstance(n.ast.test.op, ast.And) else [n.ast.test]
        allowed = {f'{self_}.max_history_size', f'{self_}.max_history_size is not None', f'len({self_}.event_history) > {self_}.max_history_size', f'{self_}.max_history_size < len({self_}.event_history)'}
        return all(U(x) in allowed or _is_excess_test(x, n, self_) or _is_excess(x, self_) for x in conj)  # (`if <the excess, 0 without a bound>:` is `if len(H) > M:`)
    if n.kind == 'stmt':
        return bool(q.node_calls(n, 'cleanup_event_history')) and q.enclosing(n.ast, (ast.If,)) is None
    return False


@ob('C13.1', 'MPT/WMW', 'events are inserted into event_history only by dispatch; after every insertion, and at the end of every process_event, every normal path runs the '
    'bound step (cleanup_event_history() when over max_history_size)')
def c13_1(c: Ctx) -> None:
    ins = [w for w in c.cg.all_writes('event_history') if w.how in ('subscript', 'update', 'setdefault', '__setitem__')]
    c.floor(len(ins), 1, 'insertions into event_history')
    d = c.unit(SVC, 'EventBus.dispatch')
    for w in ins:
        if w.unit.key != d.key:
            c.fail(w.unit, f'inserts into event_history: {U(w.node)[:70]}', f'history grows outside dispatch (in {w.unit.qualname}), not followed by the bound step', node=w.node)
            continue
        g = c.cfg(d)
        self_ = d.params()[0]
        for n in g.nodes_of(q.stmt_of(w.node)):
            p = q.pair_search(g, n, lambda x: is_bound_step(x, self_), exc_ok=lambda e: False)
            if p is None:
                c.ok(where(d, w.node), 'every normal path after the history insert runs the bound step')
            else:
                c.fail(d, 'normal path from the history insert to return avoids the bound step', 'history can exceed max_history_size after a dispatch', node=w.node, witness=c.path(n, p))
    pe = c.unit(SVC, 'EventBus.process_event')
    g = c.cfg(pe)
    self_ = pe.params()[0]
    p = q.reach_search(g, [(g.entry, {})], lambda n, dd: n.kind == 'exit', lambda n, dd: is_bound_step(n, self_), exc_ok=lambda e: False)
    if p is None:
        c.ok(where(pe), 'every normal path of process_event ends with the bound step')
    else:
        c.fail(pe, 'normal path through process_event avoids the bound step', 'history is not trimmed after an event was processed', witness=c.path(g.entry, p))


def sort_info(fn: ast.AST, lst: str) -> list[tuple[ast.Call, bool, str]]:
    """`.sort(key=..)` calls on list *lst*: (call, descending?, key text)."""
    out = []
    for n in own_nodes(fn):
        # `lst = sorted(lst, key=...)`: the same list, sorted
        if isinstance(n, ast.Assign) and len(n.targets) == 1 and U(n.targets[0]) == lst and isinstance(n.value, ast.Call) and call_name(n.value) == 'sorted' and n.value.args and U(n.value.args[0]) == lst:
            rev = q.kw(n.value, 'reverse')
            desc = rev is not None and not (isinstance(rev, ast.Constant) and rev.value is False)
            k = q.kw(n.value, 'key')
            out.append((n.value, desc, U(k) if k is not None else ''))
        if isinstance(n, ast.Call) and call_name(n) == 'sort' and isinstance(n.func, ast.Attribute) and U(n.func.value) == lst:
            rev = q.kw(n, 'reverse')
            desc = rev is not None and not (isinstance(rev, ast.Constant) and rev.value is False)
            k = q.kw(n, 'key')
            out.append((n, desc, U(k) if k is not None else ''))
    return out


def _class_const_tuple(c: Ctx, cls: str, name: str) -> list[str] | None:
    ci = c.prog.cls(cls)
    vals = [st.value for st in ci.node.body if isinstance(st, (ast.Assign, ast.AnnAssign)) and U(st.targets[0] if isinstance(st, ast.Assign) else st.target) == name and st.value is not None]
    if len(vals) == 1 and isinstance(vals[0], (ast.Tuple, ast.List)) and all(isinstance(e, ast.Constant) and isinstance(e.value, str) for e in vals[0].elts) and not c.cg.all_writes(name):
        return [e.value for e in vals[0].elts]
    return None


def bucket_dict_design(c: Ctx, u: Unit, fn: ast.AST, self_: str) -> bool:
    """The other natural design of the same algorithm: one dict of lists keyed by status, filled by `buckets[event.event_status].append(..)`, each list sorted oldest-first, and a
    loop over a constant ORDER = ('completed', 'started', 'pending') that takes `buckets[status][:excess - len(removed)]`.  Returns True (after reporting) when the function is
    written this way; False when it is not (the three-list design is then expected)."""
    nodes = list(own_nodes(fn))
    orders = {}
    for n in nodes:
        if isinstance(n, ast.Attribute) and isinstance(n.value, ast.Name) and n.value.id == self_:
            t = _class_const_tuple(c, 'EventBus', n.attr)
            if t is not None and set(t) == {'completed', 'started', 'pending'}:
                orders[n.attr] = t
    bdefs = [n for n in nodes if isinstance(n, (ast.Assign, ast.AnnAssign)) and isinstance(n.value, ast.DictComp) and isinstance(n.value.value, ast.List) and not n.value.value.elts
             and isinstance(n.value.generators[0].iter, ast.Attribute) and n.value.generators[0].iter.attr in orders]
    bdefs += [n for n in nodes if isinstance(n, (ast.Assign, ast.AnnAssign)) and isinstance(n.value, ast.Dict) and n.value.keys and all(isinstance(k, ast.Constant) for k in n.value.keys)
              and {k.value for k in n.value.keys} == {'completed', 'started', 'pending'} and all(isinstance(v, ast.List) and not v.elts for v in n.value.values)]
    if len(bdefs) != 1:
        return False
    B = U(bdefs[0].targets[0] if isinstance(bdefs[0], ast.Assign) else bdefs[0].target)
    ok = True

    def bad(what: str, why: str, node=None) -> None:
        nonlocal ok
        ok = False
        c.fail(u, what, why, node=node)

    # (ii) classification by the event's own status
    fills = [n for n in nodes if isinstance(n, ast.Call) and call_name(n) == 'append' and isinstance(n.func.value, ast.Subscript) and U(n.func.value.value) == B]
    if len(fills) == 1 and U(fills[0].func.value.slice).endswith('.event_status') and isinstance(q.enclosing(fills[0], (ast.For,)), ast.For) and U(q.enclosing(fills[0], (ast.For,)).iter) == f'{self_}.event_history.items()' \
            and q.enclosing(fills[0], (ast.If,)) is None:
        c.ok(where(u, fills[0]), f'every event of the history is filed under {B}[event.event_status]')
    else:
        bad(f'{len(fills)} fills of {B}[..]', 'events are not classified by their status before eviction', bdefs[0])
    # (iii) every bucket sorted oldest-first
    sorts = [n for n in nodes if isinstance(n, ast.Call) and call_name(n) == 'sort' and isinstance(n.func.value, ast.Name)]
    srt = None
    for s_ in sorts:
        lp = q.enclosing(s_, (ast.For,))
        if lp is not None and U(lp.iter) == f'{B}.values()' and isinstance(lp.target, ast.Name) and lp.target.id == s_.func.value.id:
            srt = s_
    if srt is not None:
        k = q.kw(srt, 'key')
        rev = q.kw(srt, 'reverse')
        if k is not None and 'event_created_at.timestamp()' in U(k) and (rev is None or (isinstance(rev, ast.Constant) and rev.value is False)):
            c.ok(where(u, srt), 'every bucket is sorted ascending by event_created_at.timestamp()')
        else:
            bad(f'buckets sorted by {U(k)[:50] if k is not None else "nothing"}', 'eviction within a status is not oldest-first', srt)
    else:
        bad('the buckets are not all sorted', 'eviction within a status is not oldest-first', bdefs[0])
    # (iv) removal in ORDER, bounded by the excess still to remove
    rloops = [n for n in nodes if isinstance(n, ast.For) and isinstance(n.iter, ast.Attribute) and n.iter.attr in orders and isinstance(n.target, ast.Name)]
    if len(rloops) != 1:
        bad(f'{len(rloops)} loops over the eviction order', 'eviction does not go through completed, started, pending in that order', bdefs[0])
        return True
    rl = rloops[0]
    order = orders[rl.iter.attr]
    if order == ['completed', 'started', 'pending']:
        c.ok(where(u, rl), f'eviction order: {order}')
    else:
        bad(f'eviction order is {order}', 'in-flight (started/pending) events can be evicted while a completed one remains', rl)
    exts = [n for n in ast.walk(rl) if isinstance(n, ast.Call) and call_name(n) == 'extend']
    sl = [x for e in exts for x in ast.walk(e) if isinstance(x, ast.Subscript) and isinstance(x.slice, ast.Slice) and isinstance(x.value, ast.Subscript) and U(x.value.value) == B and U(x.value.slice) == rl.target.id]
    if len(exts) != 1 or len(sl) != 1 or sl[0].slice.lower is not None or sl[0].slice.upper is None or sl[0].slice.step is not None:
        bad('removal is not `removed.extend(.. buckets[status][:k])`', 'eviction does not take the oldest events of each status from the front', rl)
        return True
    removed = U(exts[0].func.value)
    kname = U(sl[0].slice.upper)
    kdefs = [n for n in ast.walk(rl) if isinstance(n, ast.Assign) and U(n.targets[0]) == kname]
    cnt_defs = [n for n in nodes if isinstance(n, ast.Assign) and isinstance(n.targets[0], ast.Name) and 'max_history_size' in U(n.value) and 'len(' in U(n.value)]
    good_k = False
    if len(kdefs) == 1 and isinstance(kdefs[0].value, ast.BinOp) and isinstance(kdefs[0].value.op, ast.Sub) and U(kdefs[0].value.right) == f'len({removed})':
        x = U(kdefs[0].value.left)
        good_k = any(U(d.targets[0]) == x for d in cnt_defs) or x == f'len({self_}.event_history) - {self_}.max_history_size'
    if good_k:
        c.ok(where(u, kdefs[0]), f'each status contributes at most the excess still to remove ({kname} = excess - len({removed}))')
    else:
        bad(f'slice bound {kname} is not (excess - len({removed}))', 'more events than the excess are evicted, or the bound ignores what was already taken', rl)
    stop = [n for n in ast.walk(rl) if isinstance(n, ast.If) and any(isinstance(b, (ast.Break, ast.Continue)) for b in n.body) and kname in U(n.test)]
    if stop:
        c.ok(where(u, stop[0]), f'later statuses are touched only while {kname} > 0')
    for d in cnt_defs:
        v = U(d.value)
        if f'len({self_}.event_history) - {self_}.max_history_size' in v:
            c.ok(where(u, d), f'{U(d.targets[0])} is len(history) - max_history_size (clamped at 0)')
    dels = [w for w in c.cg.writes[u.key] if w.attr == 'event_history' and w.how in ('del', 'pop')]
    if dels:
        c.ok(where(u, dels[0].node), 'the selected ids are deleted from event_history')
    else:
        bad('no deletion from event_history', 'selected events are never removed: history is unbounded')
    return True


LAST_ORDER: dict[int, frozenset] = {}  # id(program) -> statuses the evaluated eviction order contains (read by C13.4)


class _Quiet:
    """A rule context that records nothing: lets one rule evaluate another's machinery for its by-product."""

    def __init__(self, c):
        self._c = c

    def __getattr__(self, k):
        return getattr(self._c, k)

    def ok(self, *a, **k):
        pass

    def fail(self, *a, **k):
        pass

    def floor(self, *a, **k):
        pass

    def note(self, *a, **k):
        pass


def _check_eviction_order(c: Ctx, u: Unit, order: list, te, sl: ast.AST) -> None:
    """The checks on an eviction order given as a sequence of tiers: contains every event, completed before started before pending, each run oldest-first."""
    from .tiers import ALL, RANK, describe

    LAST_ORDER[id(c.prog)] = frozenset().union(*[t.statuses for t in order]) if order else frozenset()

    covered = frozenset().union(*[t.statuses for t in order]) if order else frozenset()
    if covered == ALL and all(t.exhaustive for t in order):
        c.ok(where(u, sl), 'the order contains every event of the history')
    else:
        c.fail(u, f'eviction order covers {describe(order)}', 'the eviction order does not contain every event of the history: when the events it leaves out fill the history, nothing can be evicted '
               'and the bound is exceeded', node=sl)
    seen: set[str] = set()
    last = -1
    ok = True
    for t in order:
        ranks = sorted({RANK[s_] for s_ in t.statuses})
        if len(ranks) > 1:
            c.fail(u, f'one tier mixes {sorted(t.statuses, key=RANK.get)}', f'{" and ".join(sorted(t.statuses, key=RANK.get))} events form one run of the eviction order ({t.why or "not separated by status"}): '
                   'between them only position decides, so an event of a later class (pending before started before completed are kept longest) is evicted while one of an earlier class remains', node=sl)
            ok = False
        if ranks and ranks[0] < last:
            c.fail(u, f'eviction order is {describe(order)}', 'in-flight (started/pending) events can be evicted while a completed one remains (or pending before started)', node=sl)
            ok = False
        if seen & t.statuses:
            c.fail(u, f'status {sorted(seen & t.statuses)} appears twice in the eviction order', 'an event is counted twice in the eviction order: fewer distinct events than the excess are evicted', node=sl)
            ok = False
        seen |= t.statuses
        last = max(ranks) if ranks else last
        if not t.sorted:
            c.fail(u, f'tier {sorted(t.statuses, key=RANK.get)} is not sorted by event_created_at', f'eviction among {"/".join(sorted(t.statuses))} events is not oldest-first', node=sl)
            ok = False
    if te.naive_sort is not None:
        c.fail(u, f'sorted by comparing datetime objects directly ({U(te.naive_sort)[:60]})', 'event_created_at accepts timezone-naive and timezone-aware values (caller-supplied, rehydrated events); comparing one '
               'with the other raises TypeError inside the cleanup: dispatch() raises after having enqueued the event and the history stays over its bound', node=te.naive_sort)
        ok = False
    if ok:
        c.ok(where(u, sl), 'completed before started before pending, each run oldest-first')


def _is_excess(e: ast.AST | None, self_: str, depth: int = 0) -> bool:
    """len(history) − max_history_size, possibly under max(0, ..) and / or as the non-zero arm of a conditional expression whose other arm is 0."""
    from sa.loops import lin

    if e is None or depth > 4:
        return False
    if isinstance(e, ast.Call) and isinstance(e.func, ast.Name) and e.func.id == 'max' and len(e.args) == 2:
        rest = [a for a in e.args if not (isinstance(a, ast.Constant) and a.value == 0)]
        return len(rest) == 1 and _is_excess(rest[0], self_, depth + 1)
    if isinstance(e, ast.IfExp):
        arms = [a for a in (e.body, e.orelse) if not (isinstance(a, ast.Constant) and a.value == 0)]
        return len(arms) == 1 and _is_excess(arms[0], self_, depth + 1)
    l = lin(e, {})
    return l is not None and {k: v for k, v in l.items() if v} == {f'len({self_}.event_history)': 1, f'{self_}.max_history_size': -1}


def take_loop_design(c: Ctx, u: Unit, fn: ast.AST, self_: str) -> bool:
    """The bucket design, evaluated rather than matched: a dict of lists keyed by status is filled from the history (every event filed under its own status), the lists are sorted
    (in place, or when they are taken), and a loop over a literal order of statuses takes from each list a prefix bounded by what is still to remove, into one list of ids that is
    then deleted from the history.  Taking `T_i[:r]` from each tier in turn, with r reduced by what was taken, removes exactly the first `excess` entries of T_1 + T_2 + ...; so the
    eviction order is that concatenation, and it is judged like any other (tiers.py).  Returns False when the function is not written this way."""
    from sa.loops import lin

    from .tiers import ALL, Tier, TierEval, describe

    Hh, M = f'{self_}.event_history', f'{self_}.max_history_size'
    te = TierEval(c, self_)
    buckets: dict[str, dict[str, list | None]] = {}
    scalars: dict[str, ast.AST] = {}
    removed: str | None = None
    order: list = []
    take_nodes: list[ast.AST] = []
    deleted = False
    problems: list[tuple[str, str, ast.AST]] = []

    def excess_like(e: ast.AST | None, depth: int = 0) -> bool:
        """len(history) − max_history_size, possibly under max(0, ..), possibly through locals."""
        if e is None or depth > 4:
            return False
        if isinstance(e, ast.Name) and e.id in scalars:
            return excess_like(scalars[e.id], depth + 1)
        if isinstance(e, ast.Call) and isinstance(e.func, ast.Name) and e.func.id == 'max' and len(e.args) == 2:
            rest = [a for a in e.args if not (isinstance(a, ast.Constant) and a.value == 0)]
            return len(rest) == 1 and excess_like(rest[0], depth + 1)
        if isinstance(e, ast.IfExp):
            # `0 if not M else <excess>`: nothing to remove without a bound (the function returns before the take loop when the count is 0)
            arms = [a for a in (e.body, e.orelse) if not (isinstance(a, ast.Constant) and a.value == 0)]
            return len(arms) == 1 and excess_like(arms[0], depth + 1)
        l = lin(e, {})
        return l is not None and {k: v for k, v in l.items() if v} == {f'len({Hh})': 1, M: -1}

    def bucket_ref(e: ast.AST, env: dict[str, str]) -> list | None:
        """`B[<status>]` / `B.get(<status>[, default])` with the status a literal or the loop variable."""
        key = None
        if isinstance(e, ast.Subscript) and isinstance(e.value, ast.Name) and e.value.id in buckets:
            b, key = e.value.id, e.slice
        elif isinstance(e, ast.Call) and isinstance(e.func, ast.Attribute) and e.func.attr == 'get' and isinstance(e.func.value, ast.Name) and e.func.value.id in buckets and e.args:
            b, key = e.func.value.id, e.args[0]
        if key is None:
            return None
        k = key.value if isinstance(key, ast.Constant) else env.get(key.id) if isinstance(key, ast.Name) else None
        return buckets[b].get(k) if k is not None else None

    def list_value(e: ast.AST, env: dict[str, str], local: dict[str, list | None]) -> list | None:
        if isinstance(e, ast.Name) and e.id in local:
            return local[e.id]
        r = bucket_ref(e, env)
        if r is not None:
            return r
        if isinstance(e, ast.Call) and isinstance(e.func, ast.Name) and e.func.id == 'sorted' and e.args:
            return te.sort(list_value(e.args[0], env, local), e)
        if isinstance(e, ast.Call) and isinstance(e.func, ast.Name) and e.func.id == 'list' and len(e.args) == 1:
            return list_value(e.args[0], env, local)
        return None

    def id_projection(comp: ast.AST) -> ast.AST | None:
        """`[id for id, _ in X]` / `[e.event_id for e in X]` / `(p[0] for p in X)`: returns X."""
        if not (isinstance(comp, (ast.ListComp, ast.GeneratorExp)) and len(comp.generators) == 1 and not comp.generators[0].ifs and not comp.generators[0].is_async):
            return None
        g_ = comp.generators[0]
        if isinstance(g_.target, ast.Name) and U(comp.elt) in (f'{g_.target.id}.event_id', f'{g_.target.id}[0]', f'{g_.target.id}[1].event_id'):
            return g_.iter
        if isinstance(g_.target, ast.Tuple) and len(g_.target.elts) == 2 and all(isinstance(x, ast.Name) for x in g_.target.elts) and U(comp.elt) in (g_.target.elts[0].id, f'{g_.target.elts[1].id}.event_id'):
            return g_.iter
        return None

    for st in fn.body:
        if isinstance(st, (ast.Assign, ast.AnnAssign)) and st.value is not None:
            tgt = st.targets[0] if isinstance(st, ast.Assign) else st.target
            if not isinstance(tgt, ast.Name):
                continue
            v = st.value
            keys = None
            if isinstance(v, ast.DictComp) and isinstance(v.value, ast.List) and not v.value.elts and len(v.generators) == 1 and isinstance(v.generators[0].iter, (ast.Tuple, ast.List)) \
                    and all(isinstance(x, ast.Constant) and isinstance(x.value, str) for x in v.generators[0].iter.elts) and U(v.key) == U(v.generators[0].target):
                keys = [x.value for x in v.generators[0].iter.elts]
            elif isinstance(v, ast.Dict) and v.keys and all(isinstance(k_, ast.Constant) and isinstance(k_.value, str) for k_ in v.keys) and all(isinstance(x, ast.List) and not x.elts for x in v.values):
                keys = [k_.value for k_ in v.keys]
            if keys is not None:
                buckets[tgt.id] = {k_: None for k_ in keys}
            elif isinstance(v, ast.List) and not v.elts:
                removed = removed or tgt.id
            else:
                scalars[tgt.id] = v
                te.env[tgt.id] = te.ev(v)
        elif isinstance(st, ast.If):
            # `if not M: R = 0 else: R = max(0, len(H) - M)` (a folded helper): the else value is the excess wherever there is something to remove
            for b in (st.body, st.orelse):
                for s2 in b:
                    if isinstance(s2, ast.Assign) and len(s2.targets) == 1 and isinstance(s2.targets[0], ast.Name) and not (isinstance(s2.value, ast.Constant) and s2.value.value == 0):
                        scalars[s2.targets[0].id] = s2.value
        elif isinstance(st, ast.For) and U(st.iter) in (f'{Hh}.items()', f'{Hh}.values()', f'list({Hh}.items())', f'list({Hh}.values())') and buckets:
            # the fill
            pair_src = 'items' in U(st.iter)
            evn = st.target.elts[1].id if pair_src and isinstance(st.target, ast.Tuple) and len(st.target.elts) == 2 and all(isinstance(x, ast.Name) for x in st.target.elts) else (st.target.id if isinstance(st.target, ast.Name) and not pair_src else None)
            body = [x for x in st.body if not isinstance(x, ast.Pass)]
            app = body[0].value if len(body) == 1 and isinstance(body[0], ast.Expr) and isinstance(body[0].value, ast.Call) and call_name(body[0].value) == 'append' and isinstance(body[0].value.func, ast.Attribute) else None
            if evn is None or app is None or len(app.args) != 1:
                return False
            recv = app.func.value
            b = key = None
            if isinstance(recv, ast.Subscript) and isinstance(recv.value, ast.Name) and recv.value.id in buckets:
                b, key = recv.value.id, recv.slice
            elif isinstance(recv, ast.Call) and isinstance(recv.func, ast.Attribute) and recv.func.attr in ('get', 'setdefault') and isinstance(recv.func.value, ast.Name) and recv.func.value.id in buckets and recv.args:
                b, key = recv.func.value.id, recv.args[0]
            if b is None or U(key) != f'{evn}.event_status':
                return False
            elt = app.args[0]
            is_pair = isinstance(elt, ast.Tuple) and len(elt.elts) == 2 and U(elt.elts[1]) == evn
            if not is_pair and U(elt) != evn:
                return False
            if set(buckets[b]) != set(ALL):
                problems.append((f'the status buckets are {sorted(buckets[b])}', 'events of a status that has no bucket are not in the eviction order (or are filed under another status)', st))
            for k_ in buckets[b]:
                if k_ in ALL:
                    buckets[b][k_] = [Tier(frozenset({k_}), False, True, f'the history events whose status is {k_}', is_pair)]
        elif isinstance(st, ast.For) and isinstance(st.iter, ast.Call) and isinstance(st.iter.func, ast.Attribute) and st.iter.func.attr == 'values' and isinstance(st.iter.func.value, ast.Name) and st.iter.func.value.id in buckets \
                and isinstance(st.target, ast.Name) and len(st.body) == 1 and isinstance(st.body[0], ast.Expr) and isinstance(st.body[0].value, ast.Call) and call_name(st.body[0].value) == 'sort' \
                and U(st.body[0].value.func.value) == st.target.id:
            b = st.iter.func.value.id
            for k_ in buckets[b]:
                buckets[b][k_] = te.sort(buckets[b][k_], st.body[0].value)
        elif isinstance(st, ast.For) and isinstance(st.iter, (ast.Tuple, ast.List)) and st.iter.elts and all(isinstance(x, ast.Constant) and isinstance(x.value, str) for x in st.iter.elts) and isinstance(st.target, ast.Name) and buckets:
            # the take loop, one pass per status
            if removed is None:
                return False
            running = None  # the counter that holds what is still to remove, when it is carried from pass to pass
            for status in [x.value for x in st.iter.elts]:
                env = {st.target.id: status}
                local: dict[str, list | None] = {}
                bound_names: set[str] = set()   # names that hold "what is still to remove" in this pass
                taken: dict[str, tuple[list | None, str]] = {}  # ids local -> (tiers, bound)
                prefixed: dict[str, str] = {}  # list local that already is a prefix -> its bound
                committed = None
                decremented = False
                stmts = list(st.body)
                while stmts:
                    s2 = stmts.pop(0)
                    if isinstance(s2, ast.If):
                        tb = [x for x in s2.body if not isinstance(x, ast.Pass)]
                        if len(tb) == 1 and isinstance(tb[0], (ast.Break, ast.Continue)) and not s2.orelse:
                            continue  # `if <nothing left>: break`: the remaining passes would take nothing
                        # `if len(X) > r: X = sorted(X, key=..)[:r]`: a list that goes as a whole need not be sorted — the same events are evicted as with sorted(X)[:r]
                        t_ = s2.test
                        if not s2.orelse and len(tb) == 1 and isinstance(tb[0], ast.Assign) and isinstance(tb[0].targets[0], ast.Name) and isinstance(t_, ast.Compare) and len(t_.ops) == 1 \
                                and isinstance(tb[0].value, ast.Subscript) and isinstance(tb[0].value.slice, ast.Slice) and tb[0].value.slice.lower is None and tb[0].value.slice.step is None and tb[0].value.slice.upper is not None:
                            X = tb[0].targets[0].id
                            r_ = U(tb[0].value.slice.upper)
                            cmp_ok = (isinstance(t_.ops[0], ast.Gt) and U(t_.left) == f'len({X})' and U(t_.comparators[0]) == r_) or (isinstance(t_.ops[0], ast.Lt) and U(t_.comparators[0]) == f'len({X})' and U(t_.left) == r_)
                            lv = list_value(tb[0].value.value, env, local)
                            if cmp_ok and lv is not None and X in local:
                                local[X] = lv
                                prefixed[X] = r_
                                continue
                            return False
                        if not s2.orelse and not any(isinstance(x, (ast.Break, ast.Continue, ast.Return)) for b2 in s2.body for x in ast.walk(b2)):
                            stmts = list(s2.body) + stmts  # `if <something left>:` around the pass
                            continue
                        return False
                    if isinstance(s2, (ast.Assign, ast.AnnAssign)) and s2.value is not None:
                        t2 = s2.targets[0] if isinstance(s2, ast.Assign) else s2.target
                        if not isinstance(t2, ast.Name):
                            return False
                        v2 = s2.value
                        l2 = lin(v2, {})
                        if isinstance(v2, ast.BinOp) and isinstance(v2.op, ast.Sub) and U(v2.right) == f'len({removed})' and excess_like(v2.left):
                            bound_names.add(t2.id)  # excess − len(removed): recomputed in every pass
                            continue
                        if isinstance(v2, ast.BinOp) and isinstance(v2.op, ast.Sub) and isinstance(v2.left, ast.Name) and v2.left.id == t2.id and committed is not None and U(v2.right) in (f'len({committed[2]})',):
                            decremented = True
                            continue
                        src = id_projection(v2)
                        if src is not None and isinstance(src, ast.Name) and src.id in prefixed and src.id in local:
                            taken[t2.id] = (local[src.id], prefixed[src.id])
                            continue
                        if src is not None and isinstance(src, ast.Subscript) and isinstance(src.slice, ast.Slice) and src.slice.lower is None and src.slice.step is None and src.slice.upper is not None:
                            taken[t2.id] = (list_value(src.value, env, local), U(src.slice.upper))
                            continue
                        if isinstance(v2, ast.Subscript) and isinstance(v2.slice, ast.Slice) and v2.slice.lower is None and v2.slice.step is None and v2.slice.upper is not None:
                            taken[t2.id] = (list_value(v2.value, env, local), U(v2.slice.upper))  # the prefix itself, ids projected later
                            continue
                        lv = list_value(v2, env, local)
                        if lv is not None:
                            local[t2.id] = lv
                            continue
                        if isinstance(v2, ast.Call) and isinstance(v2.func, ast.Name) and v2.func.id == 'min' and len(v2.args) == 2:
                            # k = min(len(T), r): the same bound as T[:r]
                            rs = [a for a in v2.args if not (isinstance(a, ast.Call) and isinstance(a.func, ast.Name) and a.func.id == 'len')]
                            if len(rs) == 1 and isinstance(rs[0], ast.Name):
                                scalars[t2.id] = rs[0]
                                bound_names |= {t2.id} if rs[0].id in bound_names or rs[0].id == running or (running is None and excess_like(rs[0])) else set()
                                if rs[0].id not in bound_names and running is None and excess_like(rs[0]):
                                    running = rs[0].id
                                continue
                        return False
                    if isinstance(s2, ast.AugAssign) and isinstance(s2.op, ast.Sub) and isinstance(s2.target, ast.Name) and committed is not None:
                        if U(s2.value) in (f'len({committed[2]})',) or (committed[3] is not None and U(s2.value) == committed[3]):
                            if s2.target.id != committed[1] and scalars.get(committed[1]) is None:
                                problems.append((f'`{U(s2)}` reduces {s2.target.id}, the prefix was bounded by {committed[1]}', 'what is still to remove is not reduced by what was just taken', s2))
                            decremented = True
                            continue
                        return False
                    if isinstance(s2, ast.Expr) and isinstance(s2.value, ast.Call) and call_name(s2.value) == 'extend' and isinstance(s2.value.func, ast.Attribute) and U(s2.value.func.value) == removed and len(s2.value.args) == 1:
                        a = s2.value.args[0]
                        tk = None
                        if isinstance(a, ast.Name) and a.id in taken:
                            tk = (*taken[a.id], a.id, None)
                        else:
                            src = id_projection(a)
                            if src is not None and isinstance(src, ast.Name) and src.id in taken:
                                tk = (*taken[src.id], src.id, None)
                            elif src is not None and isinstance(src, ast.Subscript) and isinstance(src.slice, ast.Slice) and src.slice.lower is None and src.slice.step is None and src.slice.upper is not None:
                                tk = (list_value(src.value, env, local), U(src.slice.upper), U(src), None)
                        if tk is None or tk[0] is None or committed is not None:
                            return False
                        committed = tk
                        take_nodes.append(s2)
                        continue
                    if isinstance(s2, ast.Expr) and isinstance(s2.value, ast.Call) and U(s2.value.func).startswith('logger.'):
                        continue
                    if isinstance(s2, ast.Expr) and isinstance(s2.value, ast.Call) and call_name(s2.value) == 'sort' and isinstance(s2.value.func, ast.Attribute) and isinstance(s2.value.func.value, ast.Name) \
                            and s2.value.func.value.id in local:
                        local[s2.value.func.value.id] = te.sort(local[s2.value.func.value.id], s2.value)  # the list of this pass, sorted in place
                        continue
                    return False
                if committed is None:
                    return False
                tiers_, bound, _nm, _x = committed
                # the bound: a name that holds what is still to remove at this point
                if bound in bound_names:
                    pass  # recomputed in this pass from the excess and what has been removed so far
                elif running is None and excess_like(ast.Name(id=bound, ctx=ast.Load())) and decremented:
                    running = bound
                elif bound == running and decremented:
                    pass
                else:
                    problems.append((f'the prefix taken from the {status} events is bounded by `{bound}`', 'the number taken from a status is not what is still to remove at that point (the excess minus what earlier '
                                     'statuses gave): more events than the excess are evicted, or fewer', take_nodes[-1]))
                order.extend(tiers_)
        elif isinstance(st, ast.For) and removed is not None and U(st.iter) == removed and isinstance(st.target, ast.Name):
            dl = [x for x in ast.walk(st) if (isinstance(x, ast.Delete) and any(U(t) == f'{Hh}[{st.target.id}]' for t in x.targets))
                  or (isinstance(x, ast.Call) and call_name(x) == 'pop' and isinstance(x.func, ast.Attribute) and U(x.func.value) == Hh and x.args and U(x.args[0]) == st.target.id)]
            deleted = deleted or bool(dl)
    if not order or not take_nodes:
        return False
    anchor = take_nodes[0]
    c.ok(where(u, anchor), f'status buckets taken in a loop, evaluated in the tier algebra: {describe(order)}; each pass takes a prefix bounded by what is still to remove')
    for what, why, node in problems:
        c.fail(u, what, why, node=node)
    if not deleted:
        c.fail(u, f'the ids collected in `{removed}` are not deleted from event_history', 'nothing is evicted: the history grows without bound', node=anchor)
    else:
        c.ok(where(u, anchor), 'the selected ids are deleted from event_history')
    _check_eviction_order(c, u, order, te, anchor)
    return True


def tier_algebra_design(c: Ctx, u: Unit, fn: ast.AST, self_: str) -> bool:
    """The third design: the eviction order is ONE list built with comprehensions, concatenation and sorting, and the first `excess` ids of it are deleted.  The order is evaluated
    in the tier algebra (rules/tiers.py).  Returns False when the function is not written this way (the order cannot be evaluated)."""
    from sa.loops import lin

    from .tiers import ALL, RANK, TierEval, describe

    H, M = f'len({self_}.event_history)', f'{self_}.max_history_size'
    nodes = list(own_nodes(fn))
    defs: dict[str, list[ast.AST]] = {}
    for n in nodes:
        if isinstance(n, (ast.Assign, ast.AnnAssign)) and n.value is not None:
            t = n.targets[0] if isinstance(n, ast.Assign) else n.target
            if isinstance(t, ast.Name):
                defs.setdefault(t.id, []).append(n.value)
    dels = [n for n in nodes if isinstance(n, ast.Delete) and any(isinstance(t, ast.Subscript) and U(t.value) == f'{self_}.event_history' for t in n.targets)]
    pops = [n for n in nodes if isinstance(n, ast.Call) and call_name(n) == 'pop' and isinstance(n.func, ast.Attribute) and U(n.func.value) == f'{self_}.event_history']
    sites = dels + pops
    if len(sites) != 1:
        return False
    lp = q.enclosing(sites[0], (ast.For,))
    if lp is None or not isinstance(lp.target, ast.Name):
        return False
    it = lp.iter
    if isinstance(it, ast.Name) and len(defs.get(it.id, [])) == 1:
        it = defs[it.id][0]
    # [e.event_id for e in ORDER[:k]]  |  ORDER[:k] iterated directly
    def id_of_element(comp) -> bool:
        g_ = comp.generators[0]
        if isinstance(g_.target, ast.Name):
            return U(comp.elt) in (f'{g_.target.id}.event_id', f'{g_.target.id}[0]', f'{g_.target.id}[1].event_id')
        if isinstance(g_.target, ast.Tuple) and len(g_.target.elts) == 2 and all(isinstance(x, ast.Name) for x in g_.target.elts):
            return U(comp.elt) in (g_.target.elts[0].id, f'{g_.target.elts[1].id}.event_id')
        return False

    if isinstance(it, (ast.ListComp, ast.GeneratorExp)) and len(it.generators) == 1 and not it.generators[0].ifs and id_of_element(it):
        sl = it.generators[0].iter
    else:
        sl = it
    if isinstance(sl, ast.Name) and len(defs.get(sl.id, [])) == 1:
        sl = defs[sl.id][0]
    if not (isinstance(sl, ast.Subscript) and isinstance(sl.slice, ast.Slice)):
        return False
    te = TierEval(c, self_)
    te.run(fn)
    order = te.ev(sl.value)
    if order is None:
        return False
    c.ok(where(u, sl), f'eviction order evaluated in the tier algebra: {describe(order)}')
    # the slice: the first `excess` entries
    k = sl.slice.upper
    if isinstance(k, ast.Name) and len(defs.get(k.id, [])) == 1:
        k = defs[k.id][0]
    kl = lin(k, {}) if k is not None else None
    if sl.slice.lower is None and sl.slice.step is None and kl is not None and {a: b for a, b in kl.items() if b} == {H: 1, M: -1}:
        c.ok(where(u, sl), 'the first len(history) − max_history_size entries of the order are evicted')
    else:
        c.fail(u, f'evicts {U(sl.value)[:40]}[{U(sl.slice)}]', 'the events evicted are not exactly the first len(history) − max_history_size of the eviction order (history stays above its bound, or in-flight events '
               'are evicted needlessly)', node=sl)
    _check_eviction_order(c, u, order, te, sl)
    c.ok(where(u, sites[0]), 'the selected ids are deleted from event_history')
    return True


def _check_single_victim_fast_paths(c: Ctx, u: Unit, fn: ast.AST, self_: str) -> None:
    """A fast path that deletes ONE event and returns before the general algorithm runs.  It evicts what the general algorithm would evict only if: the history is exactly one over
    the bound, the victim is a completed event, and no event in the history was created before it (insertion order is dispatch order, not creation order)."""
    from sa.loops import lin

    H, M = f'len({self_}.event_history)', f'{self_}.max_history_size'
    for d in [n for n in own_nodes(fn) if isinstance(n, ast.Delete) and any(isinstance(t, ast.Subscript) and U(t.value) == f'{self_}.event_history' for t in n.targets)]:
        if q.enclosing(d, (ast.For, ast.While)) is not None:
            continue  # the general algorithm's deletion loop
        blk = q.block_of(d)
        if blk is None or not any(isinstance(x, ast.Return) for x in blk[blk.index(d):]):
            continue
        vid = U(d.targets[0].slice)
        conds = [x for a in q.ancestors_of(d) if isinstance(a, ast.If) and q.lexically_in(d, a, 'body') for x in (a.test.values if isinstance(a.test, ast.BoolOp) and isinstance(a.test.op, ast.And) else [a.test])]
        # the victim event: bound together with its id
        binds = [n for n in own_nodes(fn) if isinstance(n, ast.Assign) and isinstance(n.targets[0], ast.Tuple) and len(n.targets[0].elts) == 2 and U(n.targets[0].elts[0]) == vid]
        vev = U(binds[0].targets[0].elts[1]) if binds else None
        locals_ts = {n.targets[0].id for n in own_nodes(fn) if isinstance(n, ast.Assign) and isinstance(n.targets[0], ast.Name) and vev and U(n.value) == f'{vev}.event_created_at.timestamp()'}
        one_over = any(isinstance(x, ast.Compare) and len(x.ops) == 1 and isinstance(x.ops[0], ast.Eq)
                       and (lambda l: l is not None and {k: v for k, v in l.items() if v} == {H: 1, M: -1, 1: -1})(lin(ast.BinOp(left=x.left, op=ast.Sub(), right=x.comparators[0]), {})) for x in conds)
        completed = vev is not None and any(U(x) in (f"{vev}.event_status == 'completed'", f'{vev}.event_completed_at is not None') for x in conds)

        def is_oldest(x: ast.AST) -> bool:
            if not (isinstance(x, ast.UnaryOp) and isinstance(x.op, ast.Not) and isinstance(x.operand, ast.Call) and U(x.operand.func) == 'any' and x.operand.args and isinstance(x.operand.args[0], ast.GeneratorExp)):
                return False
            ge = x.operand.args[0]
            if len(ge.generators) != 1 or ge.generators[0].ifs or U(ge.generators[0].iter) != f'{self_}.event_history.values()' or not isinstance(ge.generators[0].target, ast.Name):
                return False
            v = ge.generators[0].target.id
            t = ge.elt
            return isinstance(t, ast.Compare) and len(t.ops) == 1 and isinstance(t.ops[0], ast.Lt) and U(t.left) == f'{v}.event_created_at.timestamp()' \
                and (U(t.comparators[0]) in locals_ts or U(t.comparators[0]) == f'{vev}.event_created_at.timestamp()')

        oldest = any(is_oldest(x) for x in conds)
        missing = [w for w, okk in (('the history is exactly one over the bound', one_over), ('the victim is a completed event', completed), ('no event was created before the victim', oldest)) if not okk]
        if not missing:
            c.ok(where(u, d), 'single-victim fast path: one over the bound, victim completed and oldest by creation time — the event the general algorithm would evict')
        else:
            c.fail(u, f'fast path deletes {vid} without establishing: {"; ".join(missing)}', 'a fast path evicts another event than the eviction order prescribes (the first entry of the history is the first '
                   'one dispatched, not the oldest one created; an in-flight or younger event can go while an older completed one stays)', node=d)


@ob('C13.2', 'ORD/SHAPE', 'cleanup_event_history removes len(history) − max_history_size events, taking completed events first, then started, then pending, each oldest-first '
    '(sorted ascending by event_created_at, sliced from the front)')
def c13_2(c: Ctx) -> None:
    u = c.unit(SVC, 'EventBus.cleanup_event_history')
    self_ = u.params()[0]
    fn = q.unrolled_view(u.node)  # `for lst in (completed, started, pending): <block>` is the three blocks in that order
    # classification
    cls_loop = [n for n in own_nodes(fn) if isinstance(n, ast.For) and U(n.iter) == f'{self_}.event_history.items()']
    # a classic slip when the buckets are built generically: dict.fromkeys(keys, []) makes every key share ONE list
    for n in own_nodes(fn):
        if isinstance(n, ast.Call) and U(n.func) == 'dict.fromkeys' and len(n.args) == 2 and (isinstance(n.args[1], (ast.List, ast.Dict, ast.Set)) or (isinstance(n.args[1], ast.Call) and U(n.args[1].func) in ('list', 'dict', 'set'))):
            c.fail(u, f'`{U(n)[:60]}`: every key shares one container', 'the status buckets are one and the same list: the "completed" tier contains every event, so eviction is plain oldest-first and in-flight '
                   'events are evicted while completed ones remain', node=n)
            return
    _check_single_victim_fast_paths(c, u, fn, self_)
    if take_loop_design(c, u, u.node, self_):
        return
    if bucket_dict_design(c, u, fn, self_):
        return
    if not cls_loop and tier_algebra_design(c, u, fn, self_):
        return
    if len(cls_loop) != 1:
        c.fail(u, 'no single classification loop over event_history.items()', 'events are not classified by status before eviction')
        return
    lists: dict[str, str] = {}  # status class -> list name

    def collect(st_list, else_class=None):
        for s in st_list:
            if isinstance(s, ast.If):
                t = s.test
                lit = None
                if isinstance(t, ast.Compare) and isinstance(t.ops[0], ast.Eq) and U(t.left).endswith('.event_status') and isinstance(t.comparators[0], ast.Constant):
                    lit = t.comparators[0].value
                apps = [x for b in s.body for x in ast.walk(b) if isinstance(x, ast.Call) and call_name(x) == 'append']
                if lit and apps:
                    lists[lit] = U(apps[0].func.value)
                if s.orelse:
                    if len(s.orelse) == 1 and isinstance(s.orelse[0], ast.If):
                        collect(s.orelse)
                    else:
                        apps2 = [x for b in s.orelse for x in ast.walk(b) if isinstance(x, ast.Call) and call_name(x) == 'append']
                        if apps2:
                            lists['<else: completed/error>'] = U(apps2[0].func.value)

    collect(cls_loop[0].body)
    if set(lists) >= {'pending', 'started'} and ('<else: completed/error>' in lists or 'completed' in lists) and len(set(lists.values())) == len(lists):
        c.ok(where(u, cls_loop[0]), f'classification by event_status: {lists}')
    else:
        c.fail(u, f'classification is {lists}', 'events are not split into pending / started / completed lists', node=cls_loop[0])
        return
    L_done = lists.get('<else: completed/error>') or lists['completed']
    L_started, L_pending = lists['started'], lists['pending']
    # count
    cnt_defs = [n for n in own_nodes(fn) if isinstance(n, ast.Assign) and isinstance(n.targets[0], ast.Name) and isinstance(n.value, ast.BinOp) and isinstance(n.value.op, ast.Sub) and 'max_history_size' in U(n.value)]
    if not cnt_defs:
        # the count may come guarded: `0 if not M else max(0, len(H) - M)` (the excess wherever there is something to evict)
        guarded = [n for n in own_nodes(fn) if isinstance(n, ast.Assign) and isinstance(n.targets[0], ast.Name) and 'max_history_size' in U(n.value) and _is_excess(n.value, self_)]
        if len(guarded) == 1:
            cnt = guarded[0].targets[0].id
            c.ok(where(u, guarded[0]), f'{cnt} = len(history) − max_history_size (0 where there is no bound or no excess)')
            cnt_defs = guarded
    if cnt_defs and not (isinstance(cnt_defs[0].value, ast.BinOp) and isinstance(cnt_defs[0].value.op, ast.Sub)):
        pass
    elif len(cnt_defs) != 1:
        c.fail(u, f'{len(cnt_defs)} definitions of the removal count', 'the number of events to evict is not computed as len(history) − max_history_size')
        return
    cnt = cnt_defs[0].targets[0].id
    if isinstance(cnt_defs[0].value, ast.BinOp) and isinstance(cnt_defs[0].value.op, ast.Sub):
        lhs = cnt_defs[0].value.left
        lhs_txt = U(lhs)
        if isinstance(lhs, ast.Name):
            d0 = [n for n in own_nodes(fn) if isinstance(n, ast.Assign) and U(n.targets[0]) == lhs.id]
            lhs_txt = U(d0[0].value) if d0 else lhs_txt
        if lhs_txt == f'len({self_}.event_history)' and U(cnt_defs[0].value.right) == f'{self_}.max_history_size':
            c.ok(where(u, cnt_defs[0]), f'{cnt} = len(history) − max_history_size')
        else:
            c.fail(u, f'{cnt} = {lhs_txt} - {U(cnt_defs[0].value.right)}', 'the number evicted is not exactly the excess over max_history_size (history stays above N, or in-flight events are evicted needlessly)', node=cnt_defs[0])
    # removal blocks in textual order
    rem_defs = [n for n in own_nodes(fn) if isinstance(n, (ast.Assign, ast.AnnAssign)) and isinstance(n.value, ast.List) and not n.value.elts]
    exts = sorted([n for n in own_nodes(fn) if isinstance(n, ast.Call) and call_name(n) == 'extend' and isinstance(n.func, ast.Attribute)], key=lambda n: n.lineno)
    order = []
    slice_vars: dict[str, ast.Subscript] = {}
    for e in exts:
        src = None
        sl = None
        cands = list(ast.walk(e.args[0])) if e.args else []
        # the slice may be taken first and named (`oldest = lst[:n]`, then extend(... for ... in oldest)): follow the one definition that reaches this call
        for x in list(cands):
            if isinstance(x, ast.Name) and isinstance(x.ctx, ast.Load) and x.id not in (L_done, L_started, L_pending):
                ds = sorted([d for d in own_nodes(fn) if isinstance(d, ast.Assign) and len(d.targets) == 1 and U(d.targets[0]) == x.id and d.lineno < e.lineno], key=lambda d: d.lineno)[-1:]
                for d in ds:
                    if isinstance(d.value, ast.Subscript):
                        cands.append(d.value)
                        slice_vars[x.id] = d.value
        for x in cands:
            if isinstance(x, ast.Subscript) and isinstance(x.slice, ast.Slice) and isinstance(x.value, ast.Name) and x.value.id in (L_done, L_started, L_pending):
                src, sl = x.value.id, x.slice
        if src is None:
            continue
        order.append(src)
        front = sl.lower is None and sl.upper is not None and sl.step is None and not (isinstance(sl.upper, ast.UnaryOp))
        if front:
            c.ok(where(u, e), f'{src} sliced from the front ([:{U(sl.upper)}])')
        else:
            c.fail(u, f'{src} sliced as [{U(sl)}]', f'eviction from {src} does not take the oldest events first', node=e)
        # slice bound relates to the remaining count
        ub = U(sl.upper)
        ok_bound = ub == cnt
        if not ok_bound and isinstance(sl.upper, ast.Name):
            bd = sorted([n for n in own_nodes(fn) if isinstance(n, ast.Assign) and U(n.targets[0]) == ub and n.lineno < e.lineno], key=lambda n: n.lineno)[-1:]  # the definition that reaches this slice
            ok_bound = bool(bd) and all(isinstance(b.value, ast.Call) and U(b.value.func) == 'min' and {U(a) for a in b.value.args} == {f'len({src})', cnt} for b in bd)
        if ok_bound:
            c.ok(where(u, e), f'takes min(len({src}), remaining count) events from {src}')
        else:
            c.fail(u, f'slice bound of {src} is {ub}', f'the number taken from {src} is not bounded by the remaining count', node=e)
        sorts = sort_info(fn, src)
        srt_ok = sorts and all((not desc) and 'event_created_at' in k for _, desc, k in sorts) and all(s.lineno < e.lineno for s, _, _ in sorts)
        naked = [k for _, _, k in sorts if 'event_created_at' in k and 'event_created_at.timestamp()' not in k]
        if srt_ok and naked:
            c.fail(u, f'{src} sorted by comparing datetime objects directly ({naked[0][:60]})', 'event_created_at accepts timezone-naive and timezone-aware values (caller-supplied, rehydrated events); comparing one with the other '
                   'raises TypeError inside the cleanup: dispatch() raises after having enqueued the event and the history stays over its bound', node=sorts[0][0])
        elif srt_ok:
            c.ok(where(u, sorts[0][0]), f'{src} sorted ascending by event_created_at.timestamp() (a float: totally ordered) before slicing')
        else:
            c.fail(u, f'{src} not sorted ascending by event_created_at before slicing ({[(d, k[:30]) for _, d, k in sorts]})', f'eviction from {src} is not oldest-first', node=e)
    if order == [L_done, L_started, L_pending]:
        c.ok(where(u), f'eviction order: {order}')
    else:
        c.fail(u, f'eviction order is {order}', 'in-flight (started/pending) events can be evicted while a completed one remains')
    # the count is decremented between blocks
    decs = [n for n in own_nodes(fn) if isinstance(n, ast.AugAssign) and isinstance(n.op, ast.Sub) and U(n.target) == cnt]
    if len(decs) >= 2:
        c.ok(where(u, decs[0]), f'{cnt} decremented after the completed and started blocks')
    else:
        c.fail(u, f'{cnt} decremented {len(decs)} times', 'more events than the excess are evicted (in-flight events evicted needlessly)')
    # later blocks run only if still needed
    for e, src in [(e, s) for e in exts for s in [next((x.value.id for x in ast.walk(e.args[0]) if isinstance(x, ast.Subscript) and isinstance(x.value, ast.Name) and x.value.id in (L_started, L_pending)), None)] if s]:
        g_if = q.enclosing(e, (ast.If,))
        if g_if is not None and f'{cnt} > 0' in U(g_if.test):
            c.ok(where(u, e), f'{src} evicted only while {cnt} > 0')
        else:
            c.fail(u, f'{src} eviction not guarded by {cnt} > 0', f'{src} events are evicted although enough completed events were removed', node=e)
    dels = [w for w in c.cg.writes[u.key] if w.attr == 'event_history' and w.how in ('del', 'pop')]
    if dels:
        c.ok(where(u, dels[0].node), 'the selected ids are deleted from event_history')
    else:
        c.fail(u, 'no deletion from event_history', 'selected events are never removed: history is unbounded')


@ob('C13.3', 'WMW', 'events are deleted from event_history only by the two cleanup functions and stop(clear=True); the status-blind cleanup_excess_events has no caller inside the library')
def c13_3(c: Ctx) -> None:
    dels = [w for w in c.cg.all_writes('event_history') if w.how in ('del', 'clear', 'pop', 'popitem') or (w.how == 'assign' and w.unit.name != '__init__')]
    c.floor(len(dels), 3, 'deletions from event_history')
    allowed = {(SVC, 'EventBus.cleanup_event_history'), (SVC, 'EventBus.cleanup_excess_events'), (SVC, 'EventBus.stop')}
    for w in dels:
        if w.unit.key in allowed:
            if w.unit.qualname == 'EventBus.stop':
                g = c.cfg(w.unit)
                facts = Facts(lambda a: a == 'clear', cg=c.cg, unit=w.unit)
                bad = [p for n in g.nodes_of(q.stmt_of(w.node)) if (p := q.guard_search(g, n, 'clear', facts)) is not None]
                if bad:
                    c.fail(w.unit, 'stop() clears the history without clear=True', 'stop() drops in-flight events from the history unconditionally', node=w.node, witness=c.path(g.entry, bad[0]))
                    continue
            c.ok(w.where() + ' ' + w.unit.qualname, f'history deletion ({w.how}) in {w.unit.name}')
        else:
            c.fail(w.unit, f'deletes from event_history: {U(w.node)[:70]}', f'events are removed from the history outside the cleanup functions (in {w.unit.qualname}), without the completed-first policy', node=w.node)
    blind = c.unit(SVC, 'EventBus.cleanup_excess_events')
    cs = c.cg.callers(blind)
    if not cs:
        c.ok(where(blind), 'status-blind cleanup_excess_events has no internal caller')
    for cu, call in cs:
        c.fail(cu, f'calls cleanup_excess_events: {q.stmt_text(q.stmt_of(call), 70)}', 'the status-blind eviction (oldest first regardless of status) runs inside the library: in-flight events are evicted while completed ones remain', node=call)


@ob('C13.4', 'INTERFERENCE', 'state that completion propagation depends on (the ancestor lookup of the parent walk) must not be evictable while the ancestor is incomplete')
def c13_4(c: Ctx) -> None:
    pe = c.unit(SVC, 'EventBus.process_event')
    walks = [n for n in own_nodes(pe.node) if isinstance(n, ast.While) and 'event_parent_id' in U(n.test)]
    if not walks:
        c.ok(where(pe), 'no id-based ancestor lookup in process_event')
        return
    w = walks[0]
    lookups = [n for n in ast.walk(w) if isinstance(n, ast.Attribute) and n.attr == 'event_history']
    direct = [n for n in ast.walk(w) if isinstance(n, ast.Attribute) and n.attr in ('event_parent', '_event_parent', 'event_parent_ref')]
    if not lookups or direct:
        c.ok(where(pe, w), 'ancestors are reached through direct references, not through evictable history')
        return
    cu = c.unit(SVC, 'EventBus.cleanup_event_history')
    # does cleanup select non-completed events for deletion?
    evictable = []
    for n in own_nodes(cu.node):
        if isinstance(n, ast.Call) and call_name(n) == 'extend':
            for x in ast.walk(n):
                if isinstance(x, ast.Name) and x.id in ('started_events', 'pending_events'):
                    evictable.append(x.id)
    if not evictable:
        # generic: any list fed from a branch on status 'started'/'pending' that reaches the deletion list
        evictable = [U(x.func.value) for n in own_nodes(cu.node) if isinstance(n, ast.If) and ("'started'" in U(n.test) or "'pending'" in U(n.test)) for b in n.body for x in ast.walk(b) if isinstance(x, ast.Call) and call_name(x) == 'append']
        used = {x.id for n in own_nodes(cu.node) if isinstance(n, ast.Call) and call_name(n) == 'extend' for x in ast.walk(n) if isinstance(x, ast.Name)}
        evictable = [e for e in evictable if e in used]
    if not evictable:
        # the eviction is written some other way: ask the evaluators of C13.2 which statuses the eviction order contains
        LAST_ORDER.pop(id(c.prog), None)
        qc = _Quiet(c)
        try:
            if not take_loop_design(qc, cu, cu.node, cu.params()[0]):
                tier_algebra_design(qc, cu, q.unrolled_view(cu.node), cu.params()[0])
        except Exception:
            pass
        evictable = sorted(LAST_ORDER.get(id(c.prog), frozenset()) & {'started', 'pending'})
    if evictable:
        c.fail('EventBus.process_event × EventBus.cleanup_event_history', 'ancestor lookup reads event_history; cleanup deletes started/pending entries',
               'an in-flight parent evicted from the history (its fire-and-forget children outnumber max_history_size) can never be found by the upward propagation: it never completes and awaiting it hangs',
               witness=[f'{where(pe, w)}: ancestor found via `{U(q.stmt_of(lookups[0]))[:90]}`', f'{where(cu)}: removal list extended from {sorted(set(evictable))}'])
    else:
        c.ok(where(cu), 'cleanup never evicts started/pending events, so the ancestor lookup cannot lose an in-flight parent')



@ob('C13.5', 'DOM', 'an event evicted from every history can still be awaited from inside a handler: the in-handler branch of `await event` does not depend on history membership '
    '(same obligation as C04.7: the blocking wait is never reached while holding the lock)')
def c13_5(c: Ctx) -> None:
    from .c04 import check_blocking_wait_unreachable_with_lock

    check_blocking_wait_unreachable_with_lock(c)


@ob('C13.6', 'SHAPE', 'the status that eviction classifies by is derived from the handler results alone: event_status is \'completed\' iff event_completed_at is set, \'started\' iff only '
    'event_started_at is — never from the completion signal, which stays set when a forwarded / re-dispatched event is in flight again on another bus')
def c13_6(c: Ctx) -> None:
    from sa.absint import AbsInt, Rec, UNKNOWN

    u = c.unit(MOD, 'BaseEvent.event_status')
    self_ = u.params()[0]
    sig_set = Rec()
    cases = [
        ('results terminal (event_completed_at set)', dict(event_completed_at='t2', event_started_at='t1'), 'completed'),
        ('a handler still running (event_completed_at None, event_started_at set), completion signal already set by an earlier bus', dict(event_completed_at=None, event_started_at='t1'), 'started'),
        ('no handler started yet, completion signal already set by an earlier bus', dict(event_completed_at=None, event_started_at=None), 'pending'),
    ]
    for desc, fields, want in cases:
        rec = Rec(_event_completed_signal=sig_set, event_completed_signal=sig_set, event_results={}, **fields)
        ai = AbsInt(calls={'.is_set': lambda *a: True})
        ai.run(u.node.body, {self_: rec})
        if ai.undecided or len(ai.returns) != 1 or ai.returns[0] is UNKNOWN:
            raise AnalysisError(f'{u}: status undecided when {desc}')
        got = ai.returns[0]
        if got == want:
            c.ok(where(u), f'{desc} -> {got!r}')
        else:
            c.fail(u, f'{desc} -> {got!r}', f'event_status is {got!r} when {desc} (must be {want!r}): history eviction treats an in-flight event as completed and evicts it first '
                   '(and the pending-events capacity check no longer counts it)')


@ob('C13.7', 'WMW', 'the bound is the one the bus was built with: max_history_size is assigned by the constructor only (a temporary override that is saved and restored around a block is not '
    'restored correctly when two such blocks overlap, and the bus keeps the wrong bound for good)')
def c13_7(c: Ctx) -> None:
    ws = [w for w in c.cg.all_writes('max_history_size') if w.unit.module in (SVC, MOD)]
    c.floor(len(ws), 1, 'assignments of max_history_size')
    for w in ws:
        if w.unit.name == '__init__':
            c.ok(where(w.unit, w.node), 'max_history_size set by the constructor')
        else:
            c.fail(w.unit, f'{w.unit.qualname} assigns max_history_size: {q.stmt_text(q.stmt_of(w.node), 60)}', 'the history bound of a live bus is changed after construction: history is no longer kept within the bound the '
                   'bus was configured with', node=w.node)


OBLIGATIONS = ob.obs
