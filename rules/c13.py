"""C13 — history is bounded and eviction spares in-flight events: structural necessary conditions."""

from __future__ import annotations

import ast

from .common import *  # noqa: F401,F403
from .common import SVC, MOD, AnalysisError, Ctx, Facts, Registry, U, Unit, call_name, own_nodes, parent, q, where
from sa.shape import canon

ob = Registry()


def is_bound_step(n, self_: str) -> bool:
    """`if <..> len(self.event_history) > self.max_history_size: self.cleanup_event_history()` or a direct cleanup call."""
    if n.kind == 'if':
        t = U(n.ast.test)
        calls_cleanup = any(isinstance(x, ast.Call) and call_name(x) == 'cleanup_event_history' for b in n.ast.body for x in ast.walk(b))
        if not calls_cleanup:
            return False
        conj = n.ast.test.values if isinstance(n.ast.test, ast.BoolOp) and isinstance(n.ast.test.op, ast.And) else [n.ast.test]
        allowed = {f'{self_}.max_history_size', f'{self_}.max_history_size is not None', f'len({self_}.event_history) > {self_}.max_history_size', f'{self_}.max_history_size < len({self_}.event_history)'}
        return all(U(x) in allowed for x in conj)
    if n.kind == 'stmt':
        return bool(q.node_calls(n, 'cleanup_event_history')) and q.enclosing(n.ast, (ast.If,)) is None
    return False


@ob('C13.1', 'MPT/WMW', 'events are inserted into event_history only by dispatch; after every insertion, and at the end of every process_event, every normal path runs the '
    'bound step (cleanup_event_history() when over max_history_size)')
def c13_1(c: Ctx) -> None:
    ins = [w for w in c.cg.all_writes('event_history') if w.how in ('subscript', 'update', 'setdefault', '__setitem__')]
    c.floor(len(ins), 1, 'insertions into event_history')
    d = c.unit(SVC, 'EventBus.dispatch')
    for w in ins:
        if w.unit.key != d.key:
            c.fail(w.unit, f'inserts into event_history: {U(w.node)[:70]}', f'history grows outside dispatch (in {w.unit.qualname}), not followed by the bound step', node=w.node)
            continue
        g = c.cfg(d)
        self_ = d.params()[0]
        for n in g.nodes_of(q.stmt_of(w.node)):
            p = q.pair_search(g, n, lambda x: is_bound_step(x, self_), exc_ok=lambda e: False)
            if p is None:
                c.ok(where(d, w.node), 'every normal path after the history insert runs the bound step')
            else:
                c.fail(d, 'normal path from the history insert to return avoids the bound step', 'history can exceed max_history_size after a dispatch', node=w.node, witness=c.path(n, p))
    pe = c.unit(SVC, 'EventBus.process_event')
    g = c.cfg(pe)
    self_ = pe.params()[0]
    p = q.reach_search(g, [(g.entry, {})], lambda n, dd: n.kind == 'exit', lambda n, dd: is_bound_step(n, self_), exc_ok=lambda e: False)
    if p is None:
        c.ok(where(pe), 'every normal path of process_event ends with the bound step')
    else:
        c.fail(pe, 'normal path through process_event avoids the bound step', 'history is not trimmed after an event was processed', witness=c.path(g.entry, p))


def sort_info(fn: ast.AST, lst: str) -> list[tuple[ast.Call, bool, str]]:
    """`.sort(key=..)` calls on list *lst*: (call, descending?, key text)."""
    out = []
    for n in own_nodes(fn):
        # `lst = sorted(lst, key=...)`: the same list, sorted
        if isinstance(n, ast.Assign) and len(n.targets) == 1 and U(n.targets[0]) == lst and isinstance(n.value, ast.Call) and call_name(n.value) == 'sorted' and n.value.args and U(n.value.args[0]) == lst:
            rev = q.kw(n.value, 'reverse')
            desc = rev is not None and not (isinstance(rev, ast.Constant) and rev.value is False)
            k = q.kw(n.value, 'key')
            out.append((n.value, desc, U(k) if k is not None else ''))
        if isinstance(n, ast.Call) and call_name(n) == 'sort' and isinstance(n.func, ast.Attribute) and U(n.func.value) == lst:
            rev = q.kw(n, 'reverse')
            desc = rev is not None and not (isinstance(rev, ast.Constant) and rev.value is False)
            k = q.kw(n, 'key')
            out.append((n, desc, U(k) if k is not None else ''))
    return out


@ob('C13.2', 'ORD/SHAPE', 'cleanup_event_history removes len(history) − max_history_size events, taking completed events first, then started, then pending, each oldest-first '
    '(sorted ascending by event_created_at, sliced from the front)')
def c13_2(c: Ctx) -> None:
    u = c.unit(SVC, 'EventBus.cleanup_event_history')
    self_ = u.params()[0]
    fn = q.unrolled_view(u.node)  # `for lst in (completed, started, pending): <block>` is the three blocks in that order
    # classification
    cls_loop = [n for n in own_nodes(fn) if isinstance(n, ast.For) and U(n.iter) == f'{self_}.event_history.items()']
    if len(cls_loop) != 1:
        c.fail(u, 'no single classification loop over event_history.items()', 'events are not classified by status before eviction')
        return
    lists: dict[str, str] = {}  # status class -> list name

    def collect(st_list, else_class=None):
        for s in st_list:
            if isinstance(s, ast.If):
                t = s.test
                lit = None
                if isinstance(t, ast.Compare) and isinstance(t.ops[0], ast.Eq) and U(t.left).endswith('.event_status') and isinstance(t.comparators[0], ast.Constant):
                    lit = t.comparators[0].value
                apps = [x for b in s.body for x in ast.walk(b) if isinstance(x, ast.Call) and call_name(x) == 'append']
                if lit and apps:
                    lists[lit] = U(apps[0].func.value)
                if s.orelse:
                    if len(s.orelse) == 1 and isinstance(s.orelse[0], ast.If):
                        collect(s.orelse)
                    else:
                        apps2 = [x for b in s.orelse for x in ast.walk(b) if isinstance(x, ast.Call) and call_name(x) == 'append']
                        if apps2:
                            lists['<else: completed/error>'] = U(apps2[0].func.value)

    collect(cls_loop[0].body)
    if set(lists) >= {'pending', 'started'} and ('<else: completed/error>' in lists or 'completed' in lists) and len(set(lists.values())) == len(lists):
        c.ok(where(u, cls_loop[0]), f'classification by event_status: {lists}')
    else:
        c.fail(u, f'classification is {lists}', 'events are not split into pending / started / completed lists', node=cls_loop[0])
        return
    L_done = lists.get('<else: completed/error>') or lists['completed']
    L_started, L_pending = lists['started'], lists['pending']
    # count
    cnt_defs = [n for n in own_nodes(fn) if isinstance(n, ast.Assign) and isinstance(n.targets[0], ast.Name) and isinstance(n.value, ast.BinOp) and isinstance(n.value.op, ast.Sub) and 'max_history_size' in U(n.value)]
    if len(cnt_defs) != 1:
        c.fail(u, f'{len(cnt_defs)} definitions of the removal count', 'the number of events to evict is not computed as len(history) − max_history_size')
        return
    cnt = cnt_defs[0].targets[0].id
    lhs = cnt_defs[0].value.left
    lhs_txt = U(lhs)
    if isinstance(lhs, ast.Name):
        d0 = [n for n in own_nodes(fn) if isinstance(n, ast.Assign) and U(n.targets[0]) == lhs.id]
        lhs_txt = U(d0[0].value) if d0 else lhs_txt
    if lhs_txt == f'len({self_}.event_history)' and U(cnt_defs[0].value.right) == f'{self_}.max_history_size':
        c.ok(where(u, cnt_defs[0]), f'{cnt} = len(history) − max_history_size')
    else:
        c.fail(u, f'{cnt} = {lhs_txt} - {U(cnt_defs[0].value.right)}', 'the number evicted is not exactly the excess over max_history_size (history stays above N, or in-flight events are evicted needlessly)', node=cnt_defs[0])
    # removal blocks in textual order
    rem_defs = [n for n in own_nodes(fn) if isinstance(n, (ast.Assign, ast.AnnAssign)) and isinstance(n.value, ast.List) and not n.value.elts]
    exts = sorted([n for n in own_nodes(fn) if isinstance(n, ast.Call) and call_name(n) == 'extend' and isinstance(n.func, ast.Attribute)], key=lambda n: n.lineno)
    order = []
    slice_vars: dict[str, ast.Subscript] = {}
    for e in exts:
        src = None
        sl = None
        cands = list(ast.walk(e.args[0])) if e.args else []
        # the slice may be taken first and named (`oldest = lst[:n]`, then extend(... for ... in oldest)): follow the one definition that reaches this call
        for x in list(cands):
            if isinstance(x, ast.Name) and isinstance(x.ctx, ast.Load) and x.id not in (L_done, L_started, L_pending):
                ds = sorted([d for d in own_nodes(fn) if isinstance(d, ast.Assign) and len(d.targets) == 1 and U(d.targets[0]) == x.id and d.lineno < e.lineno], key=lambda d: d.lineno)[-1:]
                for d in ds:
                    if isinstance(d.value, ast.Subscript):
                        cands.append(d.value)
                        slice_vars[x.id] = d.value
        for x in cands:
            if isinstance(x, ast.Subscript) and isinstance(x.slice, ast.Slice) and isinstance(x.value, ast.Name) and x.value.id in (L_done, L_started, L_pending):
                src, sl = x.value.id, x.slice
        if src is None:
            continue
        order.append(src)
        front = sl.lower is None and sl.upper is not None and sl.step is None and not (isinstance(sl.upper, ast.UnaryOp))
        if front:
            c.ok(where(u, e), f'{src} sliced from the front ([:{U(sl.upper)}])')
        else:
            c.fail(u, f'{src} sliced as [{U(sl)}]', f'eviction from {src} does not take the oldest events first', node=e)
        # slice bound relates to the remaining count
        ub = U(sl.upper)
        ok_bound = ub == cnt
        if not ok_bound and isinstance(sl.upper, ast.Name):
            bd = sorted([n for n in own_nodes(fn) if isinstance(n, ast.Assign) and U(n.targets[0]) == ub and n.lineno < e.lineno], key=lambda n: n.lineno)[-1:]  # the definition that reaches this slice
            ok_bound = bool(bd) and all(isinstance(b.value, ast.Call) and U(b.value.func) == 'min' and {U(a) for a in b.value.args} == {f'len({src})', cnt} for b in bd)
        if ok_bound:
            c.ok(where(u, e), f'takes min(len({src}), remaining count) events from {src}')
        else:
            c.fail(u, f'slice bound of {src} is {ub}', f'the number taken from {src} is not bounded by the remaining count', node=e)
        sorts = sort_info(fn, src)
        srt_ok = sorts and all((not desc) and 'event_created_at' in k for _, desc, k in sorts) and all(s.lineno < e.lineno for s, _, _ in sorts)
        naked = [k for _, _, k in sorts if 'event_created_at' in k and 'event_created_at.timestamp()' not in k]
        if srt_ok and naked:
            c.fail(u, f'{src} sorted by comparing datetime objects directly ({naked[0][:60]})', 'event_created_at accepts timezone-naive and timezone-aware values (caller-supplied, rehydrated events); comparing one with the other '
                   'raises TypeError inside the cleanup: dispatch() raises after having enqueued the event and the history stays over its bound', node=sorts[0][0])
        elif srt_ok:
            c.ok(where(u, sorts[0][0]), f'{src} sorted ascending by event_created_at.timestamp() (a float: totally ordered) before slicing')
        else:
            c.fail(u, f'{src} not sorted ascending by event_created_at before slicing ({[(d, k[:30]) for _, d, k in sorts]})', f'eviction from {src} is not oldest-first', node=e)
    if order == [L_done, L_started, L_pending]:
        c.ok(where(u), f'eviction order: {order}')
    else:
        c.fail(u, f'eviction order is {order}', 'in-flight (started/pending) events can be evicted while a completed one remains')
    # the count is decremented between blocks
    decs = [n for n in own_nodes(fn) if isinstance(n, ast.AugAssign) and isinstance(n.op, ast.Sub) and U(n.target) == cnt]
    if len(decs) >= 2:
        c.ok(where(u, decs[0]), f'{cnt} decremented after the completed and started blocks')
    else:
        c.fail(u, f'{cnt} decremented {len(decs)} times', 'more events than the excess are evicted (in-flight events evicted needlessly)')
    # later blocks run only if still needed
    for e, src in [(e, s) for e in exts for s in [next((x.value.id for x in ast.walk(e.args[0]) if isinstance(x, ast.Subscript) and isinstance(x.value, ast.Name) and x.value.id in (L_started, L_pending)), None)] if s]:
        g_if = q.enclosing(e, (ast.If,))
        if g_if is not None and f'{cnt} > 0' in U(g_if.test):
            c.ok(where(u, e), f'{src} evicted only while {cnt} > 0')
        else:
            c.fail(u, f'{src} eviction not guarded by {cnt} > 0', f'{src} events are evicted although enough completed events were removed', node=e)
    dels = [w for w in c.cg.writes[u.key] if w.attr == 'event_history' and w.how == 'del']
    if dels:
        c.ok(where(u, dels[0].node), 'the selected ids are deleted from event_history')
    else:
        c.fail(u, 'no deletion from event_history', 'selected events are never removed: history is unbounded')


@ob('C13.3', 'WMW', 'events are deleted from event_history only by the two cleanup functions and stop(clear=True); the status-blind cleanup_excess_events has no caller inside the library')
def c13_3(c: Ctx) -> None:
    dels = [w for w in c.cg.all_writes('event_history') if w.how in ('del', 'clear', 'pop', 'popitem') or (w.how == 'assign' and w.unit.name != '__init__')]
    c.floor(len(dels), 3, 'deletions from event_history')
    allowed = {(SVC, 'EventBus.cleanup_event_history'), (SVC, 'EventBus.cleanup_excess_events'), (SVC, 'EventBus.stop')}
    for w in dels:
        if w.unit.key in allowed:
            if w.unit.qualname == 'EventBus.stop':
                g = c.cfg(w.unit)
                facts = Facts(lambda a: a == 'clear', cg=c.cg, unit=w.unit)
                bad = [p for n in g.nodes_of(q.stmt_of(w.node)) if (p := q.guard_search(g, n, 'clear', facts)) is not None]
                if bad:
                    c.fail(w.unit, 'stop() clears the history without clear=True', 'stop() drops in-flight events from the history unconditionally', node=w.node, witness=c.path(g.entry, bad[0]))
                    continue
            c.ok(w.where() + ' ' + w.unit.qualname, f'history deletion ({w.how}) in {w.unit.name}')
        else:
            c.fail(w.unit, f'deletes from event_history: {U(w.node)[:70]}', f'events are removed from the history outside the cleanup functions (in {w.unit.qualname}), without the completed-first policy', node=w.node)
    blind = c.unit(SVC, 'EventBus.cleanup_excess_events')
    cs = c.cg.callers(blind)
    if not cs:
        c.ok(where(blind), 'status-blind cleanup_excess_events has no internal caller')
    for cu, call in cs:
        c.fail(cu, f'calls cleanup_excess_events: {q.stmt_text(q.stmt_of(call), 70)}', 'the status-blind eviction (oldest first regardless of status) runs inside the library: in-flight events are evicted while completed ones remain', node=call)


@ob('C13.4', 'INTERFERENCE', 'state that completion propagation depends on (the ancestor lookup of the parent walk) must not be evictable while the ancestor is incomplete')
def c13_4(c: Ctx) -> None:
    pe = c.unit(SVC, 'EventBus.process_event')
    walks = [n for n in own_nodes(pe.node) if isinstance(n, ast.While) and 'event_parent_id' in U(n.test)]
    if not walks:
        c.ok(where(pe), 'no id-based ancestor lookup in process_event')
        return
    w = walks[0]
    lookups = [n for n in ast.walk(w) if isinstance(n, ast.Attribute) and n.attr == 'event_history']
    direct = [n for n in ast.walk(w) if isinstance(n, ast.Attribute) and n.attr in ('event_parent', '_event_parent', 'event_parent_ref')]
    if not lookups or direct:
        c.ok(where(pe, w), 'ancestors are reached through direct references, not through evictable history')
        return
    cu = c.unit(SVC, 'EventBus.cleanup_event_history')
    # does cleanup select non-completed events for deletion?
    evictable = []
    for n in own_nodes(cu.node):
        if isinstance(n, ast.Call) and call_name(n) == 'extend':
            for x in ast.walk(n):
                if isinstance(x, ast.Name) and x.id in ('started_events', 'pending_events'):
                    evictable.append(x.id)
    if not evictable:
        # generic: any list fed from a branch on status 'started'/'pending' that reaches the deletion list
        evictable = [U(x.func.value) for n in own_nodes(cu.node) if isinstance(n, ast.If) and ("'started'" in U(n.test) or "'pending'" in U(n.test)) for b in n.body for x in ast.walk(b) if isinstance(x, ast.Call) and call_name(x) == 'append']
        used = {x.id for n in own_nodes(cu.node) if isinstance(n, ast.Call) and call_name(n) == 'extend' for x in ast.walk(n) if isinstance(x, ast.Name)}
        evictable = [e for e in evictable if e in used]
    if evictable:
        c.fail('EventBus.process_event × EventBus.cleanup_event_history', 'ancestor lookup reads event_history; cleanup deletes started/pending entries',
               'an in-flight parent evicted from the history (its fire-and-forget children outnumber max_history_size) can never be found by the upward propagation: it never completes and awaiting it hangs',
               witness=[f'{where(pe, w)}: ancestor found via `{U(q.stmt_of(lookups[0]))[:90]}`', f'{where(cu)}: removal list extended from {sorted(set(evictable))}'])
    else:
        c.ok(where(cu), 'cleanup never evicts started/pending events, so the ancestor lookup cannot lose an in-flight parent')



@ob('C13.5', 'DOM', 'an event evicted from every history can still be awaited from inside a handler: the in-handler branch of `await event` does not depend on history membership '
    '(same obligation as C04.7: the blocking wait is never reached while holding the lock)')
def c13_5(c: Ctx) -> None:
    from .c04 import check_blocking_wait_unreachable_with_lock

    check_blocking_wait_unreachable_with_lock(c)


@ob('C13.6', 'SHAPE', 'the status that eviction classifies by is derived from the handler results alone: event_status is \'completed\' iff event_completed_at is set, \'started\' iff only '
    'event_started_at is — never from the completion signal, which stays set when a forwarded / re-dispatched event is in flight again on another bus')
def c13_6(c: Ctx) -> None:
    from sa.absint import AbsInt, Rec, UNKNOWN

    u = c.unit(MOD, 'BaseEvent.event_status')
    self_ = u.params()[0]
    sig_set = Rec()
    cases = [
        ('results terminal (event_completed_at set)', dict(event_completed_at='t2', event_started_at='t1'), 'completed'),
        ('a handler still running (event_completed_at None, event_started_at set), completion signal already set by an earlier bus', dict(event_completed_at=None, event_started_at='t1'), 'started'),
        ('no handler started yet, completion signal already set by an earlier bus', dict(event_completed_at=None, event_started_at=None), 'pending'),
    ]
    for desc, fields, want in cases:
        rec = Rec(_event_completed_signal=sig_set, event_completed_signal=sig_set, event_results={}, **fields)
        ai = AbsInt(calls={'.is_set': lambda *a: True})
        ai.run(u.node.body, {self_: rec})
        if ai.undecided or len(ai.returns) != 1 or ai.returns[0] is UNKNOWN:
            raise AnalysisError(f'{u}: status undecided when {desc}')
        got = ai.returns[0]
        if got == want:
            c.ok(where(u), f'{desc} -> {got!r}')
        else:
            c.fail(u, f'{desc} -> {got!r}', f'event_status is {got!r} when {desc} (must be {want!r}): history eviction treats an in-flight event as completed and evicts it first '
                   '(and the pending-events capacity check no longer counts it)')


@ob('C13.7', 'WMW', 'the bound is the one the bus was built with: max_history_size is assigned by the constructor only (a temporary override that is saved and restored around a block is not '
    'restored correctly when two such blocks overlap, and the bus keeps the wrong bound for good)')
def c13_7(c: Ctx) -> None:
    ws = [w for w in c.cg.all_writes('max_history_size') if w.unit.module in (SVC, MOD)]
    c.floor(len(ws), 1, 'assignments of max_history_size')
    for w in ws:
        if w.unit.name == '__init__':
            c.ok(where(w.unit, w.node), 'max_history_size set by the constructor')
        else:
            c.fail(w.unit, f'{w.unit.qualname} assigns max_history_size: {q.stmt_text(q.stmt_of(w.node), 60)}', 'the history bound of a live bus is changed after construction: history is no longer kept within the bound the '
                   'bus was configured with', node=w.node)


OBLIGATIONS = ob.obs
