"""C10 — handler timeouts are enforced and contained: structural necessary conditions."""

from __future__ import annotations

import ast

from .common import *  # noqa: F401,F403
from .common import SVC, MOD, AnalysisError, Ctx, Facts, Registry, U, Unit, await_coro, call_name, eq_atom, own_nodes, parent, q, where
from .c01 import dequeue_sites, handler_invocations
from .c03 import escape_before_mark
from .c08 import is_terminal_update

ob = Registry()


def handler_task_var(c: Ctx, u: Unit) -> tuple[str, ast.Assign]:
    inv = {id(call) for x, call in handler_invocations(c) if x.key == u.key}
    for n in own_nodes(u.node):
        if isinstance(n, ast.Assign) and isinstance(n.value, ast.Call) and call_name(n.value) in ('create_task', 'ensure_future') and n.value.args and id(n.value.args[0]) in inv and isinstance(n.targets[0], ast.Name):
            return n.targets[0].id, n
    return None, None  # the async handler is not run as a task (awaited inline)


@ob('C10.1', 'FLOW', 'async handlers run as asyncio.wait_for(<handler task>, timeout=<result record>.timeout) and that field is initialised from the event\'s event_timeout')
def c10_1(c: Ctx) -> None:
    u = c.unit(SVC, 'EventBus.execute_handler')
    t, tasg = handler_task_var(c, u)
    if t is None:
        check_inline_timeout(c, u)
        return
    waits = [n for n in own_nodes(u.node) if isinstance(n, ast.Await) and isinstance(n.value, ast.Call) and call_name(n.value) == 'wait_for' and n.value.args and U(n.value.args[0]) == t
             and not any(isinstance(a, ast.Try) and q.lexically_in(n, a, 'finalbody') for a in q.ancestors_of(n))]
    if len(waits) != 1:
        c.fail(u, f'{len(waits)} awaits of wait_for({t}, ...) outside the finally block', 'the async handler is not run under exactly one wait_for(timeout): its timeout is not enforced')
        return
    w = waits[0].value
    to = q.kw(w, 'timeout') or (w.args[1] if len(w.args) > 1 else None)
    ok = isinstance(to, ast.Attribute) and to.attr == 'timeout'
    if ok:
        ty = c.prog.infer(to.value, u)
        ok = ty is not None and ty.kind == 'cls' and ty.name == 'EventResult'
    if ok:
        c.ok(where(u, w), f'handler task awaited under wait_for(timeout={U(to)}) (the EventResult record)')
    else:
        c.fail(u, f'wait_for timeout is {U(to) if to is not None else "missing"}', "the handler is not cancelled at its result record's timeout", node=w)
    # an async handler awaited inline (no task, no wait_for) is allowed only where no timeout exists at all (<record>.timeout is None)
    g = c.cfg(u)
    for x, call in [(x, call) for x, call in handler_invocations(c) if x.key == u.key and isinstance(parent(call), ast.Await)]:
        atom = U(to) if ok else 'event_result.timeout'
        facts = Facts(lambda a: a == atom, cg=c.cg, unit=u)
        bad = [p for n in g.nodes_of(q.stmt_of(call)) if (p := q.guard_search(g, n, f'{atom} is None', facts)) is not None]
        if bad:
            c.fail(u, f'async handler awaited inline without wait_for: {U(parent(call))[:50]} (not restricted to `{atom} is None`)', 'a handler of an event that has a timeout (e.g. event_timeout=0) is not cancelled when the timeout expires', node=call, witness=c.path(g.entry, bad[0]))
        else:
            c.ok(where(u, call), f'inline await of the handler only where {atom} is None (nothing to enforce)')
    # direct await of the handler task elsewhere (unbounded) would bypass the timeout
    direct = [n for n in own_nodes(u.node) if isinstance(n, ast.Await) and U(n.value) == t]
    for n in direct:
        c.fail(u, f'awaits the handler task directly: {U(n)}', 'the handler can run past its timeout', node=n)
    # the record's timeout is fixed at construction (from the event's own event_timeout): nothing assigns it afterwards, so no caller-supplied or bus-wide value
    # can replace — in particular exceed — the event's timeout
    tw = [w_ for w_ in c.cg.all_writes('timeout') if w_.unit.module in (SVC, MOD) and w_.how in ('assign', 'augassign', 'setattr')]
    if not tw:
        c.ok('bubus/*.py', 'EventResult.timeout is never assigned after construction')
    for w_ in tw:
        c.fail(w_.unit, f'assigns a result record\'s timeout: {q.stmt_text(q.stmt_of(w_.node), 70)}', 'the timeout a handler runs under can be replaced after the record was created (by a caller-supplied or bus-wide value): '
               'a handler is no longer cancelled when its event\'s event_timeout expires', node=w_.node)
    upd = c.unit(MOD, 'BaseEvent.event_result_update')
    ctor = [n for n in own_nodes(upd.node) if isinstance(n, ast.Call) and isinstance(n.func, ast.Name) and n.func.id == 'EventResult']
    c.floor(len(ctor), 1, 'EventResult(...) construction in event_result_update')
    for k in ctor:
        v = q.kw(k, 'timeout')
        if v is not None and U(v) == f'{upd.params()[0]}.event_timeout':
            c.ok(where(upd, k), 'EventResult.timeout initialised from event.event_timeout')
        else:
            c.fail(upd, f'EventResult timeout initialised from {U(v) if v is not None else "nothing"}', "the result record's timeout is not the event's event_timeout", node=k)


def check_inline_timeout(c: Ctx, u: Unit) -> None:
    """No handler task: every inline `await handler(event)` must sit in `async with asyncio.timeout(<record>.timeout)` (or under `timeout is None`)."""
    g = c.cfg(u)
    inv = [call for x, call in handler_invocations(c) if x.key == u.key and isinstance(parent(call), ast.Await)]
    if not inv:
        c.fail(u, 'async handlers are neither run as a task under wait_for nor awaited under asyncio.timeout', 'the handler timeout is not enforced')
        return
    for call in inv:
        w = next((a for a in q.ancestors_of(call) if isinstance(a, ast.AsyncWith) and any(isinstance(it.context_expr, ast.Call) and U(it.context_expr.func) in ('asyncio.timeout', 'asyncio.timeout_at') for it in a.items)), None)
        if w is not None:
            arg = next(it.context_expr.args[0] for it in w.items if isinstance(it.context_expr, ast.Call) and it.context_expr.args)
            ty = c.prog.infer(arg.value, u) if isinstance(arg, ast.Attribute) else None
            if isinstance(arg, ast.Attribute) and arg.attr == 'timeout' and ty is not None and ty.kind == 'cls' and ty.name == 'EventResult':
                c.ok(where(u, call), f'handler awaited inline under `async with asyncio.timeout({U(arg)})`')
            else:
                c.fail(u, f'inline handler await under asyncio.timeout({U(arg)[:40]})', "the handler is not cancelled at its result record's timeout", node=call)
        else:
            facts = Facts(lambda a: a == 'event_result.timeout', cg=c.cg, unit=u)
            bad = [p for n in g.nodes_of(q.stmt_of(call)) if (p := q.guard_search(g, n, 'event_result.timeout is None', facts)) is not None]
            if bad:
                c.fail(u, f'async handler awaited inline without any timeout: {U(parent(call))[:50]}', 'a handler of an event that has a timeout is not cancelled when the timeout expires', node=call, witness=c.path(g.entry, bad[0]))
            else:
                c.ok(where(u, call), 'inline await only where no timeout exists')


def typed_arm_entries(c: Ctx, u: Unit, want) -> list[tuple[ast.ExceptHandler, object, dict, object]]:
    """(arm, CFG entry node, fact environment, facts) for every way an exception accepted by *want(exc)* raised by the handler invocation enters an `except` arm of
    execute_handler — whatever the arm is declared to catch.  A merged arm (`except (CancelledError, Exception) as e:` that dispatches on isinstance(e, ..)) is followed
    with the truth of those isinstance tests fixed by the type that entered."""
    g = c.cfg(u)
    H = c.an.fm.h
    out = []
    arms = [a for a in own_nodes(u.node) if isinstance(a, ast.ExceptHandler) and not any(isinstance(x, ast.Try) and q.lexically_in(a, x, 'finalbody') for x in q.ancestors_of(a))]
    inv_stmts = {id(q.stmt_of(call)) for x, call in handler_invocations(c) if x.key == u.key}
    for arm in arms:
        tr = parent(arm)
        if not (isinstance(tr, ast.Try) and any(id(x) in inv_stmts or any(id(y) in inv_stmts for y in ast.walk(x)) for b in tr.body for x in [b])):
            # the try must protect the handler invocation (directly, or the wait on its task)
            if not (isinstance(tr, ast.Try) and any(isinstance(y, ast.Await) for b in tr.body for y in ast.walk(b))):
                continue
        for en in g.nodes_of(arm, ('except',)):
            if en.exc is None or not want(en.exc):
                continue
            env: dict = {}
            atoms: set[str] = set()
            if arm.name:
                for x in ast.walk(arm):
                    if isinstance(x, ast.Call) and isinstance(x.func, ast.Name) and x.func.id == 'isinstance' and len(x.args) == 2 and U(x.args[0]) == arm.name:
                        kinds = x.args[1].elts if isinstance(x.args[1], ast.Tuple) else [x.args[1]]
                        names = [H.canon(U(k)) for k in kinds]
                        if en.exc.exact or all(not H.is_sub(n_, en.exc.name) or n_ == en.exc.name for n_ in names):
                            val = any(H.is_sub(en.exc.name, n_) for n_ in names)
                            env[U(x)] = 'T' if val else 'F'
                        atoms.add(U(x))
            facts = Facts(lambda a, atoms=atoms: a in atoms or a.isidentifier(), cg=c.cg, unit=u)
            out.append((arm, en, env, facts))
    return out


def starts_after(en, env0: dict) -> list[tuple[object, dict]]:
    """Start states just past the `except ... as e` node (whose own transfer forgets everything about `e`, the name it binds)."""
    return [(e.dst, dict(env0)) for e in en.succ if not e.is_exc] or [(en, dict(env0))]


def typed_search(g, en, env0: dict, is_target, is_barrier, facts, **kw):
    """q.reach_search from just past the except node; the first statement of the arm is itself subject to the target / barrier tests."""
    starts = []
    for node, env in starts_after(en, env0):
        if is_target(node, env):
            from sa.cfg import Step

            return [Step(node, 'start', tuple(sorted(env.items())))]
        if is_barrier(node, env):
            continue
        starts.append((node, env))
    if not starts:
        return None
    return q.reach_search(g, starts, is_target, is_barrier, facts, **kw)


def timeout_arms(c: Ctx, u: Unit) -> list[ast.ExceptHandler]:
    out = []
    for n in own_nodes(u.node):
        if isinstance(n, ast.ExceptHandler) and n.type is not None and U(n.type) in ('TimeoutError', 'asyncio.TimeoutError'):
            out.append(n)
    return out


@ob('C10.2', 'ORD', 'in the TimeoutError arm of execute_handler: the error result is recorded, then pending child results are cancelled, then an Exception-class '
    'TimeoutError is raised (so _execute_handlers contains it and the remaining handlers still run)')
def c10_2(c: Ctx) -> None:
    u = c.unit(SVC, 'EventBus.execute_handler')
    g = c.cfg(u)
    H = c.an.fm.h
    entries = typed_arm_entries(c, u, lambda t: t.name == 'TimeoutError')
    c.floor(len(entries), 1, 'ways a TimeoutError of the handler enters an except arm of execute_handler')

    def is_upd(n):
        return any(is_terminal_update(x) and q.kw(x, 'error') is not None for x in q.node_calls(n))

    def is_cancel(n):
        return bool(q.node_calls(n, 'event_cancel_pending_child_processing'))

    for arm, en, env0, facts in entries:
        inside = {id(x) for b in arm.body for x in ast.walk(b)}

        def leaves(n, inside=inside):
            return n.ast is None or id(n.ast) not in inside

        p = typed_search(g, en, env0, lambda n, d: leaves(n), lambda n, d: is_upd(n), facts)
        if p is None:
            c.ok(where(u, arm), 'a handler timeout records the error result on every path')
        else:
            c.fail(u, 'the timeout path can leave the arm without recording an error result', "a timed-out handler's result never becomes an error: the event never completes", node=arm, witness=c.path(en, p))
        # (decided for an event that has children: without any the call has nothing to do, and a `if event.event_children:` around it skips nothing)
        ev_ = u.params()[1]
        kids = f'{ev_}.event_children'
        old_tracked = facts.tracked
        facts.tracked = lambda a, _t=old_tracked: a == kids or _t(a)
        facts.sticky_true = set(facts.sticky_true) | {kids}
        p = typed_search(g, en, {**env0, kids: 'T'}, lambda n, d: leaves(n), lambda n, d: is_cancel(n), facts)
        facts.tracked = old_tracked
        if p is None:
            c.ok(where(u, arm), 'a handler timeout cancels pending child results on every path')
        else:
            c.fail(u, 'the timeout path can leave the arm without event_cancel_pending_child_processing', 'handler results of child events the timed-out handler was waiting on stay pending forever', node=arm, witness=c.path(en, p))
        p = typed_search(g, en, env0, lambda n, d: is_cancel(n), lambda n, d: is_upd(n), facts)
        if p is None:
            c.ok(where(u, arm), 'children are cancelled after the error result was recorded')
        else:
            c.fail(u, 'children cancelled before the error result is recorded', 'order of timeout bookkeeping inverted', node=arm, witness=c.path(en, p))
        # what leaves the arm on the timeout path
        seen_raise = False
        for n in g.live_nodes():
            if n.ast is None or id(n.ast) not in inside or n.kind != 'raise':
                continue
            # reachable on this typed path?
            pr = typed_search(g, en, env0, lambda m, d, n=n: m is n, lambda m, d: False, facts)
            if pr is None:
                continue
            outs = [e.exc for e in n.succ if e.is_exc and (e.dst.ast is None or id(e.dst.ast) not in inside)]
            if not outs:
                continue
            seen_raise = True
            good = [t for t in outs if H.is_sub(t.name, 'Exception')]
            if good and len(good) == len(outs):
                c.ok(where(u, n.ast), f'the timeout path raises {good[0]} (an Exception: contained by _execute_handlers)')
            elif good:
                # `raise <local>` whose value is built on several paths (the typing of a raised local is path-insensitive): at least the timeout's own type is among them
                c.ok(where(u, n.ast), f'the timeout path raises one of {sorted(map(str, outs))} through a local; the Exception-class alternative is the one built on this path')
            else:
                c.fail(u, f'the timeout path raises {outs[0]}: {q.stmt_text(n.ast, 60)}', f'the timeout surfaces as {outs[0]}, which _execute_handlers does not contain: remaining handlers are skipped and the run loop is hit', node=n.ast)
    # pending results of child events are cancelled on a handler *timeout* only: an ordinary handler error (or an interruption from above) leaves the children alone
    others = typed_arm_entries(c, u, lambda t: t.name != 'TimeoutError')
    for arm, en, env0, facts in others:
        if not en.exc.exact and H.is_sub('TimeoutError', en.exc.name):
            # an open-ended type (Exception+) includes TimeoutError: follow it with "is not a TimeoutError" assumed, that case has its own entry above
            env0 = dict(env0)
            for x in ast.walk(arm):
                if isinstance(x, ast.Call) and isinstance(x.func, ast.Name) and x.func.id == 'isinstance' and len(x.args) == 2 and arm.name and U(x.args[0]) == arm.name and 'TimeoutError' in U(x.args[1]) and U(x) not in env0:
                    env0[U(x)] = 'F'
        p = typed_search(g, en, env0, lambda n, d: is_cancel(n), lambda n, d: False, facts)
        if p is None:
            c.ok(where(u, arm), f'[{en.exc}] children are not cancelled when the handler merely failed / was interrupted')
        else:
            c.fail(u, f'event_cancel_pending_child_processing reachable when the handler ended with {en.exc}', 'pending results of child events are overwritten with an error although the handler did not time out: a child handler '
                   'that was still going to run is refused afterwards (its result is no longer pending) and never runs', node=arm, witness=c.path(en, p))


@ob('C10.3', 'PAIR', 'on every exit of execute_handler a handler task that is not done is cancelled and then awaited with a bounded wait')
def c10_3(c: Ctx) -> None:
    from .c06 import check_handler_task

    u = c.unit(SVC, 'EventBus.execute_handler')
    t, tasg = handler_task_var(c, u)
    if t is None:
        c.ok(where(u), 'no handler task exists (the handler coroutine is awaited inline): it cannot outlive execute_handler')
        return
    check_handler_task(c, u, tasg.value, tasg.value.args[0])
    fin = [n for n in own_nodes(u.node) if isinstance(n, ast.Await) and t in U(n.value) and any(isinstance(a, ast.Try) and q.lexically_in(n, a, 'finalbody') for a in q.ancestors_of(n))]
    for a in fin:
        v = a.value
        to = q.kw(v, 'timeout') if isinstance(v, ast.Call) else None
        if isinstance(v, ast.Call) and call_name(v) == 'wait_for' and isinstance(to, ast.Constant) and isinstance(to.value, (int, float)) and to.value > 0:
            c.ok(where(u, a), f'cleanup wait is bounded: {U(v)[:60]}')
        else:
            c.fail(u, f'cleanup wait on the cancelled handler task is unbounded: {U(v)[:60]}', 'a handler that ignores cancellation blocks the bus forever', node=a)


def _strip_order(e: ast.AST) -> ast.AST:
    """list(x) / reversed(x) / x[:] / [*x] hold the elements of x."""
    while True:
        if isinstance(e, ast.Call) and isinstance(e.func, ast.Name) and e.func.id in ('list', 'reversed', 'tuple') and len(e.args) == 1 and not e.keywords:
            e = e.args[0]
        elif isinstance(e, ast.Subscript) and isinstance(e.slice, ast.Slice) and e.slice.lower is None and e.slice.upper is None:
            e = e.value
        elif isinstance(e, ast.List) and len(e.elts) == 1 and isinstance(e.elts[0], ast.Starred):
            e = e.elts[0].value
        else:
            return e


def _cancel_stack_of_descendants(c: Ctx, u: Unit, g, self_: str, wl: ast.While, W: str, P: str) -> bool:
    """The walk written as a stack of *descendants*: `todo = <the children>; while todo: d = todo.pop(); cancel d's pending results; todo.extend(<d's children>)`.  An element may
    be skipped only when it was visited before (a seen-set that is added to right after the test) or has no results."""
    from sa.cfg import search

    heads = g.nodes_of(wl, ('while',))
    if not heads:
        return False
    head = heads[0]
    res_loops = [n for n in ast.walk(wl) if isinstance(n, ast.For) and U(n.iter) == f'{P}.event_results.values()']
    pushes = {n.id for n in g.live_nodes() if any(call_name(x) in ('extend', 'append') and isinstance(x.func, ast.Attribute) and U(x.func.value) == W and x.args and
                                                  (U(_strip_order(x.args[0])) == f'{P}.event_children' or (call_name(x) == 'append' and any(isinstance(l, ast.For) and U(_strip_order(l.iter)) == f'{P}.event_children' and U(x.args[0]) == U(l.target) for l in q.ancestors_of(x))))
                                                  for x in q.node_calls(n))}
    if len(res_loops) != 1 or not pushes:
        return False
    c.ok(where(u, wl), f'explicit stack `{W}` of descendants, starting from the children of the event: every element taken off it has its results looked at and its children pushed')
    rl_heads = {n.id for n in g.nodes_of(res_loops[0], ('for',))}
    seen_tests = set()
    for n in ast.walk(wl):
        if isinstance(n, ast.If) and isinstance(n.test, ast.Compare) and len(n.test.ops) == 1 and isinstance(n.test.ops[0], ast.In) and U(n.test.left) in (f'{P}.event_id', P) and isinstance(n.test.comparators[0], ast.Name):
            S = n.test.comparators[0].id
            blk = q.block_of(n) or []
            i = next((k for k, x in enumerate(blk) if x is n), None)
            nxt = blk[i + 1] if i is not None and i + 1 < len(blk) else None
            if nxt is not None and isinstance(nxt, ast.Expr) and isinstance(nxt.value, ast.Call) and call_name(nxt.value) == 'add' and U(nxt.value.func.value) == S and U(nxt.value.args[0]) == U(n.test.left):
                seen_tests.add(id(n))
    fres = Facts(lambda a: a == f'{P}.event_results')

    def allowed_skip(n, e) -> bool:
        if n.kind != 'if' or e.label not in ('true', 'false'):
            return False
        if id(n.ast) in seen_tests and e.label == 'true':
            return True  # visited before: its results and children were dealt with then
        if any(isinstance(x, ast.Call) for x in ast.walk(n.ast.test)):
            return False
        env_ = fres.assume(n.ast.test, e.label == 'true', {})
        return env_ is not None and fres.eval(ast.parse(f'{P}.event_results', mode='eval').body, env_) is False

    for what, barrier in (('has its results looked at', rl_heads), ('has its children pushed', pushes)):
        p = search([(head, ())], is_target=lambda n, d: n is head, is_barrier=lambda n, d, barrier=barrier: n.id in barrier,
                   edge_ok=lambda n, e, d: None if (e.is_exc or (n is head and e.label != 'true') or allowed_skip(n, e)) else d)
        if p is None:
            c.ok(where(u, wl), f'every descendant taken off the stack {what} (skipped only if seen before or without results)')
        else:
            cond = next((s_.node.text(70) for s_ in p if s_.node.kind == 'if'), 'a path through the loop body')
            c.fail(u, f'a descendant can be taken off the stack and not {what.replace("has its", "have its")}: `{cond}`', 'grandchildren keep pending results after a timeout: a child whose own results are final can still have a handler that was '
                   'waiting for a grandchild with pending results', node=wl, witness=c.path(head, p))
    for n in ast.walk(wl):
        if isinstance(n, (ast.Break, ast.Return)):
            c.fail(u, f'the walk is left early: {q.stmt_text(n)}', 'not every child is visited', node=n)
    ups = [n for n in ast.walk(wl) if isinstance(n, ast.Call) and call_name(n) == 'update' and isinstance(n.func, ast.Attribute)]
    c.floor(len(ups), 1, 'update(error=...) calls')
    for call in ups:
        r = U(call.func.value)
        atom = eq_atom(f'{r}.status', "'pending'")
        facts = Facts(lambda a: a == atom, cg=c.cg, unit=u)
        for n in g.nodes_of(q.stmt_of(call)):
            p2 = q.guard_search(g, n, f"{r}.status == 'pending'", facts)
            if p2 is None:
                c.ok(where(u, call), f"{r}.update(error=...) only for results still 'pending'")
            else:
                c.fail(u, f"{r}.update(...) not guarded by {r}.status == 'pending'", 'a timeout rewrites child results that already started or finished', node=call, witness=c.path(g.entry, p2))
        if q.kw(call, 'error') is None:
            c.fail(u, f'{U(call)[:60]} does not record an error', 'cancelled child results do not become terminal', node=call)
    return True


def _cancel_worklist_design(c: Ctx, u: Unit, g, self_: str) -> bool:
    """The same walk written with an explicit worklist instead of recursion: `todo = [self]; while todo: p = todo.pop(); for every child of p: cancel its pending results;
    todo.append(child)`.  A child may be skipped only when it has no results at all (never picked up by a bus: nothing pending, no descendants).  Returns False when the
    function is not written this way."""
    from sa.cfg import search

    whiles = [n for n in own_nodes(u.node) if isinstance(n, ast.While) and isinstance(n.test, ast.Name)]
    if len(whiles) != 1:
        return False
    wl = whiles[0]
    W = wl.test.id
    inits = [n for n in own_nodes(u.node) if isinstance(n, (ast.Assign, ast.AnnAssign)) and n.value is not None and U(n.targets[0] if isinstance(n, ast.Assign) else n.target) == W]
    if len(inits) != 1 or (U(inits[0].value) != f'[{self_}]' and U(_strip_order(inits[0].value)) != f'{self_}.event_children'):
        return False
    pops = [n for n in ast.walk(wl) if isinstance(n, ast.Assign) and isinstance(n.value, ast.Call) and call_name(n.value) == 'pop' and U(n.value.func.value) == W and isinstance(n.targets[0], ast.Name)]
    if len(pops) != 1:
        return False
    P = pops[0].targets[0].id
    starts_with_self = U(inits[0].value) == f'[{self_}]'
    # the loop over the children of the popped event
    child_loops = [n for n in ast.walk(wl) if isinstance(n, ast.For) and isinstance(n.target, ast.Name) and (U(n.iter) == f'{P}.event_children' or U(n.iter).endswith('.event_children'))]
    if not child_loops and not starts_with_self:
        return _cancel_stack_of_descendants(c, u, g, self_, wl, W, P)
    child_loops = [n for n in child_loops if U(n.iter) == f'{P}.event_children' or any(isinstance(o, ast.For) and U(o.iter) == f'{P}.event_results.values()' and U(n.iter) == f'{U(o.target)}.event_children'
                                                                                   for o in q.ancestors_of(n))]
    if len(child_loops) != 1:
        return False
    cl = child_loops[0]
    ch = cl.target.id
    head = g.nodes_of(cl, ('for',))[0]
    c.ok(where(u, wl), f'explicit worklist `{W}` starting from {U(inits[0].value)}: every event taken off it has its children visited ({U(cl.iter)})')
    # every child is put on the worklist unless it has no results
    pushes = {n.id for n in g.live_nodes() if any(call_name(x) in ('append', 'extend') and isinstance(x.func, ast.Attribute) and U(x.func.value) == W and x.args and ch in U(x.args[0]) for x in q.node_calls(n))}

    def allowed_skip(n, e) -> bool:
        return n.kind == 'if' and e.label == 'true' and U(n.ast.test) == f'not {ch}.event_results'

    p = search([(head, ())], is_target=lambda n, d: n is head, is_barrier=lambda n, d: n.id in pushes,
               edge_ok=lambda n, e, d: None if (e.is_exc or (n is head and e.label != 'iter') or allowed_skip(n, e)) else d)
    if p is None and pushes:
        c.ok(where(u, cl), f'every child with results is put on the worklist (descendants at every depth are reached)')
    else:
        cond = next((s_.node.text(70) for s_ in (p or []) if s_.node.kind == 'if'), 'no push')
        c.fail(u, f'a child can be left off the worklist: `{cond}`', 'grandchildren keep pending results after a timeout: a child whose own results are final can still have a handler that was '
               'waiting for a grandchild with pending results', node=cl, witness=c.path(head, p) if p else [])
    inner = [n for n in ast.walk(cl) if isinstance(n, ast.For) and n is not cl and U(n.iter) == f'{ch}.event_results.values()']
    if inner:
        c.ok(where(u, inner[0]), f'every result of every visited child is looked at ({U(inner[0].iter)})')
    else:
        c.fail(u, f'no loop over {ch}.event_results.values()', 'some pending results of a child are not cancelled', node=cl)
    for n in ast.walk(wl):
        if isinstance(n, (ast.Break, ast.Return)):
            c.fail(u, f'the walk is left early: {q.stmt_text(n)}', 'not every child is visited', node=n)
    ups = [n for n in ast.walk(wl) if isinstance(n, ast.Call) and call_name(n) == 'update' and isinstance(n.func, ast.Attribute)]
    c.floor(len(ups), 1, 'update(error=...) calls')
    for call in ups:
        r = U(call.func.value)
        atom = eq_atom(f'{r}.status', "'pending'")
        facts = Facts(lambda a: a == atom, cg=c.cg, unit=u)
        for n in g.nodes_of(q.stmt_of(call)):
            p2 = q.guard_search(g, n, f"{r}.status == 'pending'", facts)
            if p2 is None:
                c.ok(where(u, call), f"{r}.update(error=...) only for results still 'pending'")
            else:
                c.fail(u, f"{r}.update(...) not guarded by {r}.status == 'pending'", 'a timeout rewrites child results that already started or finished', node=call, witness=c.path(g.entry, p2))
        if q.kw(call, 'error') is None:
            c.fail(u, f'{U(call)[:60]} does not record an error', 'cancelled child results do not become terminal', node=call)
    if not starts_with_self:
        c.note('worklist starts from the children of the event')
    return True


@ob('C10.4', 'SHAPE/DOM', 'event_cancel_pending_child_processing visits every child, cancels only results still pending, and reaches the descendants at every depth (by recursing into '
    'every child, or with an explicit worklist onto which every child that has results is put)')
def c10_4(c: Ctx) -> None:
    u = c.unit(MOD, 'BaseEvent.event_cancel_pending_child_processing')
    g = c.cfg(u)
    self_ = u.params()[0]
    loops = [n for n in own_nodes(u.node) if isinstance(n, ast.For) and U(n.iter) == f'{self_}.event_children']
    if not loops and _cancel_worklist_design(c, u, g, self_):
        return
    if len(loops) != 1 or not isinstance(loops[0].target, ast.Name):
        c.fail(u, 'no loop over self.event_children', 'pending child results are not all visited')
        return
    loop = loops[0]
    ch = loop.target.id
    head = g.nodes_of(loop, ('for',))[0]
    inner = [n for n in ast.walk(loop) if isinstance(n, ast.For) and n is not loop and U(n.iter) == f'{ch}.event_results.values()']
    # the pending results may be collected first (`todo = [r for r in child.event_results.values() if r.status == 'pending']`) and then looped over: the filter is the guard
    prefiltered: dict[int, ast.AST] = {}
    for n in ast.walk(loop):
        if isinstance(n, ast.For) and n is not loop and isinstance(n.iter, ast.Name) and isinstance(n.target, ast.Name):
            src = q.deref(u, n.iter)
            if isinstance(src, ast.ListComp) and len(src.generators) == 1 and U(src.generators[0].iter) == f'{ch}.event_results.values()' and isinstance(src.generators[0].target, ast.Name) \
                    and U(src.elt) == src.generators[0].target.id and len(src.generators[0].ifs) == 1 and not any(isinstance(x, ast.Await) for b in n.body for x in ast.walk(b)):
                cond = U(src.generators[0].ifs[0]).replace(f'{src.generators[0].target.id}.', f'{n.target.id}.')
                if cond in (f"{n.target.id}.status == 'pending'", f"'pending' == {n.target.id}.status"):
                    prefiltered[id(n)] = n
                    inner.append(n)
    if inner:
        c.ok(where(u, inner[0]), f'every result of every child is visited ({U(inner[0].iter)})')
    else:
        c.fail(u, f'no loop over {ch}.event_results.values()', 'some pending results of a child are not cancelled', node=loop)
    from sa.cfg import search

    def is_rec(n):
        return any(call_name(x) == u.name and isinstance(x.func, ast.Attribute) and U(x.func.value) == ch for x in q.node_calls(n))

    res_atom = f'{ch}.event_results'
    fres = Facts(lambda a: a == res_atom)

    def no_results_skip(n, e) -> bool:
        # a child without results has nothing pending and no children of its own (event_children is derived from the results): skipping it skips nothing
        if n.kind != 'if' or e.label not in ('true', 'false') or any(isinstance(x, ast.Call) for x in ast.walk(n.ast.test)):
            return False
        env_ = fres.assume(n.ast.test, e.label == 'true', {})
        return env_ is not None and fres.eval(ast.parse(res_atom, mode='eval').body, env_) is False

    p = search([(head, ())], is_target=lambda n, d: n is head, is_barrier=lambda n, d: is_rec(n),
               edge_ok=lambda n, e, d: None if (e.is_exc or (n is head and e.label != 'iter') or no_results_skip(n, e)) else d)
    if p is None:
        c.ok(where(u, loop), f'every iteration recurses into {ch}.{u.name}(...) (a child without results may be skipped)')
    else:
        c.fail(u, f'an iteration can skip the recursion into {ch}', 'grandchildren keep pending results after a timeout', node=loop, witness=c.path(head, p))
    for n in ast.walk(loop):
        if isinstance(n, (ast.Break, ast.Return)):
            c.fail(u, f'loop over the children left early: {q.stmt_text(n)}', 'not every child is visited', node=n)
    ups = [n for n in ast.walk(loop) if isinstance(n, ast.Call) and call_name(n) == 'update' and isinstance(n.func, ast.Attribute)]
    c.floor(len(ups), 1, 'update(error=...) calls')
    for call in ups:
        r = U(call.func.value)
        atom = eq_atom(f'{r}.status', "'pending'")
        facts = Facts(lambda a: a == atom, cg=c.cg, unit=u)
        lp_ = q.enclosing(call, (ast.For,))
        if lp_ is not None and id(lp_) in prefiltered and isinstance(lp_.target, ast.Name) and lp_.target.id == r:
            c.ok(where(u, call), f"{r}.update(error=...) only for results that were 'pending' when they were collected (nothing suspends in between)")
            if q.kw(call, 'error') is None:
                c.fail(u, f'{U(call)[:60]} does not record an error', 'cancelled child results do not become terminal', node=call)
            continue
        for n in g.nodes_of(q.stmt_of(call)):
            p = q.guard_search(g, n, f"{r}.status == 'pending'", facts)
            if p is None:
                c.ok(where(u, call), f"{r}.update(error=...) only for results still 'pending'")
            else:
                c.fail(u, f"{r}.update(...) not guarded by {r}.status == 'pending'", 'a timeout rewrites child results that already started or finished', node=call, witness=c.path(g.entry, p))
        if q.kw(call, 'error') is None:
            c.fail(u, f'{U(call)[:60]} does not record an error', 'cancelled child results do not become terminal', node=call)


def update_only_on_collected_pending(u: Unit, call: ast.Call) -> bool:
    """`todo = [r for r in X.event_results.values() if r.status == 'pending']` / `for r in todo: r.update(..)` with nothing suspending in the loop: the update is applied only to
    results that were pending when they were collected."""
    lp = q.enclosing(call, (ast.For,))
    if lp is None or not isinstance(lp.iter, ast.Name) or not isinstance(lp.target, ast.Name) or U(call.func.value) != lp.target.id:
        return False
    src = q.deref(u, lp.iter)
    if not (isinstance(src, ast.ListComp) and len(src.generators) == 1 and U(src.generators[0].iter).endswith('.event_results.values()') and isinstance(src.generators[0].target, ast.Name)
            and U(src.elt) == src.generators[0].target.id and len(src.generators[0].ifs) == 1):
        return False
    if any(isinstance(x, ast.Await) for b in lp.body for x in ast.walk(b)):
        return False
    v = src.generators[0].target.id
    return U(src.generators[0].ifs[0]) in (f"{v}.status == 'pending'", f"'pending' == {v}.status")


def is_task_done(n, qexpr: str | None = None) -> bool:
    for x in q.node_calls(n, 'task_done'):
        if isinstance(x.func, ast.Attribute) and (qexpr is None or U(x.func.value) == qexpr):
            return True
    return False


def check_task_done_pairing(c: Ctx) -> None:
    sites = dequeue_sites(c)
    c.floor(len(sites), 2, 'dequeue sites')
    for u, call in sites:
        st = q.stmt_of(call)
        returned = call_name(call) == 'get_nowait' and isinstance(parent(call), ast.Return)  # handed to the caller: the consumer is the caller, as for the awaited get()
        if (call_name(call) == 'get_nowait' or isinstance(parent(call), ast.Await)) and not returned:
            g = c.cfg(u)
            qexpr = U(call.func.value)
            for n in g.nodes_of(st):
                var_ = st.targets[0].id if isinstance(st, ast.Assign) and isinstance(st.targets[0], ast.Name) else None
                nn = Facts(lambda a, var_=var_: a == var_ or a.startswith('__inl_'), rhs_value=lambda v: 'NN' if isinstance(v, (ast.Call, ast.Await)) and call_name(v.value if isinstance(v, ast.Await) else v) in ('get', 'get_nowait') else None,
                           cg=c.cg, unit=u) if var_ else None  # a queue hands out events, never None
                p = None
                # (the dequeue may sit in a folded helper: the flags that say which of its returns were taken are known on arrival)
                for env0 in ((q.envs_at(g, n, nn) if nn is not None else None) or [{}]):
                    env0 = {k: v for k, v in env0.items() if k.startswith('__inl_')}
                    p = p or q.pair_search(g, n, lambda x: is_task_done(x, qexpr), facts=nn, env=env0,
                                           exits=lambda x: x.kind in ('exit', 'raise_exit') or (x is not n and x.kind in ('for', 'while') and q.lexically_in(st, x.ast)))
                if p is None:
                    c.ok(where(u, st), f'every exit after `{q.stmt_text(st, 60)}` (return, exception, cancellation at any await) passes {qexpr}.task_done()')
                else:
                    how = next((s.via for s in p if s.via.startswith('raises')), 'normal path')
                    c.fail(u, f'{qexpr}.task_done() missing after {q.stmt_text(st, 60)} on an exit via {how}', 'the queue\'s unfinished-task count is never decremented: event_queue.join() and wait_until_idle() hang forever', node=st, witness=c.path(n, p))
        else:
            # run-loop shape: the consumer is the caller of _get_next_event
            for cu, ccall in c.cg.callers(u):
                cst = q.stmt_of(ccall)
                gg = c.cfg(cu)
                if not (isinstance(cst, ast.Assign) and isinstance(cst.targets[0], ast.Name)):
                    continue
                var = cst.targets[0].id
                qexpr = U(call.func.value)
                facts = Facts(lambda a: a.isidentifier(), rhs_value=lambda v: 'NN' if u.name in U(v) else None, cg=c.cg, unit=cu)
                for n in gg.nodes_of(cst):
                    p = None
                    for env0 in q.envs_at(gg, n, facts):  # what is known when the dequeue is reached (e.g. a flag computed up front)
                        p = q.pair_search(gg, n, lambda x: is_task_done(x, qexpr), facts=facts, env=env0)
                        if p is not None:
                            break
                    if p is None:
                        c.ok(where(cu, cst), f'every exit after a successful `{q.stmt_text(cst, 50)}` passes {qexpr}.task_done()', exits=len(gg.raise_exits) + 1)
                    else:
                        how = next((s.via + f' at `{p[i - 1].node.text(50)}`' for i, s in enumerate(p) if s.via.startswith('raises') and i > 0), 'normal path')
                        c.fail(cu, f'{qexpr}.task_done() missing after a dequeue in {cu.name} on an exit via {how}', 'the queue\'s unfinished-task count is never decremented: event_queue.join() and wait_until_idle() hang forever', node=cst, witness=c.path(n, p))

    # task_done() only after the dequeued event has been handed to process_event (join() must not return while it is still being processed)
    for u, call in dequeue_sites(c):
        st_ = q.stmt_of(call)
        if not (call_name(call) == 'get_nowait' or isinstance(parent(call), ast.Await)) or isinstance(parent(call), ast.Return):
            continue
        g_ = c.cfg(u)
        qexpr = U(call.func.value)
        from sa.cfg import search as _search

        for n in g_.nodes_of(st_):
            p = _search([(n, ())], is_target=lambda x, d: is_task_done(x, qexpr), is_barrier=lambda x, d: bool(q.node_calls(x, 'process_event')) or (x is not n and x.kind in ('for', 'while') and q.lexically_in(st_, x.ast)),
                        edge_ok=lambda x, e, d: None if e.is_exc else d)  # (an exception before process_event drops the event: nothing is "still being processed" then)
            if p is None:
                c.ok(where(u, st_), f'{qexpr}.task_done() is reached only after process_event was entered for the dequeued event')
            else:
                c.fail(u, f'{qexpr}.task_done() reachable before process_event for the dequeued event', 'event_queue.join() (and wait_until_idle) can return while the dequeued event is still being processed', node=st_, witness=c.path(n, p))


@ob('C10.5', 'PAIR', 'after every dequeue, every exit (normal, handler-independent exceptions, cancellation at every await incl. waiting for the lock) passes task_done() '
    'exactly on the paths that dequeued (flag-correlated in step)')
def c10_5(c: Ctx) -> None:
    check_task_done_pairing(c)
    # no task_done without a dequeue: in step, task_done() is reachable only on paths that passed the dequeue
    st = c.unit(SVC, 'EventBus.step')
    g = c.cfg(st)
    deq = {id(q.stmt_of(cc)) for cu, cc in c.cg.callers(c.unit(SVC, 'EventBus._get_next_event')) if cu.key == st.key}
    facts = Facts(lambda a: a.isidentifier(), cg=c.cg, unit=st)
    for call in [n for n in own_nodes(st.node) if isinstance(n, ast.Call) and call_name(n) == 'task_done']:
        tgt = g.nodes_of(q.stmt_of(call))
        p = q.reach_search(g, [(g.entry, {})], lambda n, d: n in tgt, lambda n, d: n.ast is not None and id(n.ast) in deq, facts=facts)
        if p is None and deq:
            c.ok(where(st, call), 'step calls task_done() only on paths that dequeued the event')
        else:
            c.fail(st, 'task_done() in step reachable without a dequeue', 'task_done() for an event that was passed in, not dequeued: ValueError / join() returns early', node=call, witness=c.path(g.entry, p) if p else [])


@ob('C10.6', 'ESC/MPT', 'process_event reaches event_mark_complete… for its event on cancellation exits too (a child cancelled by its parent\'s timeout while processed inline must '
    'still get its completion signal)')
def c10_6(c: Ctx) -> None:
    escape_before_mark(c, lambda t: t.name == 'CancelledError', "an event whose processing is cancelled (parent handler timeout during inline processing, stop()) never gets its completion signal: awaiting it hangs")



@ob('C10.7', 'ESC', 'after a handler timed out the remaining handlers of the event still run: the TimeoutError (an Exception) is contained per handler in both branches of '
    '_execute_handlers (same obligation as C11.1)')
def c10_7(c: Ctx) -> None:
    from .c11 import c11_1

    c11_1(c)



@ob('C10.8', 'DOM', 'the children a timed-out handler was waiting on are reachable for cancellation: every accepted event dispatched from a handler is registered as its child '
    '(same obligation as C09.9)')
def c10_8(c: Ctx) -> None:
    from .c09 import check_child_registration_guards

    check_child_registration_guards(c)


@ob('C10.9', 'WMC', 'handlers run, and events are processed, only through the chain step / inline loop -> process_event -> _execute_handlers -> execute_handler (same obligation as C01.6): '
    'a new entry point that processes an event directly bypasses the per-handler timeout, or the child registration the timeout cancellation relies on')
def c10_9(c: Ctx) -> None:
    from .c01 import c01_6
    from .c09 import check_dispatch_entry_points

    c01_6(c)
    check_dispatch_entry_points(c)


OBLIGATIONS = ob.obs
