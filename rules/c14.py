"""C14 — dispatch accepts or rejects atomically; accepted events are never dropped: structural necessary conditions."""

from __future__ import annotations

import ast

from .common import *  # noqa: F401,F403
from .common import SVC, MOD, AnalysisError, Ctx, Facts, Registry, U, Unit, call_name, own_nodes, parent, q, where
from .c01 import c01_3
from .c09 import lineage_writes

ob = Registry()


def dispatch_nodes(c: Ctx):
    d = c.unit(SVC, 'EventBus.dispatch')
    g = c.cfg(d)
    ev = d.params()[1]
    puts = [n for n in g.live_nodes() if any(x.args and U(x.args[0]) == ev for x in q.node_calls(n, 'put_nowait'))]
    hist = [n for n in g.live_nodes() if n.kind == 'stmt' and isinstance(n.ast, ast.Assign) and isinstance(n.ast.targets[0], ast.Subscript) and U(n.ast.targets[0].value).endswith('.event_history')]
    return d, g, ev, puts, hist


@ob('C14.1', 'ORD', 'no lineage write (registration as a child of the running handler) lies on a path to an exceptional exit of dispatch: a rejected dispatch leaves no '
    'trace on the would-be parent')
def c14_1(c: Ctx) -> None:
    d, pid, kids = lineage_writes(c)
    g = c.cfg(d)
    c.floor(len(kids), 1, 'children append in dispatch')
    for w in kids:
        st = q.stmt_of(w.node)
        for n in g.nodes_of(st):
            p = q.reach_search(g, [(n, {})], lambda x, dd: x.kind == 'raise_exit', skip_exc_from=None)
            if p is None:
                c.ok(where(d, w.node), 'no exceptional exit of dispatch is reachable after the child registration', raise_exits=len(g.raise_exits))
            else:
                how = next((s.via for s in p if s.via.startswith('raises')), '?')
                c.fail(d, f'child registration precedes a reject point ({how})', 'a dispatch rejected from inside a handler (backlog limit, full queue) stays recorded as that handler\'s child: the parent can never complete', node=w.node, witness=c.path(n, p))


@ob('C14.2', 'ORD', 'the history insertion follows a successful put_nowait; every handler around put_nowait that catches its rejection re-raises (no silent drop)')
def c14_2(c: Ctx) -> None:
    d, g, ev, puts, hist = dispatch_nodes(c)
    c.floor(len(puts), 1, 'put_nowait(event) in dispatch')
    c.floor(len(hist), 1, 'history insert in dispatch')
    from sa.cfg import search

    pid = {n.id for n in puts}
    for h in hist:
        p = search([(g.entry, ())], is_target=lambda n, dd: n is h, is_barrier=lambda n, dd: n.id in pid)
        if p is None:
            c.ok(where(d, h.ast), 'history insert reachable only after put_nowait(event) succeeded')
        else:
            c.fail(d, 'history insert reachable before / without a successful put_nowait', 'a rejected event is left in the history (and counts against the backlog limit forever)', node=h.ast, witness=c.path(g.entry, p))
    # handlers that can catch the rejection
    H = c.an.fm.h
    for pn in puts:
        for e in pn.succ:
            if e.is_exc and e.dst.kind == 'except':
                arm = e.dst.ast
                inside = {id(x) for b in arm.body for x in ast.walk(b)}
                p = search([(e.dst, ())], is_target=lambda n, dd: (n.ast is None or id(n.ast) not in inside) and n.kind not in ('raise_exit', 'reraise'),
                           edge_ok=lambda n, ed, dd: None if ed.is_exc else dd)
                if p is None:
                    c.ok(where(d, arm), f'`except {U(arm.type) if arm.type else ""}` around put_nowait re-raises ({e.exc})')
                else:
                    c.fail(d, f'except {U(arm.type) if arm.type else ""} around put_nowait completes normally', f'a dispatch rejected with {e.exc} returns normally: the event is dropped silently', node=arm, witness=c.path(e.dst, p))


def queue_invariant(c: Ctx) -> list[str]:
    """`_is_running` implies `event_queue is not None` (and the queue object is truthy).  Returns reasons it fails."""
    why: list[str] = []
    st = c.unit(SVC, 'EventBus._start')
    ws = c.cg.all_writes('event_queue')
    for w in ws:
        if w.how != 'assign':
            continue
        if w.unit.name == '__init__' and w.unit.cls == 'EventBus':
            continue
        if w.unit.key == st.key and isinstance(w.node, ast.Assign) and isinstance(w.node.value, ast.Call) and 'CleanShutdownQueue' in U(w.node.value.func):
            continue
        why.append(f'event_queue is reassigned in {w.unit.qualname}: {U(w.node)[:60]}')
    for w in ws:
        if w.how == 'assign' and w.unit.key == st.key and isinstance(w.node, ast.Assign) and isinstance(w.node.value, ast.Call) and 'CleanShutdownQueue' in U(w.node.value.func):
            g0 = c.cfg(st)
            atom0 = f'{U(w.base)}.event_queue'
            f0 = Facts(lambda a: a == atom0, cg=c.cg, unit=st)
            for n0 in g0.nodes_of(q.stmt_of(w.node)):
                if q.guard_search(g0, n0, f'{atom0} is None', f0) is not None:
                    gi = q.enclosing(w.node, (ast.If,))
                    why.append(f'the queue is (re)created under `{U(gi.test)[:60] if gi is not None else "no guard"}` instead of only when it is None: a queue that may still hold events can be replaced')
                    break
    ci = c.prog.cls('CleanShutdownQueue')
    for m in ('__bool__', '__len__'):
        if m in ci.methods:
            why.append(f'CleanShutdownQueue defines {m}: an empty queue is falsy')
    g = c.cfg(st)
    self_ = st.params()[0]
    atom = f'{self_}.event_queue'
    facts = Facts(lambda a: a == atom, rhs_value=lambda v: 'Ty' if isinstance(v, ast.Call) and 'CleanShutdownQueue' in U(v.func) else None, cg=c.cg, unit=st)
    runs = [n for n in g.live_nodes() if n.kind == 'stmt' and isinstance(n.ast, ast.Assign) and U(n.ast.targets[0]) == f'{self_}._is_running' and isinstance(n.ast.value, ast.Constant) and n.ast.value.value is True]
    if not runs:
        why.append('_start never sets _is_running = True')
    for rn in runs:
        p = q.guard_search(g, rn, f'{atom} is not None', facts)
        if p is not None:
            why.append('_start can set _is_running = True while event_queue may still be None')
    for w in c.cg.all_writes('_is_running'):
        if w.how == 'assign' and isinstance(w.node, ast.Assign) and isinstance(w.node.value, ast.Constant) and w.node.value.value is True and w.unit.key != st.key:
            why.append(f'_is_running = True outside _start ({w.unit.qualname})')
    return why


@ob('C14.3', 'MPT', 'every normal return of dispatch has passed put_nowait(event) and the history insert, or found this very event already in this bus\'s history (accepted by an earlier '
    'dispatch: the history is written only after a successful put_nowait); the `event_queue is None` arm is discharged by the invariant _is_running ⇒ event_queue is a truthy, '
    'never-reset queue object')
def c14_3(c: Ctx) -> None:
    d, g, ev, puts, hist = dispatch_nodes(c)
    c.floor(len(puts), 1, 'put_nowait(event) in dispatch')
    self_ = d.params()[0]
    why = queue_invariant(c)
    if not why:
        c.ok(where(c.unit(SVC, 'EventBus._start')), 'invariant: event_queue is assigned a truthy queue before _is_running = True and never reset')
    qtests = {n.id for n in g.live_nodes() if n.kind == 'if' and U(n.ast.test) in (f'{self_}.event_queue', f'{self_}.event_queue is not None')}
    starts = [n for n in g.live_nodes() if q.node_calls(n, '_start')]
    from sa.cfg import search

    pid = {n.id for n in puts}

    # "this very event is already in this bus's history": the history is written only after a successful put_nowait (checked below), so the event was enqueued by an
    # earlier dispatch to this bus — returning it again is not dropping it
    in_hist = {f'{self_}.event_history.get({ev}.event_id) is {ev}', f'{ev}.event_id in {self_}.event_history', f'{self_}.event_history.get({ev}.event_id) is not None'}
    htests = {n.id for n in g.live_nodes() if n.kind == 'if' and any(U(x) in in_hist for x in (n.ast.test.values if isinstance(n.ast.test, ast.BoolOp) and isinstance(n.ast.test.op, ast.And) else [n.ast.test]))}

    qatom = f'{self_}.event_queue'
    fq = Facts(lambda a: a == qatom)

    def no_queue_edge(n, e) -> bool:
        # the branch taken means "there is no queue", however the test is spelled (`if q:` else-arm, `if q is None:`, `if not q:`)
        if n.kind != 'if' or e.label not in ('true', 'false') or any(isinstance(x, ast.Call) for x in ast.walk(n.ast.test)):
            return False
        env_ = fq.assume(n.ast.test, e.label == 'true', {})
        return env_ is not None and fq.eval(ast.parse(qatom, mode='eval').body, env_) is False

    def edge_ok(n, e, dd):
        if e.is_exc:
            return None
        if n.id in htests and e.label == 'true':
            return None  # already accepted earlier
        if not why and dd.get('#started') == 'T' and no_queue_edge(n, e):
            return None  # infeasible by the invariant (after self._start() under a running loop)
        return dd

    p = search([(g.entry, ())], is_target=lambda n, dd: n.kind == 'exit', is_barrier=lambda n, dd: n.id in pid, edge_ok=edge_ok,
               transfer=lambda n, dd: ({**dd, '#started': 'T'} if n in starts else dd))
    if p is None:
        c.ok(where(d), 'every normal return of dispatch passed put_nowait(event)')
    else:
        c.fail(d, 'dispatch can return normally without enqueuing the event' + (f' (queue invariant broken: {why[0]})' if why else ''), 'an event is dropped silently: dispatch returns it as if accepted but no bus will ever process it', witness=c.path(g.entry, p))
    hid = {n.id for n in hist}
    for pn in puts:
        p = q.pair_search(g, pn, lambda x: x.id in hid, exc_ok=lambda e: False)
        if p is None:
            c.ok(where(d, pn.ast), 'every normal path after put_nowait inserts the event into the history')
        else:
            c.fail(d, 'accepted event not recorded in the history on some path', 'an accepted event is invisible to events_pending / wait_until_idle', node=pn.ast, witness=c.path(pn, p))


@ob('C14.4', 'MPT', 'an accepted (enqueued) event is handed to process_event by whoever dequeues it (same obligation as C01.3)')
def c14_4(c: Ctx) -> None:
    c01_3(c)


@ob('C14.5', 'WMC', 'an accepted event leaves the queue only by being dequeued by a consumer: nothing in the library calls the queue\'s storage hooks (_get / _put / _init) or edits its '
    'task accounting, and stop() / shutdown() do not drain the queue (the backlog is processed when the bus resumes)')
def c14_5(c: Ctx) -> None:
    from .c02 import check_no_raw_queue_calls

    n = check_no_raw_queue_calls(c)
    if n == 0:
        c.ok('bubus/*.py', 'no call of the queue storage hooks, no write of its task accounting')
    # shutdown() of the queue class removes waiters only, never items
    ci = c.prog.cls('CleanShutdownQueue')
    sh = ci.methods.get('shutdown')
    if sh is not None:
        removing = [x for x in own_nodes(sh.node) if isinstance(x, ast.Call) and call_name(x) in ('get_nowait', 'get', '_get', 'clear') and not (isinstance(x.func, ast.Attribute) and U(x.func.value).endswith(('_getters', '_putters')))]
        if removing:
            c.fail(sh, f'shutdown() removes queued items: {U(removing[0])[:60]}', 'stopping a bus discards its accepted backlog', node=removing[0])
        else:
            c.ok(where(sh), 'CleanShutdownQueue.shutdown() releases waiters and removes no queued item')


@ob('C14.6', 'WMC', 'events enter a bus only through dispatch(): nothing else inserts into event_history or assigns lineage (same check as C09 / C04.9), so the accept-or-reject order of '
    'dispatch (capacity check, enqueue, only then history / children) cannot be bypassed by a bulk or deferred entry point')
def c14_6(c: Ctx) -> None:
    from .c09 import check_dispatch_entry_points

    check_dispatch_entry_points(c)


@ob('C14.7', 'MPT', 'an accepted event has a consumer: whenever _start() finds the bus not running it creates a run-loop task before it sets _is_running = True — unconditionally, not only when '
    'no task object exists yet (a run loop that ended without stop(), e.g. because the application cancelled all tasks, leaves a finished task behind; the next dispatch must start a '
    'new one or the event it enqueues is never processed)')
def c14_7(c: Ctx) -> None:
    st = c.unit(SVC, 'EventBus._start')
    g = c.cfg(st)
    self_ = st.params()[0]
    ons = [n for n in g.live_nodes() if n.kind == 'stmt' and isinstance(n.ast, ast.Assign) and U(n.ast.targets[0]) == f'{self_}._is_running' and isinstance(n.ast.value, ast.Constant) and n.ast.value.value is True]
    c.floor(len(ons), 1, '`_is_running = True` in _start')
    rl = c.unit(SVC, 'EventBus._run_loop')
    spawns = {n.id for n in g.live_nodes() if any(call_name(x) in ('create_task', 'ensure_future') and x.args and isinstance(x.args[0], ast.Call) and c.an.fm.resolve_call(x.args[0], st) is rl
                                                   for x in q.node_calls(n))}
    if not spawns:
        c.fail(st, '_start() never creates a run-loop task', 'nothing consumes the queue')
        return
    from sa.cfg import search

    for on in ons:
        p = search([(g.entry, ())], is_target=lambda n, d: n is on, is_barrier=lambda n, d: n.id in spawns, edge_ok=lambda n, e, d: None if e.is_exc else d)
        if p is None:
            c.ok(where(st, on.ast), 'every path to `_is_running = True` creates a run-loop task first')
        else:
            c.fail(st, '`_is_running = True` reachable without creating a run-loop task', 'a bus whose run loop has ended (without stop()) is marked running again without a consumer: events dispatched afterwards are accepted and '
                   'never processed', node=on.ast, witness=c.path(g.entry, p))


OBLIGATIONS = ob.obs
