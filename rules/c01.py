"""C01 — exactly-once handler delivery per (event, bus, handler): structural necessary conditions."""

from __future__ import annotations

import ast

from .common import *  # noqa: F401,F403
from .common import bind_defaults
from .common import (
    SVC, MOD, AbsInt, AnalysisError, AnchorError, Cls, Ctx, Facts, Obj, Registry, UNKNOWN, U, Unit, call_name, q, walk_own, where,
)  # fmt: skip
from sa.absint import Rec, StrEnumMember

ob = Registry()


# ------------------------------------------------------------------------------------------------ shared helpers
def on_key_for(c: Ctx, pattern_value, unit: Unit | None = None) -> object:
    """Abstractly evaluate EventBus.on() for one pattern kind; returns the key under which the handler is filed."""
    u = unit or c.unit(SVC, 'EventBus.on')
    params = u.params()
    if len(params) < 3:
        raise AnalysisError('EventBus.on: unexpected signature')
    keys: list[object] = []

    def on_stmt(st: ast.stmt, env: dict) -> None:
        for n in walk_own(st) if not isinstance(st, (ast.If, ast.For, ast.While, ast.Try, ast.With)) else []:
            if isinstance(n, ast.Call) and call_name(n) == 'append' and isinstance(n.func, ast.Attribute):
                tgt = n.func.value
                if isinstance(tgt, ast.Subscript) and isinstance(tgt.value, ast.Attribute) and tgt.value.attr == 'handlers':
                    keys.append(ai.ev(tgt.slice, env))
            if isinstance(n, ast.Call) and call_name(n) == 'setdefault' and isinstance(n.func, ast.Attribute) and isinstance(n.func.value, ast.Attribute) and n.func.value.attr == 'handlers' and n.args:
                keys.append(ai.ev(n.args[0], env))

    ai = AbsInt(on_stmt=on_stmt)
    env = {params[0]: Obj('EventBus', 'bus'), params[1]: pattern_value, params[2]: Obj('function', 'h')}
    ai.run(u.node.body, env)
    if len(keys) != 1:
        raise AnalysisError(f'EventBus.on: expected exactly one registration `self.handlers[key].append(handler)` on the evaluated path, saw {len(keys)}')
    return keys[0]


def base_event_type_default(c: Ctx) -> str:
    """The class-level default of BaseEvent.event_type, read from the class body (`event_type: ... = Field(default='...')`)."""
    ci = c.prog.cls('BaseEvent')
    for st in ci.node.body:
        if isinstance(st, ast.AnnAssign) and isinstance(st.target, ast.Name) and st.target.id == 'event_type' and st.value is not None:
            v = st.value
            if isinstance(v, ast.Call):
                v = q.kw(v, 'default') or (v.args[0] if v.args else None)
            if isinstance(v, ast.Constant) and isinstance(v.value, str):
                return v.value
    raise AnchorError('BaseEvent.event_type: class-level default not found')


def pattern_kinds(c: Ctx) -> list[tuple[str, object, str]]:
    """(description, pattern value, event_type carried by the events that pattern is meant to match)."""
    base = base_event_type_default(c)
    return [
        ("'*'", '*', '*'),
        ("identifier string 'UserEvent'", 'UserEvent', 'UserEvent'),
        ('BaseEvent subclass UserEvent', Cls('UserEvent', fields=(('event_type', base),)), 'UserEvent'),
        ("BaseEvent subclass OverrideEvent that declares event_type = 'custom_type'", Cls('OverrideEvent', fields=(('event_type', 'custom_type'),)), 'custom_type'),
        ("member Names.PING = 'Ping' of a `class Names(str, Enum)` (a str equal to 'Ping' whose str() is 'Names.PING')", StrEnumMember('Ping', 'Names.PING'), 'Ping'),
    ]


@ob('C01.1', 'SIB/FLOW', "registry keys agree: on() files a handler under '*', the class name or the string; _get_applicable_handlers reads "
    "self.handlers under both event.event_type and '*' and every looked-up handler reaches the selection loop; event_type defaults to the class name")
def c01_1(c: Ctx) -> None:
    u_on = c.unit(SVC, 'EventBus.on')
    for desc, val, want in pattern_kinds(c):
        got = on_key_for(c, val)
        if got is UNKNOWN:
            raise AnalysisError(f'EventBus.on: key for pattern kind {desc} could not be evaluated (undecided)')
        if got == want:
            c.ok(where(u_on), f'on({desc}) files the handler under key {got!r}')
        else:
            c.fail(u_on, f'pattern kind {desc} -> key {got!r}', f'on({desc}) files the handler under {got!r}, but events of that type are looked up under {want!r}')
    # reader side
    u = c.unit(SVC, 'EventBus._get_applicable_handlers')
    lookups: list[tuple[ast.AST, str]] = []
    for n in own_nodes_list(u):
        key = None
        if isinstance(n, ast.Call) and call_name(n) == 'get' and isinstance(n.func, ast.Attribute) and isinstance(n.func.value, ast.Attribute) and n.func.value.attr == 'handlers' and n.args:
            key = n.args[0]
        elif isinstance(n, ast.Subscript) and isinstance(n.value, ast.Attribute) and n.value.attr == 'handlers' and isinstance(n.ctx, ast.Load):
            key = n.slice
        if key is not None:
            lookups.append((n, U(key)))
    keys = {k for _, k in lookups}
    ev_param = u.params()[1] if len(u.params()) > 1 else 'event'
    for want, desc in ((f'{ev_param}.event_type', 'type-specific key event.event_type'), ("'*'", "wildcard key '*'")):
        if want in keys:
            c.ok(where(u), f'self.handlers is read under the {desc}')
        else:
            c.fail(u, f'no lookup of self.handlers under {want}', f'_get_applicable_handlers never reads self.handlers under the {desc}: handlers registered that way are never delivered')
    # every lookup flows into the list the selection loop iterates
    loop = selection_loop(c, u)
    it = loop.iter
    it_names = {n.id for n in ast.walk(it) if isinstance(n, ast.Name)}
    # what a lookup can flow into: names bound to an expression that contains it (or a name it already flowed into), containers such an expression is added to
    def flows_into_iter(node: ast.AST) -> bool:
        tainted_nodes = {id(node)}
        names: set[str] = set()

        def mentions(e: ast.AST) -> bool:
            return any(id(x) in tainted_nodes or (isinstance(x, ast.Name) and x.id in names) for x in ast.walk(e))

        grew = True
        while grew:
            grew = False
            for n2 in own_nodes_list(u):
                if isinstance(n2, (ast.Assign, ast.AnnAssign, ast.AugAssign)) and n2.value is not None and mentions(n2.value):
                    for t in (n2.targets if isinstance(n2, ast.Assign) else [n2.target]):
                        for x in ast.walk(t):
                            if isinstance(x, ast.Name) and x.id not in names:
                                names.add(x.id)
                                grew = True
                elif isinstance(n2, ast.Call) and isinstance(n2.func, ast.Attribute) and n2.func.attr in ('extend', 'append', 'update', 'add', 'insert') and isinstance(n2.func.value, ast.Name) \
                        and any(mentions(a_) for a_ in n2.args) and n2.func.value.id not in names:
                    names.add(n2.func.value.id)
                    grew = True
                elif isinstance(n2, ast.For) and mentions(n2.iter) and n2 is not loop:
                    for x in ast.walk(n2.target):
                        if isinstance(x, ast.Name) and x.id not in names:
                            names.add(x.id)
                            grew = True
        return mentions(it)

    flow_by_key: dict[str, list] = {}
    for node, k in lookups:
        st = q.stmt_of(node)
        flows = False
        if any(x is node for x in ast.walk(it)):
            flows = True
        elif isinstance(st, ast.Expr) and isinstance(st.value, ast.Call) and call_name(st.value) in ('extend', '__iadd__') and isinstance(st.value.func, ast.Attribute) and U(st.value.func.value) in it_names:
            flows = True
        elif isinstance(st, (ast.Assign, ast.AnnAssign, ast.AugAssign)):
            tg = st.targets if isinstance(st, ast.Assign) else [st.target]
            flows = any(isinstance(t, ast.Name) and t.id in it_names for t in tg)
            if not flows:
                # bound to a local first (`typed = self.handlers.get(k)`), handed on by `<iterated list>.extend(typed or [])` / `+=` / a concatenation in the loop's iterable
                locs = {t.id for t in tg if isinstance(t, ast.Name)}
                for n2 in own_nodes_list(u):
                    if isinstance(n2, ast.Call) and call_name(n2) == 'extend' and isinstance(n2.func, ast.Attribute) and U(n2.func.value) in it_names and n2.args and locs & {x.id for x in ast.walk(n2.args[0]) if isinstance(x, ast.Name)}:
                        flows = True
                    if isinstance(n2, ast.AugAssign) and U(n2.target) in it_names and locs & {x.id for x in ast.walk(n2.value) if isinstance(x, ast.Name)}:
                        flows = True
                if locs & it_names:
                    flows = True
        flows = flows or flows_into_iter(node)
        flow_by_key.setdefault(k, []).append((node, flows))
    for k, lst in flow_by_key.items():
        # the same lookup may be written out more than once (a truth test for a fast path, then the use): one of them must feed the loop
        if any(f for _, f in lst):
            c.ok(where(u, lst[0][0]), f'handlers looked up under {k} reach the selection loop')
        else:
            c.fail(u, f'lookup under {k} does not flow into the selection loop', f'handlers read under {k} never reach the loop that selects handlers', node=lst[0][0])
    # the iterated variable must not be rebound to something that drops elements after the lookups
    for n in own_nodes_list(u):
        if isinstance(n, (ast.Assign, ast.AnnAssign)) and lookups and n.lineno > max(x.lineno for x, _ in lookups) and n.lineno < loop.lineno and not any(x is loop for x in ast.walk(n)):
            tg = n.targets if isinstance(n, ast.Assign) else [n.target]
            if any(isinstance(t, ast.Name) and t.id in it_names for t in tg):
                v = n.value
                if isinstance(v, (ast.Subscript,)) or (isinstance(v, ast.Call) and call_name(v) in ('filter', 'set', 'dict')) or isinstance(v, (ast.ListComp, ast.GeneratorExp)):
                    c.fail(u, f'handler list rebound before the loop: {U(n)}', 'the looked-up handler list is sliced/filtered before the selection loop', node=n)
    check_lookup_not_memoised(c, u, lookups)
    # writer of event_type default
    uv = c.unit(MOD, 'BaseEvent._set_event_type_from_class_name')
    _c01_1_tail(c, uv)


def collect_lookups(c: Ctx, u: Unit):
    lookups = []
    for n in own_nodes_list(u):
        key = None
        if isinstance(n, ast.Call) and call_name(n) == 'get' and isinstance(n.func, ast.Attribute) and isinstance(n.func.value, ast.Attribute) and n.func.value.attr == 'handlers' and n.args:
            key = n.args[0]
        elif isinstance(n, ast.Subscript) and isinstance(n.value, ast.Attribute) and n.value.attr == 'handlers' and isinstance(n.ctx, ast.Load):
            key = n.slice
        if key is not None:
            lookups.append((n, U(key)))
    return lookups


def check_lookup_not_memoised(c: Ctx, u: Unit, lookups) -> None:
    # the selection is recomputed from the live registry on every call: no memoisation (a cached list misses handlers registered later)
    g = c.cfg(u)
    self_ = u.params()[0]
    state_writes = [w for w in c.cg.writes.get(u.key, []) if w.base is not None and U(w.base).split('.')[0] == self_ and not isinstance(w.base, ast.Name) is False or (w.base is not None and U(w.base) == self_)]
    state_writes = [w for w in c.cg.writes.get(u.key, []) if w.base is not None and (U(w.base) == self_ or U(w.base).startswith(self_ + '.'))]
    memos = set(getattr(c.prog, 'memos', {}) or {})
    for w in [w for w in state_writes if w.attr in memos]:
        c.ok(where(u, w.node), f'{U(w.node)[:50]}: a store into the new memo {w.attr} (its reads are analysed as misses; C01.13 decides whether it is kept coherent)')
    for w in [w for w in state_writes if w.attr not in memos]:
        c.fail(u, f'_get_applicable_handlers writes bus state: {U(w.node)[:70]}', 'the applicable-handler lookup is memoised on the bus: handlers registered (or removed) after the first event of a type are not seen for later events of that type', node=w.node)
    from sa.cfg import search

    rets = [n for n in g.live_nodes() if n.kind == 'return']
    by_key: dict[str, list] = {}
    for node_, k in lookups:
        by_key.setdefault(k, []).append(node_)
    for k, nodes_k in by_key.items():
        node_ = nodes_k[0]
        # any of the reads under this key counts (the same lookup may be written out at several uses)
        ids = {x.id for nd in nodes_k for x in g.nodes_of(q.stmt_of(nd))}
        for rn in rets:
            p = search([(g.entry, ())], is_target=lambda n, d: n is rn, is_barrier=lambda n, d: n.id in ids, edge_ok=lambda n, e, d: None if e.is_exc else d)
            if p is not None:
                c.fail(u, f'a return is reachable without reading self.handlers under {k}', 'on some path the handler lookup is skipped (cached / short-circuited): handlers registered later are never delivered to', node=rn.ast, witness=c.path(g.entry, p))
                break
        else:
            c.ok(where(u, node_), f'every path to a return reads self.handlers under {k}')


def _c01_1_tail(c: Ctx, uv: Unit) -> None:
    """The event_type an instance carries, per class kind: evaluate the `before` validator on empty input data."""
    ps = uv.params()
    if len(ps) < 2:
        raise AnalysisError(f'{uv}: unexpected signature')
    for desc, val, want in pattern_kinds(c):
        if not isinstance(val, Cls):
            continue
        ai = AbsInt()
        ai.run(uv.node.body, {ps[0]: val, ps[1]: {}})
        if len(ai.returns) != 1 or type(ai.returns[0]) is not dict:
            raise AnalysisError(f'{uv}: result undecided for {desc}')
        data = ai.returns[0]
        carried = data.get('event_type', dict(val.fields).get('event_type'))  # not set by the validator -> pydantic applies the class-level default
        if carried is UNKNOWN:
            raise AnalysisError(f'{uv}: event_type undecided for {desc}')
        if carried == want:
            c.ok(where(uv), f'instances of {desc} carry event_type {carried!r}')
        else:
            c.fail(uv, f'instances of {desc} carry event_type {carried!r}', f'event_type of {desc} is {carried!r}, not {want!r}: class-pattern registrations never match')


def lookup_locals(u: Unit) -> set[str]:
    """Locals bound to a lookup of the handler registry: `x = self.handlers.get(k[, default])` / `x = self.handlers[k]`."""
    out: set[str] = set()
    for n in own_nodes_list(u):
        if isinstance(n, (ast.Assign, ast.AnnAssign)) and n.value is not None:
            t = n.targets[0] if isinstance(n, ast.Assign) else n.target
            v = n.value
            if isinstance(t, ast.Name) and ((isinstance(v, ast.Call) and call_name(v) == 'get' and isinstance(v.func, ast.Attribute) and isinstance(v.func.value, ast.Attribute) and v.func.value.attr == 'handlers')
                                            or (isinstance(v, ast.Subscript) and isinstance(v.value, ast.Attribute) and v.value.attr == 'handlers')):
                out.add(t.id)
    return out


def own_nodes_list(u: Unit) -> list[ast.AST]:
    from sa.loader import own_nodes

    return sorted(own_nodes(u.node), key=lambda n: (getattr(n, 'lineno', 0), getattr(n, 'col_offset', 0)))


def selection_loop(c: Ctx, u: Unit):
    """The construct that selects handlers: a `for` loop, or a dict comprehension, that calls _would_create_loop."""
    loops = [n for n in own_nodes_list(u) if isinstance(n, ast.For) and any(isinstance(x, ast.Call) and call_name(x) == '_would_create_loop' for x in ast.walk(n))]
    comps = [n for n in own_nodes_list(u) if isinstance(n, ast.DictComp) and any(isinstance(x, ast.Call) and call_name(x) == '_would_create_loop' for x in ast.walk(n))]
    if len(loops) + len(comps) != 1:
        raise AnchorError(f'{u}: expected exactly one selection loop / comprehension calling _would_create_loop, found {len(loops) + len(comps)}')
    if comps:
        comp = comps[0]
        if len(comp.generators) != 1:
            raise AnchorError(f'{u}: selection comprehension with {len(comp.generators)} generators')
        comp.iter = comp.generators[0].iter  # uniform access for the flow check
        return comp
    return loops[0]


def check_selection_comprehension(c: Ctx, u: Unit, comp: ast.DictComp) -> None:
    gen = comp.generators[0]
    hv = U(gen.target)
    wcl = [x for x in ast.walk(comp) if isinstance(x, ast.Call) and call_name(x) == '_would_create_loop']
    cond_ok = len(gen.ifs) == 1 and isinstance(gen.ifs[0], ast.UnaryOp) and isinstance(gen.ifs[0].op, ast.Not) and gen.ifs[0].operand is wcl[0] and len(wcl) == 1
    if cond_ok:
        c.ok(where(u, comp), f'a handler is dropped only under {U(wcl[0])} (comprehension filter)')
    else:
        c.fail(u, f'selection comprehension filters by {[U(i)[:60] for i in gen.ifs]}', 'a handler can be dropped by the selection although it would not create a loop', node=comp)
    k = comp.key
    good = isinstance(k, ast.Call) and call_name(k) == 'get_handler_id' and len(k.args) >= 2 and U(k.args[0]) == hv and U(k.args[1]) == u.params()[0] and U(comp.value) == hv
    if good:
        c.ok(where(u, comp), f'handlers are keyed by {U(k)} (bus-qualified id)')
    else:
        c.fail(u, f'selection comprehension maps {U(k)[:50]} -> {U(comp.value)[:30]}', 'selected handlers are not keyed by get_handler_id(handler, self): same-named / same handler on several buses collide', node=comp)
    rets = [n for n in own_nodes_list(u) if isinstance(n, ast.Return) and n.value is not None]
    holder = None
    p_ = parent_of(comp)
    if isinstance(p_, (ast.Assign, ast.AnnAssign)):
        holder = U(p_.targets[0] if isinstance(p_, ast.Assign) else p_.target)
    if rets and all((U(r.value) == holder) or (r.value is comp) for r in rets):
        c.ok(where(u, rets[0]), 'the function returns the selected mapping')
    else:
        c.fail(u, f'returns {[U(r.value)[:40] for r in rets]}', 'the selected handler mapping is not what the function returns', node=comp)


@ob('C01.2', 'DOM/SHAPE', 'the selection loop drops a handler only under _would_create_loop(event, handler); every other handler is stored under '
    'get_handler_id(handler, self), which is built from both id(bus) and id(handler); the function returns that dict')
def c01_2(c: Ctx) -> None:
    u = c.unit(SVC, 'EventBus._get_applicable_handlers')
    g = c.cfg(u)
    loop = selection_loop(c, u)
    if isinstance(loop, ast.DictComp):
        check_selection_comprehension(c, u, loop)
        check_handler_id_shape(c)
        return
    heads = g.nodes_of(loop, ('for',))
    if len(heads) != 1:
        raise AnalysisError('selection loop has no unique CFG head')
    head = heads[0]
    wcl = [x for x in ast.walk(loop) if isinstance(x, ast.Call) and call_name(x) == '_would_create_loop']
    atom = U(wcl[0])
    # stores into the returned dict
    rets = [n for n in own_nodes_list(u) if isinstance(n, ast.Return) and n.value is not None]
    empty = [r for r in rets if (isinstance(r.value, ast.Dict) and not r.value.keys) or (isinstance(r.value, ast.Call) and U(r.value.func) == 'dict' and not r.value.args and not r.value.keywords)]
    if empty:
        # a fast path `return {}` is the zero-iteration result: allowed exactly where every looked-up handler list is known to be empty
        looked_up = lookup_locals(u)
        from sa.facts import entails

        for r in empty:
            ok_fast = False
            if looked_up:
                fa = Facts(lambda a: a in looked_up, cg=c.cg, unit=u)
                guard = ' and '.join(f'(not {n})' for n in sorted(looked_up))
                ok_fast = all(q.guard_search(g, n, guard, fa) is None for n in g.nodes_of(r))
            if ok_fast:
                c.ok(where(u, r), 'fast path `return {}` only when every looked-up handler list is empty (the selection loop would run zero times)')
            else:
                c.fail(u, f'returns an empty mapping at `{q.stmt_text(r, 40)}` although handlers may be registered', 'registered handlers are dropped by an early return', node=r)
        rets = [r for r in rets if r not in empty]
    ret_names = {U(r.value) for r in rets}
    if len(ret_names) != 1:
        raise AnalysisError(f'{u}: expected one returned container, saw {sorted(ret_names)}')
    dname = ret_names.pop()
    stores = []
    for n in ast.walk(loop):
        if isinstance(n, ast.Assign) and len(n.targets) == 1 and isinstance(n.targets[0], ast.Subscript) and U(n.targets[0].value) == dname:
            stores.append(n)
    c.floor(len(stores), 1, f'stores into the returned dict {dname} inside the selection loop')
    store_ids = {id(s) for s in stores}
    facts = Facts(lambda a: a == atom, cg=c.cg, unit=u)

    def is_store(n):
        return n.ast is not None and id(n.ast) in store_ids

    body_start = [e.dst for e in head.succ if e.label == 'iter']
    from sa.cfg import search

    path = search(
        [(head, ())],
        is_target=lambda n, d: (n is head or n.kind in ('exit', 'raise_exit')) and d.get(atom) not in ('T', 'Ty'),
        is_barrier=lambda n, d: is_store(n) or n is head,
        edge_ok=lambda n, e, d: None if ((n is head and e.label != 'iter') or e.is_exc) else facts.edge_ok(n, e, d),  # exceptional exits: C03.4
        transfer=facts.transfer,
    )
    if path is None:
        c.ok(where(u, loop), f'every iteration stores the handler unless {atom} is true', paths='all iteration paths')
    else:
        c.fail(u, f'iteration path skips the store without {atom}', 'a handler can be dropped by the selection loop although it would not create a loop', node=loop, witness=c.path(head, path))
    # every looked-up handler gets its iteration: the loop is left only when it is exhausted (dropping one handler must not end the selection for those after it)
    in_loop = {n.id for st_ in loop.body for n in g.nodes_of(st_)} | {n.id for st_ in loop.body for x in ast.walk(st_) if isinstance(x, ast.stmt) for n in g.nodes_of(x)}
    leave = search([(head, ())], is_target=lambda n, d: n.id not in in_loop and n is not head,
                   is_barrier=lambda n, d: n is head, edge_ok=lambda n, e, d: None if ((n is head and e.label != 'iter') or e.is_exc) else d)
    if leave is None:
        c.ok(where(u, loop), 'the selection loop is left only when every looked-up handler has had its iteration')
    else:
        c.fail(u, 'the selection loop can be left before it is exhausted', 'the handlers after the one at which the loop is left are never selected: registered handlers are silently not run for the event', node=loop,
               witness=c.path(head, leave))
    # key shape
    for s in stores:
        keyexpr = s.targets[0].slice  # type: ignore[union-attr]
        kcall = keyexpr
        if isinstance(keyexpr, ast.Name):
            defs = [n for n in ast.walk(loop) if isinstance(n, ast.Assign) and any(isinstance(t, ast.Name) and t.id == keyexpr.id for t in n.targets)]
            kcall = defs[-1].value if defs else keyexpr
        good = isinstance(kcall, ast.Call) and call_name(kcall) == 'get_handler_id' and (len(kcall.args) >= 2 or q.kw(kcall, 'eventbus') is not None)
        if good:
            bus_arg = kcall.args[1] if len(kcall.args) >= 2 else q.kw(kcall, 'eventbus')  # type: ignore[union-attr]
            good = U(bus_arg) == u.params()[0]
        if not good and isinstance(keyexpr, ast.Name) and isinstance(loop, (ast.For,)) and isinstance(loop.target, ast.Tuple) and len(loop.target.elts) == 2 \
                and U(loop.target.elts[0]) == keyexpr.id and U(s.value) == U(loop.target.elts[1]):
            # the loop runs over (id, handler) pairs prepared beforehand: every pair must be (get_handler_id(h, self), h)
            src = loop.iter
            seen_ = set()
            while isinstance(src, ast.Name) and src.id not in seen_:
                seen_.add(src.id)
                ds = [n for n in own_nodes_list(u) if isinstance(n, (ast.Assign, ast.AnnAssign)) and n.value is not None and any(isinstance(t, ast.Name) and t.id == src.id for t in (n.targets if isinstance(n, ast.Assign) else [n.target]))]
                ds = [d_ for d_ in ds if not (isinstance(d_.value, ast.Constant) and d_.value.value is None)]
                if len(ds) != 1:
                    break
                src = ds[0].value
            if isinstance(src, ast.Call) and isinstance(src.func, ast.Name) and src.func.id in ('tuple', 'list') and len(src.args) == 1:
                src = src.args[0]
            pass
        if not good and isinstance(loop, ast.For) and ((isinstance(keyexpr, ast.Name) and isinstance(loop.target, ast.Tuple)) or (isinstance(keyexpr, ast.Attribute) and isinstance(loop.target, ast.Name)
                                                                                                                       and U(keyexpr.value) == loop.target.id)):
            src = loop.iter
            seen_ = set()
            while isinstance(src, ast.Name) and src.id not in seen_:
                seen_.add(src.id)
                ds = [n for n in own_nodes_list(u) if isinstance(n, (ast.Assign, ast.AnnAssign)) and n.value is not None and any(isinstance(t, ast.Name) and t.id == src.id for t in (n.targets if isinstance(n, ast.Assign) else [n.target]))]
                ds = [d_ for d_ in ds if not (isinstance(d_.value, ast.Constant) and d_.value.value is None)]
                if len(ds) != 1:
                    break
                src = ds[0].value
            if isinstance(src, ast.Call) and isinstance(src.func, ast.Name) and src.func.id in ('tuple', 'list') and len(src.args) == 1:
                src = src.args[0]
            # records: `Rec(get_handler_id(h, self), h, ...)` of a NamedTuple class, read back as `r.<id field>` / `r.<handler field>`
            if isinstance(src, (ast.GeneratorExp, ast.ListComp)) and len(src.generators) == 1 and not src.generators[0].ifs and isinstance(src.elt, ast.Call) and isinstance(src.elt.func, ast.Name) \
                    and isinstance(src.generators[0].target, ast.Name) and isinstance(keyexpr, ast.Attribute) and isinstance(s.value, ast.Attribute) and U(s.value.value) == U(keyexpr.value):
                ci = c.prog.classes.get(src.elt.func.id)
                if ci is not None and any(U(b).split('.')[-1] == 'NamedTuple' for b in ci.node.bases) and not src.elt.keywords:
                    fields = [st_.target.id for st_ in ci.node.body if isinstance(st_, ast.AnnAssign) and isinstance(st_.target, ast.Name)]
                    by_field = dict(zip(fields, src.elt.args))
                    hv_ = src.generators[0].target.id
                    k_, v_ = by_field.get(keyexpr.attr), by_field.get(s.value.attr)
                    if isinstance(k_, ast.Call) and call_name(k_) == 'get_handler_id' and len(k_.args) >= 2 and U(k_.args[0]) == hv_ and U(k_.args[1]) == u.params()[0] and v_ is not None and U(v_) == hv_:
                        good = True
                        kcall = k_
            if isinstance(src, (ast.GeneratorExp, ast.ListComp)) and len(src.generators) == 1 and not src.generators[0].ifs and isinstance(src.elt, ast.Tuple) and len(src.elt.elts) == 2 \
                    and isinstance(src.generators[0].target, ast.Name) and isinstance(keyexpr, ast.Name):
                hv_ = src.generators[0].target.id
                k_, v_ = src.elt.elts
                if isinstance(k_, ast.Call) and call_name(k_) == 'get_handler_id' and len(k_.args) >= 2 and U(k_.args[0]) == hv_ and U(k_.args[1]) == u.params()[0] and U(v_) == hv_:
                    good = True
                    kcall = k_
        if good:
            c.ok(where(u, s), f'handlers are keyed by {U(kcall)} (bus-qualified id)')
        else:
            c.fail(u, f'store key is {U(kcall)}', 'selected handlers are not keyed by get_handler_id(handler, self): same-named / same handler on several buses collide', node=s)
    check_handler_id_shape(c)


def check_handler_id_shape(c: Ctx) -> None:
    # get_handler_id shape, evaluated abstractly
    ug = c.unit(MOD, 'get_handler_id')
    ai = AbsInt()
    ps = ug.params()
    ai.run(ug.node.body, {ps[0]: Obj('function', 'h1'), ps[1]: Obj('EventBus', 'b1')})
    vals = [v for v in ai.returns]
    if not vals or any(v is UNKNOWN for v in vals):
        raise AnalysisError('get_handler_id: return value undecided')
    v = vals[-1]
    if isinstance(v, str) and 'h1' in v and 'b1' in v:
        c.ok(where(ug), f'get_handler_id(handler, bus) = {v!r}: built from both identities')
    else:
        c.fail(ug, f'get_handler_id(handler, bus) evaluates to {v!r}', 'handler id with a bus is not built from both id(bus) and id(handler)')
    ai2 = AbsInt()
    ai2.run(ug.node.body, {ps[0]: Obj('function', 'h2'), ps[1]: Obj('EventBus', 'b1')})
    if ai2.returns and ai2.returns[-1] != v:
        c.ok(where(ug), 'distinct handlers on one bus get distinct ids')
    else:
        c.fail(ug, 'two handlers on one bus get the same id', 'get_handler_id does not distinguish handlers')


def dequeue_sites(c: Ctx) -> list[tuple[Unit, ast.Call]]:
    """All get()/get_nowait() calls on a CleanShutdownQueue outside the queue class itself."""
    out = []
    for m in ('get', 'get_nowait'):
        for u, call in q.typed_method_calls(c, m, 'CleanShutdownQueue'):
            if u.cls == 'CleanShutdownQueue':
                continue
            out.append((u, call))
    return out


def process_event_call_with(n, var: str) -> bool:
    for call in q.node_calls(n, 'process_event'):
        if call.args and U(call.args[0]) == var:
            return True
    return False


@ob('C01.3', 'MPT', 'from every dequeue site that obtained an event, every normal path reaches process_event(<that event>); the one whitelisted drop '
    'is the `not self._is_running` shutdown branch in _get_next_event')
def c01_3(c: Ctx) -> None:
    sites = dequeue_sites(c)
    c.floor(len(sites), 2, 'dequeue sites (get/get_nowait on a CleanShutdownQueue)')
    for u, call in sites:
        g = c.cfg(u)
        st = q.stmt_of(call)
        if call_name(call) == 'get_nowait' and isinstance(parent_of(call), ast.Return) and u.name == '_get_next_event':
            # handed straight back to the caller, like the awaited get(): what the callers of _get_next_event do with it is checked below (for the other site)
            c.ok(where(u, st), f'`{U(st)}`: the dequeued event is returned to the caller of {u.name} (consumers checked there)')
            continue
        if call_name(call) == 'get_nowait' or isinstance(parent_of(call), ast.Await):
            # value bound directly: `x = q.get_nowait()` / `x = await q.get()`
            if not (isinstance(st, (ast.Assign, ast.AnnAssign)) and isinstance((st.targets[0] if isinstance(st, ast.Assign) else st.target), ast.Name)):
                c.fail(u, f'dequeued value not bound to a local: {U(st)}', 'a dequeued event is not bound to a name that is handed to process_event', node=st)
                continue
            var = (st.targets[0] if isinstance(st, ast.Assign) else st.target).id  # type: ignore[union-attr]
            for n in g.nodes_of(st):
                # what a queue hands out is an event, never None (only dispatch() puts, and it puts the event it validated): a `None` test on the dequeued name is decided
                nn = Facts(lambda a, var=var: a == var or a.startswith('__inl_'), rhs_value=lambda v: 'NN' if isinstance(v, (ast.Call, ast.Await)) and call_name(v.value if isinstance(v, ast.Await) else v) in ('get', 'get_nowait') else None, cg=c.cg, unit=u)
                p = None
                # (the dequeue may sit in a folded helper: the flags that say which of its returns were taken are known on arrival)
                for env0 in (q.envs_at(g, n, nn) or [{}]):
                    env0 = {k: v for k, v in env0.items() if k.startswith('__inl_')}
                    p = p or q.pair_search(g, n, lambda x: process_event_call_with(x, var), facts=nn, env=env0, exc_ok=lambda e: False,
                                           exits=lambda x: x.kind in ('exit', 'raise_exit') or (x is not n and x.kind in ('for', 'while') and q.lexically_in(st, x.ast)))
                if p is None:
                    c.ok(where(u, st), f'every normal path from `{U(st)}` reaches process_event({var})')
                else:
                    c.fail(u, f'normal path from {U(st)} avoids process_event({var})', 'a dequeued event can be dropped without being processed', node=st, witness=c.path(n, p))
        else:
            # the run-loop shape: task = create_task(queue.get()); ... return await task  -> consumer step()
            check_get_next_event(c, u, call)


def parent_of(n: ast.AST):
    from sa.loader import parent

    return parent(n)


def check_get_next_event(c: Ctx, u: Unit, call: ast.Call) -> None:
    g = c.cfg(u)
    st = q.stmt_of(call)
    if not (isinstance(st, ast.Assign) and isinstance(st.targets[0], ast.Name) and isinstance(st.value, ast.Call) and call_name(st.value) in ('create_task', 'ensure_future')):
        c.fail(u, f'dequeue in unrecognised form: {U(st)}', 'dequeue site whose value flow cannot be followed', node=st)
        return
    task = st.targets[0].id
    # the done-set of asyncio.wait({task}) : `done, pending = await asyncio.wait({task}, ...)`
    waits = [n for n in g.live_nodes() if n.kind == 'stmt' and isinstance(n.ast, ast.Assign) and q.node_calls(n, 'wait') and task in U(n.ast.value)]
    wf = [n for n in g.live_nodes() if q.node_calls(n, 'wait_for') and any(x.args and task in U(x.args[0]) for x in q.node_calls(n, 'wait_for'))]
    if wf and not waits:
        c.fail(u, f'the pending `{task}` (queue.get()) is awaited through asyncio.wait_for', 'wait_for cancels the get() task when the poll timeout fires; a get() that was handed an item in that same loop iteration '
               'is cancelled with the item already removed from the queue: an accepted event is lost (it stays pending in the history for ever)', node=wf[0].ast, witness=[f'{wf[0].where()}  {wf[0].text()}'])
        return
    if len(waits) != 1 or not isinstance(waits[0].ast.targets[0], ast.Tuple):
        raise AnalysisError(f'{u}: expected `done, pending = await asyncio.wait({{{task}}}, ...)`')
    done_var = U(waits[0].ast.targets[0].elts[0])
    run_atom = f'{u.params()[0]}._is_running'
    facts = Facts(lambda a: a in (done_var, run_atom), cg=c.cg, unit=u)

    def returns_none(n, d):
        if n.kind != 'return':
            return False
        v = n.ast.value
        drops = v is None or (isinstance(v, ast.Constant) and v.value is None)
        return drops and d.get(done_var) in ('T', 'Ty') and d.get(run_atom) not in ('F', 'Fy', 'N')

    p = q.reach_search(g, [(waits[0], {})], returns_none, facts=facts, exc_ok=lambda e: False, skip_exc_from=waits[0])
    if p is None:
        c.ok(where(u, st), f'when the wait reports {task} done, every normal path returns `await {task}` (drop allowed only under `not {run_atom}`)')
    else:
        c.fail(u, f'returns None although {done_var} is non-empty and the bus is running', 'a dequeued event can be dropped by _get_next_event', node=st, witness=c.path(waits[0], p))
    # returned value must be the awaited task
    good_returns = [n for n in g.live_nodes() if n.kind == 'return' and n.ast.value is not None and U(n.ast.value) == f'await {task}']
    # `task.result()` is the same value without a suspension, where the wait has reported the task done
    good_returns += [n for n in g.live_nodes() if n.kind == 'return' and n.ast.value is not None and U(n.ast.value) == f'{task}.result()' and q.guard_search(g, n, done_var, facts) is None]
    c.floor(len(good_returns), 1, f'`return await {task}` in {u.qualname}')
    # consumers
    callers = c.cg.callers(u)
    c.floor(len(callers), 1, f'callers of {u.qualname}')
    for cu, ccall in callers:
        cst = q.stmt_of(ccall)
        gg = c.cfg(cu)
        if not (isinstance(cst, ast.Assign) and isinstance(cst.targets[0], ast.Name)):
            c.fail(cu, f'result of _get_next_event not bound: {U(cst)}', 'a dequeued event is discarded by the caller', node=cst)
            continue
        var = cst.targets[0].id
        facts2 = Facts(lambda a: a == var, rhs_value=lambda v: 'NN' if '_get_next_event' in U(v) else None, cg=c.cg, unit=cu)
        for n in gg.nodes_of(cst):
            p2 = q.pair_search(gg, n, lambda x: process_event_call_with(x, var), facts=facts2, exc_ok=lambda e: False)
            if p2 is None:
                c.ok(where(cu, cst), f'every normal path from `{U(cst)}` with a non-None event reaches process_event({var})')
            else:
                c.fail(cu, f'normal path from {U(cst)} avoids process_event({var})', 'an event returned by _get_next_event can be dropped without being processed', node=cst, witness=c.path(n, p2))


def exec_handler_sites(c: Ctx) -> tuple[Unit, list[ast.Call]]:
    u = c.unit(SVC, 'EventBus._execute_handlers')
    target = c.unit(SVC, 'EventBus.execute_handler')
    sites = [call for cu, call in c.cg.callers(target) if cu.key == u.key]
    # a nested coroutine of _execute_handlers that awaits execute_handler exactly once on every path is a wrapper of it: the calls of the wrapper are the sites
    known = c.prog._known
    new_methods = [x for x in c.prog.units.values() if x.module == SVC and x.cls == 'EventBus' and (x.module, x.qualname) not in known and x.key != u.key]
    for w in list(c.prog.nested(u)) + new_methods:
        inner = [call for cu, call in c.cg.callers(target) if cu.key == w.key]
        if not inner or not w.is_async:
            continue
        if not any(cu.key == u.key for cu, _ in c.cg.callers(w)):
            continue
        if any(q.enclosing(x, (ast.For, ast.AsyncFor, ast.While)) is not None for x in inner):
            continue  # a helper that loops over the handlers is not a wrapper of one call (the inliner folds it into _execute_handlers when it can)
        gw = c.cfg(w)
        call_nodes = {n.id for n in gw.live_nodes() if q.node_calls(n, 'execute_handler')}
        from sa.cfg import search

        skip = search([(gw.entry, ())], is_target=lambda n, d: n.kind == 'exit', is_barrier=lambda n, d: n.id in call_nodes, edge_ok=lambda n, e, d: None if e.is_exc else d)
        if skip is not None or any(not isinstance(parent_of(x), ast.Await) for x in inner):
            c.fail(w, f'{w.name} does not await execute_handler on every path', 'a handler can be skipped by its wrapper', node=inner[0], witness=c.path(gw.entry, skip) if skip else [])
            continue
        HANDLER_WRAPPERS[id(c.prog)] = HANDLER_WRAPPERS.get(id(c.prog), {})
        HANDLER_WRAPPERS[id(c.prog)][w.name] = w
        sites += [call for cu, call in c.cg.callers(w) if cu.key == u.key]
    return u, sorted(sites, key=lambda x: x.lineno)


HANDLER_WRAPPERS: dict[int, dict[str, Unit]] = {}


@ob('C01.4', 'SHAPE/ESC', 'both branches of _execute_handlers iterate all applicable handlers; each iteration makes exactly one execute_handler call; no '
    'break/return/raise leaves the loops; only non-Exception types (cancellation) escape an iteration')
def c01_4(c: Ctx) -> None:
    u, sites = exec_handler_sites(c)
    c.floor(len(sites), 2, 'execute_handler call sites in _execute_handlers (serial + parallel)')
    g = c.cfg(u)
    for call in sites:
        src = check_handler_site(c, u, g, call)
        if src is None:
            continue
        params = u.params()
        base = src.split('.items()')[0].split('.values()')[0]
        defs = [n for n in own_nodes_list(u) if isinstance(n, (ast.Assign, ast.AnnAssign)) and any(isinstance(t, ast.Name) and t.id == base for t in (n.targets if isinstance(n, ast.Assign) else [n.target]))]
        okflow = base in params or any(('_get_applicable_handlers' in U(d.value) or any(p in U(d.value) for p in params[2:3])) for d in defs if d.value is not None)
        if okflow and (src.endswith('.items()') or src.endswith('.values()')):
            c.ok(where(u, call), f'handlers are taken from {src} (all applicable handlers)')
        else:
            c.fail(u, f'handler loop iterates {src}', 'the handler loop does not iterate the full applicable-handler mapping', node=call)


def check_handler_site(c: Ctx, u: Unit, g, call: ast.Call) -> str | None:
    """One execute_handler call site of _execute_handlers: exactly one call per applicable handler, every handler awaited, errors of one
    handler never prevent the others from being awaited.  Returns the text of the iterated source (None if already reported)."""
    loop = q.enclosing(call, (ast.For, ast.AsyncFor))
    comp = next((a for a in q.ancestors_of(call) if isinstance(a, (ast.ListComp, ast.GeneratorExp, ast.SetComp, ast.DictComp))), None)
    awaited = isinstance(parent_of(call), ast.Await)
    if awaited:
        if loop is None:
            c.fail(u, f'execute_handler call outside a loop: {q.stmt_text(q.stmt_of(call))}', 'execute_handler is not called once per applicable handler', node=call)
            return None
        check_handler_loop(c, u, g, loop, call, 'execute_handler')
        return U(loop.iter)
    st = q.stmt_of(call)
    spawn = parent_of(call)
    if isinstance(spawn, ast.Call) and isinstance(spawn.func, ast.Attribute) and spawn.func.attr == 'create_task' and isinstance(spawn.func.value, ast.Name):
        tg = next((w for w in q.ancestors_of(call) if isinstance(w, ast.AsyncWith) and any(
            isinstance(it.context_expr, ast.Call) and U(it.context_expr.func).split('.')[-1] == 'TaskGroup' and isinstance(it.optional_vars, ast.Name) and it.optional_vars.id == spawn.func.value.id
            for it in w.items)), None)
        if tg is not None:
            # structured concurrency: the group waits for every task, but the first task that fails with anything but CancelledError cancels all the others
            H = c.an.fm.h
            raised = sorted(str(t) for t in c.an.fm.call_raises_as_awaited(call, u) if H.is_sub(t.name, 'Exception') or (not t.exact and H.is_sub('Exception', t.name)))
            if loop is not None:
                check_handler_loop(c, u, g, loop, call, 'execute_handler')
            if raised:
                c.fail(u, f'handler tasks run in an asyncio.TaskGroup although execute_handler can raise {raised[:3]}',
                       'a TaskGroup cancels every remaining handler task as soon as one handler task fails (error or timeout): sibling handlers are cut off with CancelledError', node=tg)
            else:
                c.ok(where(u, tg), 'handler tasks run in an asyncio.TaskGroup and execute_handler raises nothing but cancellation: every task is awaited, none is cancelled by a sibling')
            return U(loop.iter) if loop is not None else None
    if comp is not None:
        if len(comp.generators) != 1 or comp.generators[0].ifs:
            c.fail(u, f'handler tasks created by a filtered / nested comprehension: {U(comp)[:70]}', 'not every applicable handler gets a task', node=call)
            return None
        if not (isinstance(st, (ast.Assign, ast.AnnAssign)) and isinstance((st.targets[0] if isinstance(st, ast.Assign) else st.target), ast.Name)):
            c.fail(u, f'handler tasks not bound: {q.stmt_text(st, 70)}', 'handler tasks are created but never awaited', node=st)
            return None
        container = (st.targets[0] if isinstance(st, ast.Assign) else st.target).id
        src = U(comp.generators[0].iter)
        c.ok(where(u, call), f'one execute_handler task per element of {src} (collected in `{container}`)')
    elif loop is not None and isinstance(spawn, ast.Call) and isinstance(parent_of(spawn), ast.Call) and call_name(parent_of(spawn)) in ('append', 'add') and isinstance(parent_of(spawn).func, ast.Attribute):
        # `tasks.append(create_task(..))`: collected without being bound to a name first
        check_handler_loop(c, u, g, loop, call, 'execute_handler')
        container = U(parent_of(spawn).func.value)
        src = U(loop.iter)
    elif loop is not None:
        check_handler_loop(c, u, g, loop, call, 'execute_handler')
        if not (isinstance(st, ast.Assign) and isinstance(st.targets[0], ast.Name)):
            c.fail(u, f'task for execute_handler not bound: {q.stmt_text(st)}', 'handler task is created but never awaited', node=st)
            return None
        tname = st.targets[0].id
        stores = [n for n in ast.walk(loop) if isinstance(n, ast.Assign) and isinstance(n.targets[0], ast.Subscript) and tname in {x.id for x in ast.walk(n.value) if isinstance(x, ast.Name)}]
        appends = [n for n in ast.walk(loop) if isinstance(n, ast.Call) and call_name(n) == 'append' and n.args and tname in {x.id for x in ast.walk(n.args[0]) if isinstance(x, ast.Name)}]
        if stores:
            container = U(stores[0].targets[0].value)  # type: ignore[union-attr]
        elif appends:
            container = U(appends[0].func.value)  # type: ignore[union-attr]
        else:
            c.fail(u, f'task {tname} is not stored for awaiting', 'handler tasks are not collected', node=st)
            return None
        src = U(loop.iter)
    else:
        c.fail(u, f'execute_handler task created outside a loop: {q.stmt_text(st)}', 'execute_handler is not called once per applicable handler', node=call)
        return None
    # every collected task is awaited, and one handler's error does not stop the waiting for the others
    gathers = [n for n in own_nodes_list(u) if isinstance(n, ast.Await) and isinstance(n.value, ast.Call) and call_name(n.value) == 'gather'
               and any(isinstance(a, ast.Starred) and container in U(a.value) for a in n.value.args)]
    loops2 = [n for n in own_nodes_list(u) if isinstance(n, ast.For) and n is not loop and container in U(n.iter)]
    waits_all = [n for n in own_nodes_list(u) if isinstance(n, ast.Await) and isinstance(n.value, ast.Call) and U(n.value.func) in ('asyncio.wait', 'wait') and n.value.args and container in U(n.value.args[0])]
    if waits_all and not gathers:
        for wn in waits_all:
            rw = q.kw(wn.value, 'return_when')
            why = 'asyncio.wait() does not forward a cancellation of the waiting task to the handler tasks (awaiting each task does): when the waiter is cancelled — a parent handler\'s timeout, stop() — the handlers keep ' \
                  'running as orphans, are never recorded as cancelled, and the next event starts while they run'
            if rw is not None and 'ALL_COMPLETED' not in U(rw):
                why = f'asyncio.wait(return_when={U(rw)}) returns before every handler task has finished'
            c.fail(u, f'handler tasks awaited with `{U(wn)[:60]}`', why, node=wn)
        return src
    if gathers:
        for gth in gathers:
            rex = q.kw(gth.value, 'return_exceptions')
            if isinstance(rex, ast.Constant) and rex.value is True:
                c.ok(where(u, gth), 'asyncio.gather(*tasks, return_exceptions=True) waits for every handler task and contains their errors')
            else:
                c.fail(u, f'handler tasks awaited with gather() without return_exceptions=True: {U(gth)[:70]}',
                       'gather returns at the first handler error while sibling handlers are still running: process_event finishes (and releases the lock) early, later events overlap them, and the event is never re-checked for completion', node=gth)
    elif len(loops2) == 1:
        aw = [x for x in ast.walk(loops2[0]) if isinstance(x, ast.Await)]
        if len(aw) != 1:
            c.fail(u, f'await loop over {container} has {len(aw)} awaits', 'handler tasks are not awaited exactly once each', node=loops2[0])
        else:
            check_handler_loop(c, u, g, loops2[0], aw[0], 'await task')
    elif len(loops2) > 1 and isinstance(spawn, ast.Call) and call_name(spawn) == 'create_task':
        # several await loops over the container (e.g. one per handler on a serial bus, one at the end on a parallel bus): each must be a proper await loop, and no path
        # from the creation of a task to the end of the function may avoid all of them while the container still holds the task
        from .common import serial_task_discipline, task_completion_barriers

        for lp2 in loops2:
            aw = [x for x in ast.walk(lp2) if isinstance(x, ast.Await)]
            if len(aw) == 1:
                check_handler_loop(c, u, g, lp2, aw[0], 'await task')
        from sa.cfg import search as _search2

        barriers = task_completion_barriers(u, g, spawn)

        def post(n_, env):
            if n_.kind == 'stmt' and n_.ast is not None:
                for x in ast.walk(n_.ast):
                    if isinstance(x, ast.Call) and isinstance(x.func, ast.Attribute) and isinstance(x.func.value, ast.Name):
                        if x.func.attr in ('append', 'add'):
                            env[x.func.value.id] = 'Ty'
                        elif x.func.attr == 'clear':
                            env[x.func.value.id] = 'F'

        fx = Facts(lambda a: a.isidentifier() or a.endswith('.parallel_handlers'), cg=c.cg, unit=u, post=post)
        miss = None
        for start in g.nodes_of(st):
            miss = miss or _search2([(start, ())], is_target=lambda n_, d: n_.kind == 'exit', is_barrier=lambda n_, d: n_.id in barriers,
                                    edge_ok=lambda n_, e, d: None if e.is_exc else fx.edge_ok(n_, e, d), transfer=fx.transfer)
        if miss is None and barriers:
            c.ok(where(u, st), f'every task put into {container} is awaited by one of {len(loops2)} await loops before the function returns')
        else:
            c.fail(u, f'a task put into {container} can reach the end of the function without being awaited', 'handler tasks are not all awaited', node=st, witness=c.path(g.nodes_of(st)[0], miss) if miss else [])
    else:
        c.fail(u, f'no unique construct awaiting the tasks in {container}', 'handler tasks are not all awaited', node=st)
    return src


def check_handler_loop(c: Ctx, u: Unit, g, loop: ast.For, inner: ast.AST, what: str) -> None:
    heads = g.nodes_of(loop, ('for',))
    if len(heads) != 1:
        raise AnalysisError(f'{u}: loop at line {loop.lineno} has {len(heads)} CFG heads')
    head = heads[0]
    n_calls = sum(1 for x in ast.walk(loop) if isinstance(x, type(inner)) and (not isinstance(inner, ast.Call) or (isinstance(x, ast.Call) and call_name(x) == call_name(inner))))
    if n_calls != 1:
        c.fail(u, f'{n_calls} `{what}` per iteration in loop over {U(loop.iter)}', f'an iteration performs {n_calls} {what} (must be exactly one)', node=loop)
    inside = {id(x) for b in loop.body for x in ast.walk(b)}
    body = {n.id for n in g.live_nodes() if n.ast is not None and id(n.ast) in inside}
    H = c.an.fm.h
    bad = []
    for n in g.live_nodes():
        if n.id not in body:
            continue
        for e in n.succ:
            if e.dst.id in body or e.dst is head:
                continue
            if e.is_exc and not H.is_sub(e.exc.name, 'Exception') and not (not e.exc.exact and H.is_sub('Exception', e.exc.name)):
                continue  # cancellation / BaseException leaves the loop: allowed
            bad.append((n, e))
    # every iteration performs it: no path from the start of the body back to the loop head avoids the call (a `continue` under some flag skips a handler)
    inner_nodes = {n.id for n in g.live_nodes() if n.ast is not None and any(x is inner for x in ast.walk(n.ast)) and n.id in body}
    if inner_nodes:
        from sa.cfg import search as _search

        starts = [e.dst for e in head.succ if e.label == 'iter' and e.dst.id not in inner_nodes]
        skip = _search([(s_, ()) for s_ in starts], is_target=lambda n, d: n is head, is_barrier=lambda n, d: n.id in inner_nodes, edge_ok=lambda n, e, d: None if e.is_exc else d) if starts else None
        if skip is not None:
            c.fail(u, f'an iteration of the loop over {U(loop.iter)} can skip `{what}`', f'a handler can be skipped: some path through the loop body reaches the next iteration without `{what}`', node=loop,
                   witness=c.path(starts[0], skip))
    if not bad:
        c.ok(where(u, loop), f'loop over {U(loop.iter)}: one `{what}` per iteration; only cancellation can leave the loop early', body_nodes=len(body))
    for n, e in bad:
        lab = f'raises {e.exc}' if e.is_exc else e.label
        c.fail(u, f'loop over {U(loop.iter)} left early via {lab} at `{n.text(80)}`', f'the handler loop can be left before all handlers ran ({lab}): later handlers are skipped', node=n.ast,
               witness=[f'{n.where()}  {n.text()}', f'  --{lab}--> {e.dst.where()}  {e.dst.text()}'])


def handler_invocations(c: Ctx) -> list[tuple[Unit, ast.Call]]:
    """Calls of a *handler value*: an opaque callee whose annotation mentions EventHandler or that was read from `.handlers`."""
    out = []
    for key, lst in c.cg.edges.items():
        u = c.prog.units[key]
        if u.module not in (SVC, MOD):
            continue
        for call, r in lst:
            if r != 'opaque' or not isinstance(call.func, ast.Name):
                continue
            nm = call.func.id
            t = c.prog.infer(call.func, u)
            is_handler = t is not None and 'EventHandler' in str(t) and 'Filter' not in str(t)
            if not is_handler:
                from sa.loader import own_nodes_with_lambdas

                scope = u
                while scope is not None and not is_handler:
                    for n in own_nodes_with_lambdas(scope.node):
                        src = None
                        if isinstance(n, (ast.For, ast.comprehension)) and any(isinstance(x, ast.Name) and x.id == nm for x in ast.walk(n.target)):
                            src = n.iter
                        elif isinstance(n, ast.Assign) and any(isinstance(t2, ast.Name) and t2.id == nm for t2 in n.targets):
                            src = n.value
                        if src is not None and ('.handlers' in U(src) or 'applicable_handlers' in U(src)):
                            is_handler = True
                    scope = scope.outer
            if is_handler:
                out.append((u, call))
    return sorted(out, key=lambda x: (x[0].module, x[1].lineno))


@ob('C01.5', 'DOM', 'before it marks the result started, execute_handler raises exactly when the handler\'s result record has already started (started / completed / error) and passes '
    "when there is none or a pending one (decided by evaluating the prefix over the five states); every invocation of the handler value is dominated by the 'started' mark; "
    '_would_create_loop returns True for every existing pending/started/finished result')
def c01_5(c: Ctx) -> None:
    u = c.unit(SVC, 'EventBus.execute_handler')
    g = c.cfg(u)
    inv = [(x, call) for x, call in handler_invocations(c) if x.key == u.key]
    c.floor(len(inv), 2, 'handler invocations in execute_handler (async via create_task, sync direct)')
    # (marking the result 'started': through the event, or directly on the record process_event pre-registered)
    started_updates = [n for n in g.live_nodes() if any(call_name(cl) in ('event_result_update', 'update') and q.kw(cl, 'status') is not None and U(q.kw(cl, 'status')) == "'started'" for cl in q.node_calls(n))]
    # the already-started guard, decided by evaluating the function's prefix (everything before the statement that marks the result 'started') over the states the handler's result
    # record can be in: it must raise for a record that has started (started / completed / error) and fall through for no record or a pending one
    body = [st_ for st_ in u.node.body if not (isinstance(st_, ast.Expr) and isinstance(st_.value, ast.Constant))]
    upd_idx = next((i for i, st_ in enumerate(body) if any(isinstance(x, ast.Call) and call_name(x) in ('event_result_update', 'update') and q.kw(x, 'status') is not None and U(q.kw(x, 'status')) == "'started'"
                                                            for x in ast.walk(st_))), None)
    guard_ok = False
    if upd_idx is not None:
        eps = u.params()
        ov = {'get_handler_id': lambda *a: 'HID', 'get_handler_name': lambda *a: 'name', 'str': lambda *a: 's', 'id': lambda *a: 1}
        verdicts = []
        for status, started, done in [(None, None, None), ('pending', None, None), ('started', 'T0', None), ('completed', 'T0', 'T1'), ('error', 'T0', 'T1')]:
            results = {} if status is None else {'HID': Rec(status=status, started_at=started, completed_at=done, handler_id='HID')}
            ai = AbsInt(calls=ov)
            env = {eps[0]: Obj('EventBus', 'b'), eps[1]: Rec(event_results=results, event_id='E', event_path=['b'], event_parent_id=None), eps[2]: Obj('function', 'h')}
            ai.run(body[:upd_idx], env)
            if ai.undecided:
                raise AnalysisError(f'execute_handler: test `{U(ai.undecided[0])[:70]}` before the started mark is undecided for an existing result in state {status}')
            verdicts.append((status, bool(ai.raised), bool(ai.returns)))
        wrong = [(s_, r_) for s_, r_, ret_ in verdicts if r_ != (s_ in ('started', 'completed', 'error')) or ret_]
        if not wrong:
            guard_ok = True
            c.ok(where(u, body[upd_idx]), "before marking the result 'started', execute_handler raises exactly when the record has already started (started / completed / error); no record or a pending one passes")
        else:
            for s_, r_ in wrong:
                if s_ in ('started', 'completed', 'error'):
                    c.fail(u, f'no refusal for an existing result in state {s_}', f'the double-execution guard (raise when the result already has started_at) is gone for a result in state {s_!r}: a handler can be invoked '
                           'although its result already records a start', node=body[upd_idx])
                else:
                    c.fail(u, f'refuses a handler whose result is {s_ or "absent"}', f'execute_handler refuses a handler that has not run yet (result {s_ or "absent"}): it is never invoked for this event', node=body[upd_idx])
    for _, call in inv:
        st = q.stmt_of(call)
        for n in g.nodes_of(st):
            if upd_idx is None:
                pass  # reported below: no started mark at all
            elif guard_ok:
                # the guard sits in the prefix: the invocation must come after the started mark (checked next), hence after the guard
                pass
            if not started_updates:
                c.fail(u, "no event_result_update(status='started') before handler invocation", "the handler runs without its result being marked 'started' first", node=st)
            else:
                sid = {x.id for x in started_updates}
                from sa.cfg import search

                p = search([(g.entry, ())], is_target=lambda x, d: x is n, is_barrier=lambda x, d: x.id in sid)
                if p is None:
                    c.ok(where(u, st), f"`{q.stmt_text(st, 60)}` is dominated by event_result_update(status='started')")
                else:
                    c.fail(u, f"handler invocation `{q.stmt_text(st, 60)}` not dominated by status='started' update", "the handler can run before its result is marked 'started' (re-dispatch would run it again)", node=st, witness=c.path(g.entry, p))
    # _would_create_loop second check: finite case split evaluated abstractly
    w = c.unit(SVC, 'EventBus._would_create_loop')
    ps = w.params()
    cases = [('pending', None), ('started', None), ('completed', 'T1'), ('error', 'T1')]
    overrides = {
        'hasattr': lambda *a: False, 'inspect.ismethod': lambda *a: False, 'inspect.isfunction': lambda *a: True,
        'inspect.iscoroutinefunction': lambda *a: False, 'get_handler_id': lambda *a: 'HID', 'get_handler_name': lambda *a: 'name',
        '._handler_dispatched_ancestor': lambda *a: 0, 'isinstance': lambda *a: False, 'str': lambda *a: 's', 'id': lambda *a: 1,
    }  # fmt: skip
    for status, done in cases + [(None, None)]:
        results = {} if status is None else {'HID': Rec(status=status, completed_at=done, started_at=None if status == 'pending' else 'T0')}
        ai = AbsInt(calls=overrides, program=c.prog, module=w.module)
        env = {ps[0]: Obj('EventBus', 'b'), ps[1]: Rec(event_results=results, event_path=['b'], event_id='E', event_parent_id=None), ps[2]: Obj('function', 'h')}
        ai.run(w.node.body, bind_defaults(w, env))
        rets = ai.returns
        if ai.undecided:
            raise AnalysisError(f'_would_create_loop: test `{U(ai.undecided[0])[:70]}` is undecided for existing result state {status} (both branches would have to be followed: no verdict)')
        if not rets or any(r is UNKNOWN for r in rets):
            raise AnalysisError(f'_would_create_loop: return value undecided for existing result state {status}')
        want = status is not None
        desc = f'existing result status={status!r} completed_at={"set" if done else None}' if status else 'no existing result for this handler'
        if rets == [want]:
            c.ok(where(w), f'_would_create_loop with {desc} -> {want}')
        else:
            c.fail(w, f'{desc} -> returns {rets}', f'_would_create_loop returns {rets} for {desc} (must be {want}): ' + ('the handler would run a second time for the same event' if want else 'a fresh handler would be skipped'))


def _processes_what_it_dequeued(cu: Unit, call: ast.Call) -> bool:
    if not call.args or not isinstance(call.args[0], ast.Name) or not isinstance(call.func, ast.Attribute):
        return False
    var, recv = call.args[0].id, U(call.func.value)
    defs = [n.value for n in own_nodes(cu.node) if isinstance(n, (ast.Assign, ast.AnnAssign)) and n.value is not None
            and any(isinstance(t, ast.Name) and t.id == var for t in (n.targets if isinstance(n, ast.Assign) else [n.target]))]
    if var in cu.params():
        return False
    deq = [d for d in defs if U(d) in (f'{recv}.event_queue.get_nowait()', f'await {recv}.event_queue.get()')]
    rest = [d for d in defs if d not in deq and not (isinstance(d, ast.Constant) and d.value is None)]
    return bool(deq) and not rest


@ob('C01.6', 'WMC', 'handler values are invoked only in execute_handler; execute_handler is called only by _execute_handlers; that only by process_event; '
    'that only by step and the inline processing loop')
def c01_6(c: Ctx) -> None:
    inv = handler_invocations(c)
    c.floor(len(inv), 2, 'handler invocation sites')
    owner = c.unit(SVC, 'EventBus.execute_handler')
    owners = c.cg.owners_closure({owner.key})
    for u, call in inv:
        if u.key in owners:
            c.ok(where(u, call), f'handler value invoked in {u.qualname}')
        else:
            c.fail(u, f'handler value invoked: {U(call)}', f'a handler is invoked outside execute_handler (in {u.qualname}): it bypasses result bookkeeping, guards and timeouts', node=call)
    chain = [
        ('EventBus.execute_handler', {(SVC, 'EventBus._execute_handlers')}),
        ('EventBus._execute_handlers', {(SVC, 'EventBus.process_event')}),
        ('EventBus.process_event', {(SVC, 'EventBus.step'), (MOD, await_coro(c).qualname)}),
    ]
    for name, allowed in chain:
        t = c.unit(SVC, name)
        cs = c.cg.callers(t)
        c.floor(len(cs), 1, f'callers of {name}')
        own = c.cg.owners_closure(set(allowed) - {t.key})
        for cu, call in cs:
            if cu.key in own:
                c.ok(where(cu, call), f'{name} called from {cu.qualname}')
            elif name == 'EventBus.process_event' and _processes_what_it_dequeued(cu, call):
                # a consumer of its own: it takes the event off the bus's queue itself, so every dequeue-site obligation (C01.3 reaches process_event, C02.4 under the lock,
                # C10.5 task_done pairing, C16.4 not on a stopped bus) is checked at that site
                c.ok(where(cu, call), f'{name} called from {cu.qualname} with the event it has just taken off the queue (checked as a dequeue site)')
            else:
                c.fail(cu, f'calls {name}: {q.stmt_text(q.stmt_of(call), 80)}', f'{name} is called from {cu.qualname}, outside the delivery chain', node=call)


@ob('C01.7', 'WMW', 'the handler registry is mutated only by on() (append), by expect() removing its own temporary handler, and by stop(clear=True); nothing else '
    'unsubscribes or re-orders handlers (a handler removed behind the user\'s back is a skipped delivery)')
def c01_7(c: Ctx) -> None:
    ws = [w for w in c.cg.all_writes('handlers') if w.unit.module in (SVC, MOD)]
    c.floor(len(ws), 3, 'mutations of the handler registry')
    on = c.unit(SVC, 'EventBus.on')
    ex = c.unit(SVC, 'EventBus.expect')
    stop = c.unit(SVC, 'EventBus.stop')
    init = c.unit(SVC, 'EventBus.__init__')
    temp = [v.name for v in c.prog.nested(ex) if not v.is_async]
    check_on_always_registers(c)
    for w in ws:
        okw = False
        why = ''
        if w.unit.key == init.key and w.how == 'assign':
            okw, why = True, 'registry created in __init__'
        elif w.unit.key == on.key and w.how == 'append@item':
            okw, why = True, 'on() appends the handler'
        elif w.unit.key == ex.key and w.how == 'remove@item' and isinstance(w.node, ast.Call) and w.node.args and U(w.node.args[0]) in temp:
            okw, why = True, 'expect() removes its own temporary handler'
        elif w.unit.key == stop.key and w.how == 'clear':
            g = c.cfg(stop)
            facts = Facts(lambda a: a == 'clear', cg=c.cg, unit=stop)
            okw = all(q.guard_search(g, n, 'clear', facts) is None for n in g.nodes_of(q.stmt_of(w.node)))
            why = 'stop(clear=True) clears the registry'
        if okw:
            c.ok(where(w.unit, w.node), why)
        else:
            c.fail(w.unit, f'mutates the handler registry ({w.how}): {U(w.node)[:70]}', f'handlers are removed / replaced / re-ordered in {w.unit.qualname}: a registered handler can be skipped for later events', node=w.node)


def check_on_always_registers(c: Ctx) -> None:
    """on() files the handler on every path that returns normally (a policy that skips a registration — e.g. because a handler of the same *name* exists — drops somebody's handler)."""
    on = c.unit(SVC, 'EventBus.on')
    g = c.cfg(on)
    regs = {n.id for n in g.live_nodes() if any(call_name(x) in ('append', 'setdefault', 'insert') and isinstance(x.func, ast.Attribute) and 'handlers' in U(x.func.value) for x in q.node_calls(n))}
    if not regs:
        c.fail(on, 'on() never appends to self.handlers', 'handlers are not registered')
        return
    from sa.cfg import search

    p = search([(g.entry, ())], is_target=lambda n, d: n.kind == 'exit', is_barrier=lambda n, d: n.id in regs, edge_ok=lambda n, e, d: None if e.is_exc else d)
    if p is None:
        c.ok(where(on), 'every normal return of on() has appended the handler to self.handlers[key]')
    else:
        c.fail(on, 'on() can return without registering the handler', 'a handler passed to on() (in particular expect()\'s temporary handler, whose generated name collides between concurrent calls) is silently not '
               'registered: it is never delivered / expect() times out although a matching event was processed', witness=c.path(g.entry, p))


@ob('C01.8', 'MPT', 'a dispatch that returns normally has enqueued the event (same obligation as C14.3): otherwise an "accepted" event is delivered to no handler')
def c01_8(c: Ctx) -> None:
    from .c14 import c14_3

    c14_3(c)


def _subst_name(e: ast.AST, old: str, new: str) -> ast.AST:
    import copy

    class T(ast.NodeTransformer):
        def visit_Call(self, node):
            self.generic_visit(node)
            if isinstance(node.func, ast.Name) and node.func.id == 'str' and len(node.args) == 1 and U(node.args[0]) == new:
                return node.args[0]  # str(s) of a str is s
            return node

        def visit_Attribute(self, node):
            if U(node) == old:
                return ast.copy_location(ast.Name(id=new, ctx=ast.Load()), node)
            self.generic_visit(node)
            return node

        def visit_Name(self, node):
            return ast.copy_location(ast.Name(id=new, ctx=node.ctx), node) if node.id == old else node

    return T().visit(copy.deepcopy(e))


def _ascii_only_regex(pat: str) -> bool | None:
    """True: the pattern can only match ASCII strings (explicit literals / ranges); False: it uses unicode-aware classes; None: cannot tell."""
    try:
        import re._parser as rp  # type: ignore[import-not-found]
    except Exception:
        return None
    try:
        tree = rp.parse(pat)
    except Exception:
        return None

    def walk(items) -> bool | None:
        for op, av in items:
            name = str(op)
            if name == 'LITERAL':
                if av > 127:
                    return False
            elif name == 'IN':
                for o2, a2 in av:
                    n2 = str(o2)
                    if n2 == 'CATEGORY' or n2 == 'NEGATE':
                        return False
                    if n2 == 'RANGE' and a2[1] > 127:
                        return False
                    if n2 == 'LITERAL' and a2 > 127:
                        return False
            elif name in ('MAX_REPEAT', 'MIN_REPEAT'):
                r = walk(av[2])
                if r is not True:
                    return r
            elif name == 'SUBPATTERN':
                r = walk(av[3])
                if r is not True:
                    return r
            elif name == 'BRANCH':
                for alt in av[1]:
                    r = walk(alt)
                    if r is not True:
                        return r
            elif name == 'AT':
                continue
            else:
                return False if name in ('ANY', 'CATEGORY', 'NOT_LITERAL') else None
        return True

    return walk(tree)


@ob('C01.9', 'SIB', 'every bus name the EventBus constructor accepts is accepted by the validator of the fields that record it (EventResult.eventbus_name, event_path entries): '
    'otherwise the pending result of every handler fails validation in process_event, no handler of that bus is ever invoked and its events never complete')
def c01_9(c: Ctx) -> None:
    from sa.facts import entails

    init = c.unit(SVC, 'EventBus.__init__')
    self_ = init.params()[0]
    asserts = [n for n in own_nodes_list(init) if isinstance(n, ast.Assert) and f'{self_}.name' in U(n.test)]
    if not asserts:
        c.fail(init, 'the constructor does not check the bus name', 'any string is accepted as a bus name, although the data model records bus names as validated identifiers')
        return
    # the validator behind the annotation of EventResult.eventbus_name
    er = c.prog.cls('EventResult')
    ann = next((st.annotation for st in er.node.body if isinstance(st, ast.AnnAssign) and isinstance(st.target, ast.Name) and st.target.id == 'eventbus_name'), None)
    if ann is None:
        raise AnchorError('EventResult.eventbus_name: field not found')
    mi = c.prog.module(MOD)
    alias = next((st for st in mi.tree.body if isinstance(st, (ast.AnnAssign, ast.Assign)) and U(st.target if isinstance(st, ast.AnnAssign) else st.targets[0]) == U(ann)), None)
    vname = None
    if alias is not None and alias.value is not None:
        for x in ast.walk(alias.value):
            if isinstance(x, ast.Call) and call_name(x) in ('AfterValidator', 'BeforeValidator', 'PlainValidator') and x.args and isinstance(x.args[0], ast.Name):
                vname = x.args[0].id
    if vname is None:
        if U(ann) == 'str':
            c.ok(where(init, asserts[0]), 'eventbus_name is a plain str: every accepted bus name can be recorded')
            return
        raise AnalysisError(f'EventResult.eventbus_name: cannot find the validator behind annotation {U(ann)}')
    v = c.unit(MOD, vname)
    vparam = v.params()[0]
    vtests = [n.test for n in own_nodes_list(v) if isinstance(n, ast.Assert)]
    if not vtests:
        raise AnalysisError(f'{v}: no assert statement in the validator')
    ctest = ast.BoolOp(op=ast.And(), values=[_subst_name(a.test, f'{self_}.name', 's') for a in asserts]) if len(asserts) > 1 else _subst_name(asserts[0].test, f'{self_}.name', 's')
    vtest_list = [_subst_name(t, vparam, 's') for t in vtests]
    vtest = ast.BoolOp(op=ast.And(), values=vtest_list) if len(vtest_list) > 1 else vtest_list[0]
    facts = Facts(lambda a: True)
    env = facts.assume(ctest, True, {})
    if env is None:
        raise AnalysisError('EventBus.__init__: the name assertion is unsatisfiable')
    env = dict(env)
    env[U(ctest)] = 'T'
    if entails(env, vtest):
        c.ok(where(init, asserts[0]), f'constructor accepts `{U(ctest)}`, which implies the recording fields\' validator `{U(vtest)}` ({vname})')
        return
    # not implied propositionally: a regular expression in the validator is classified through its syntax tree
    rx = [x for x in ast.walk(vtest) if isinstance(x, ast.Call) and call_name(x) in ('fullmatch', 'match', 'search')]
    if rx:
        pat = None
        for call in rx:
            cand = call.args[0] if isinstance(call.func, ast.Attribute) and U(call.func.value) == 're' and call.args else None
            if cand is None and isinstance(call.func, ast.Attribute) and isinstance(call.func.value, ast.Name):
                d = mi.globals_assign.get(call.func.value.id)
                if isinstance(d, ast.Call) and d.args:
                    cand = d.args[0]
            if isinstance(cand, ast.Constant) and isinstance(cand.value, str):
                pat = cand.value
        verdict = _ascii_only_regex(pat) if pat is not None else None
        if verdict is None or verdict is False:
            raise AnalysisError(f'C01.9 undecided: cannot relate the constructor test `{U(ctest)}` to the regular expression in {vname}')
        c.fail(v, f'validator {vname} accepts ASCII names only ({pat!r}) but the constructor accepts `{U(ctest)}`',
               f'a bus named with a non-ASCII identifier (e.g. "CaféOrders") is accepted by EventBus() and by dispatch, but {vname} rejects it when a handler result is created: no handler of that bus ever runs', node=vtests[0])
        return
    c.fail(init, f'constructor accepts `{U(ctest)}`, validator {vname} requires `{U(vtest)}`',
           f'EventBus() accepts names that {vname} (the validator of EventResult.eventbus_name) rejects: on such a bus the pending result of every handler fails validation in process_event, no handler is '
           'ever invoked and its events never complete', node=asserts[0])


@ob('C01.10', 'ORD', 'a forward (another bus\'s dispatch, also of an EventBus subclass) is never removed by the recursion guard and a non-forward is never removed by the path test '
    '(same obligation as C07.2): a misclassified handler is skipped for an accepted event')
def c01_10(c: Ctx) -> None:
    from .c07 import c07_2

    c07_2(c)


@ob('C01.11', 'SHAPE', 'the recursion guard counts an ancestor only when this handler has a pending, started or completed result on it: an ancestor on which the handler *failed* is not a level '
    'of recursion (counting it makes the guard fire — and an accepted event go undelivered — in retry-after-failure chains that never recursed)')
def c01_11(c: Ctx) -> None:
    u = c.unit(SVC, 'EventBus._handler_dispatched_ancestor')
    incs = [n for n in own_nodes_list(u) if (isinstance(n, ast.AugAssign) and isinstance(n.op, ast.Add)) or
            (isinstance(n, ast.Assign) and isinstance(n.value, ast.BinOp) and isinstance(n.value.op, ast.Add) and isinstance(n.value.right, ast.Constant) and n.value.right.value == 1)]
    incs = [n for n in incs if isinstance(getattr(n, 'value', None), (ast.Constant, ast.BinOp)) and (not isinstance(n, ast.AugAssign) or (isinstance(n.value, ast.Constant) and n.value.value == 1))]
    if not incs:
        raise AnalysisError(f'{u}: no `+= 1` of the recursion depth found')
    hid = u.params()[2] if len(u.params()) > 2 else 'handler_id'
    for inc in incs:
        depth_var = U(inc.target if isinstance(inc, ast.AugAssign) else inc.targets[0])
        # the statements that decide whether this ancestor counts: the stretch of the enclosing block (function body or loop body) that ends with the statement containing the
        # increment and starts after the last statement that binds the ancestor (the object whose event_results are consulted).  It is evaluated abstractly per result status.
        blk_owner = next((a for a in q.ancestors_of(inc) if isinstance(a, (ast.For, ast.While, ast.AsyncFor, ast.FunctionDef, ast.AsyncFunctionDef))), u.node)
        blk = blk_owner.body
        k = next((i for i, st_ in enumerate(blk) if st_ is inc or any(x is inc for x in ast.walk(st_))), None)
        if k is None:
            raise AnalysisError(f'{u}: the increment of the recursion depth is not in the body of its enclosing block')
        holders = {x.value.value.id for st_ in blk[: k + 1] for x in ast.walk(st_) if isinstance(x, ast.Attribute) and x.attr == 'event_results' and isinstance(x.value, ast.Name)
                   for x in [ast.Attribute(value=x, attr='', ctx=ast.Load())]}
        j = k
        while j > 0:
            prev = blk[j - 1]
            binds = {t.id for n_ in ast.walk(prev) if isinstance(n_, (ast.Assign, ast.AnnAssign, ast.AugAssign, ast.For)) for t in ast.walk(n_.target if not isinstance(n_, ast.Assign) else ast.Tuple(elts=n_.targets, ctx=ast.Store()))
                     if isinstance(t, ast.Name)}
            if binds & holders or isinstance(prev, (ast.For, ast.While, ast.AsyncFor)):
                break
            j -= 1
        verdicts = {}
        for st in ('pending', 'started', 'completed', 'error'):
            ai = AbsInt(calls={'get_handler_name': lambda *a_: 'name', 'str': lambda *a_: 's', 'id': lambda *a_: 1})
            rec = Rec(status=st, started_at=None if st == 'pending' else 'T0', completed_at='T1' if st in ('completed', 'error') else None, handler_id='HID')
            env = {h_: Rec(event_results={'HID': rec}, event_id='P', event_parent_id=None, event_path=['b']) for h_ in holders}
            env.update({hid: 'HID', depth_var: 0, u.params()[0]: Obj('EventBus', 'b')})
            out = ai.run(blk[j: k + 1], env)
            if ai.undecided:
                raise AnalysisError(f'{u}: the status filter of the recursion count is undecided (`{U(ai.undecided[0])[:60]}`) for a result in state {st}')
            final = (out or env).get(depth_var, UNKNOWN) if not ai.returns else (ai.returns[-1] if isinstance(ai.returns[-1], int) else (out or env).get(depth_var, UNKNOWN))
            if final is UNKNOWN or not isinstance(final, int):
                raise AnalysisError(f'{u}: the recursion depth after one ancestor in state {st} is undecided')
            verdicts[st] = final == 1
        want = {'pending': True, 'started': True, 'completed': True, 'error': False}
        if verdicts == want:
            c.ok(where(u, inc), 'an ancestor counts towards the recursion depth iff the handler\'s result on it is pending / started / completed')
        else:
            wrong = sorted(k for k in want if verdicts[k] != want[k])
            c.fail(u, f'recursion depth counted for result statuses {sorted(k for k, v in verdicts.items() if v)}', f'the recursion guard miscounts ancestors whose result is {wrong}: ' +
                   ('a chain in which the handler merely failed on earlier events trips "Infinite loop detected" and the accepted event is delivered to no handler' if 'error' in wrong else
                    'real recursion through those ancestors is not counted'), node=inc)


@ob('C01.12', 'DOM', 'a handler that has a pending result gets its turn: pending results of child events are turned into errors only when the handler that was waiting on them *timed out* '
    '(same obligation as C10.2) — if an ordinary failure of some handler cancels them too, a child handler that was still going to run finds its result no longer pending and is never invoked')
def c01_12(c: Ctx) -> None:
    from .c10 import c10_2

    c10_2(c)


def check_memo_coherence(c: Ctx) -> None:
    """New memo attributes (sa/memo.py) are analysed through their miss path.  That is sound only if a hit returns what the computation would return now: every writer of the
    state the computation reads must invalidate the memo.  The computations at stake read the handler registry; its writers are on() (append), expect() (removal of its temporary
    handler) and stop(clear=True).  A wildcard registration changes the answer for EVERY event type, so an invalidation by key must be total when the key is '*'."""
    from sa.cfg import search

    memos = getattr(c.prog, 'memos', {}) or {}
    if not memos:
        c.ok('bubus/*.py', 'no new memo attribute: every lookup is computed when it is needed')
        return
    writers = [w for w in c.cg.all_writes('handlers') if w.unit.module in (SVC, MOD) and not (w.unit.name == '__init__' and w.how == 'assign')]
    for a, info in sorted(memos.items()):
        fillers = {id(x) for x in info['stores']}
        fill_units = [uu for uu in c.prog.units.values() if any(id(x) in fillers for x in own_nodes_list(uu))]
        reads_handlers = any(isinstance(x, ast.Attribute) and x.attr == 'handlers' for uu in fill_units for x in own_nodes_list(uu))
        if not reads_handlers:
            c.fail(fill_units[0] if fill_units else 'bubus', f'memo {a}: the memoised computation does not read the handler registry', f'the analysis cannot name what the memo {a} depends on: whether it is '
                   'invalidated when that changes is not decided (its reads are analysed as misses)')
            continue
        # a version stamp: an attribute that is stored with every entry and compared when the entry is looked up; bumping it invalidates everything
        stamp = None
        for st_ in info['stores']:
            for x in ast.walk(st_):
                if isinstance(x, ast.Attribute) and isinstance(x.value, ast.Name) and x.value.id == 'self' and x.attr not in memos and x.attr != 'handlers' \
                        and any(f'self.{x.attr}' in t for t in info.get('hit_tests', [])):
                    stamp = x.attr

        def kind(n) -> tuple[str, str | None] | None:
            """('total', None) / ('keyed', key text) when CFG node n invalidates the memo."""
            if n.ast is None or n.kind != 'stmt':
                return None
            for x in ast.walk(n.ast):
                if isinstance(x, ast.Call) and isinstance(x.func, ast.Attribute) and isinstance(x.func.value, ast.Attribute) and x.func.value.attr == a:
                    if x.func.attr == 'clear':
                        return ('total', None)
                    if x.func.attr in ('pop', 'discard', 'remove') and x.args:
                        return ('keyed', U(x.args[0]))
                if isinstance(x, ast.Delete):
                    for t in x.targets:
                        if isinstance(t, ast.Subscript) and isinstance(t.value, ast.Attribute) and t.value.attr == a:
                            return ('keyed', U(t.slice))
                if isinstance(x, ast.Assign) and any(isinstance(t, ast.Attribute) and t.attr == a for t in x.targets) and U(x.value) in ('{}', 'set()', 'dict()'):
                    return ('total', None)
                if stamp and isinstance(x, ast.AugAssign) and isinstance(x.target, ast.Attribute) and x.target.attr == stamp and isinstance(x.op, ast.Add):
                    return ('total', None)
            return None

        # a memo of *negative* answers ("nothing is registered for k": every store sits on the else-branch of a test that is a disjunction of registry lookups) can only be
        # made wrong by an addition to the registry; removing handlers leaves it true
        def negative_store(st_) -> bool:
            gi = q.enclosing(st_, (ast.If,))
            while gi is not None and not q.lexically_in(st_, gi, 'orelse'):
                gi = q.enclosing(gi, (ast.If,))
            if gi is None:
                return False
            dis = gi.test.values if isinstance(gi.test, ast.BoolOp) and isinstance(gi.test.op, ast.Or) else [gi.test]
            return all(isinstance(x, (ast.Call, ast.Subscript)) and '.handlers' in U(x) for x in dis)

        negative = bool(info['stores']) and all(negative_store(st_) for st_ in info['stores'])
        for w in writers:
            if negative and w.how in ('remove', 'clear', 'pop', 'del', 'remove@item', 'pop@item', 'del@item', 'clear@item'):
                c.ok(where(w.unit, w.node), f'memo {a} records only "nothing registered": removing handlers ({w.unit.name}) cannot make it wrong')
                continue
            g = c.cfg(w.unit)
            wnodes = g.nodes_of(q.stmt_of(w.node))
            keys = {k[1] for n in g.live_nodes() if (k := kind(n)) and k[0] == 'keyed'}
            bad = None
            cases = [('*', None)] if not keys else [(f"{k} == '*'", k) for k in sorted(keys)] + [('*', None)]
            for wn in wnodes:
                for star_case in (True, False):
                    # wildcard case: only a total invalidation counts; otherwise a keyed one does too
                    def inval(n, star_case=star_case):
                        k = kind(n)
                        return k is not None and (k[0] == 'total' or not star_case)

                    atoms = {f"{k} == '*'" for k in keys} | {f"'*' == {k}" for k in keys}
                    fx = Facts(lambda t: t in atoms or any(t == eq_atom(k, "'*'") for k in keys), cg=c.cg, unit=w.unit)
                    env0 = {eq_atom(k, "'*'"): ('T' if star_case else 'F') for k in keys}
                    ek = lambda n, e, d: None if e.is_exc else fx.edge_ok(n, e, d)  # noqa: E731
                    before = search([(g.entry, tuple(sorted(env0.items())))], is_target=lambda n, d: n is wn, is_barrier=lambda n, d: inval(n), edge_ok=ek, transfer=fx.transfer)
                    if before is None:
                        continue  # every way to the write passes an invalidation (same synchronous stretch)
                    # (the case is fixed at the write: the key may have been computed on the way there)
                    at_write = {**dict(before[-1].env if before else ()), **env0}
                    after = search([(wn, tuple(sorted(at_write.items())))], is_target=lambda n, d: n.kind == 'exit', is_barrier=lambda n, d: n is not wn and inval(n), edge_ok=ek, transfer=fx.transfer)
                    if after is not None:
                        bad = (star_case, before, after)
            if bad is None:
                c.ok(where(w.unit, w.node), f'memo {a}: `{U(w.node)[:50]}` in {w.unit.name} is accompanied by an invalidation on every path' + (f' (version stamp {stamp})' if stamp else ''))
            else:
                what = "a registration under '*' (which changes the answer for every event type) invalidates only one key" if bad[0] and keys else 'the memo is not invalidated'
                c.fail(w.unit, f'memo {a} survives `{U(w.node)[:50]}` in {w.unit.name}', f'{what}: later events are delivered according to a stale answer (a handler registered in the meantime is skipped, a '
                       'removed one is still called, or an event runs without the lock although somebody listens now)', node=w.node, witness=c.path(bad[2][0].node if bad[2] else wnodes[0], bad[2]))


@ob('C01.13', 'COHERENCE', 'a memo in front of the handler lookup (a new attribute that keeps answers computed from the handler registry) is invalidated by every writer of the registry — on(), '
    "expect()'s removal of its temporary handler, stop(clear=True) — totally when the key is '*'; the checks analyse memoised lookups through their miss path, which this makes sound")
def c01_13(c: Ctx) -> None:
    check_memo_coherence(c)


from .common import await_coro  # noqa: E402

OBLIGATIONS = ob.obs
