"""C07 — forwarding reaches each bus once, never loops, records the path: structural necessary conditions."""

from __future__ import annotations

import ast

from .common import *  # noqa: F401,F403
from .common import bind_defaults
from .common import SVC, MOD, AbsInt, AnalysisError, Ctx, Facts, Obj, Registry, UNKNOWN, U, Unit, call_name, own_nodes, parent, q, where
from sa.absint import Rec
from . import c01

ob = Registry()


@ob('C07.1', 'WMW/DOM', 'event_path is mutated only in dispatch: by append(self.name) guarded by `self.name not in event.event_path`, and by taking that same entry back (pop of the last '
    'entry, tested to be this bus, added by this very call) on a path that ends in raising — a rejected dispatch')
def c07_1(c: Ctx) -> None:
    ws = c.cg.all_writes('event_path')
    c.floor(len(ws), 1, 'writes of event_path')
    d = c.unit(SVC, 'EventBus.dispatch')
    owners = c.cg.owners_closure({d.key})
    self_, ev = d.params()[0], d.params()[1]
    for w in ws:
        if w.unit.key not in owners:
            c.fail(w.unit, f'writes event_path: {U(w.node)[:80]}', f'event_path is modified outside dispatch (in {w.unit.qualname})', node=w.node)
            continue
        if w.how == 'pop' and isinstance(w.node, ast.Call) and not w.node.args and w.target == f'{ev}.event_path':
            # taking this bus's own entry back when the dispatch ends up rejecting the event: the last entry, it is this bus's name, the call that removes it added it
            # itself, and the dispatch does not return normally afterwards
            gq = c.cfg(w.unit)
            last_atom = f'{ev}.event_path[-1] == {self_}.name'
            fq = Facts(lambda a: a in (last_atom, f'{self_}.name == {ev}.event_path[-1]') or a.isidentifier(), cg=c.cg, unit=w.unit)
            okp = True
            from sa.cfg import search as _s

            for n in gq.nodes_of(q.stmt_of(w.node)):
                if q.guard_search(gq, n, last_atom, fq) is not None:
                    okp = False
                if _s([(n, ())], is_target=lambda x, dd: x.kind == 'exit', edge_ok=lambda x, e, dd: None if e.is_exc else dd) is not None:
                    okp = False  # the dispatch can still return normally after taking the entry back
            flags = [a.test.values if isinstance(a.test, ast.BoolOp) else [a.test] for a in q.ancestors_of(w.node) if isinstance(a, ast.If)]
            flag_names = {x.id for conj in flags for x in conj if isinstance(x, ast.Name)}
            added_here = any(isinstance(n_, ast.Assign) and isinstance(n_.targets[0], ast.Name) and n_.targets[0].id in flag_names and U(n_.value) == f'{self_}.name not in {ev}.event_path' for n_ in own_nodes(w.unit.node))
            if okp and added_here:
                c.ok(where(w.unit, w.node), 'a rejected dispatch takes back the path entry it added itself (last entry, this bus, then raises)')
            else:
                c.fail(w.unit, f'event_path entry removed: {U(w.node)[:60]}', 'a path entry is removed although the event was (or may have been) accepted by this bus: the bus has results on the event but is missing from '
                       'event_path, and loop prevention no longer protects it', node=w.node)
            continue
        if not (w.how == 'append' and isinstance(w.node, ast.Call) and len(w.node.args) == 1 and U(w.node.args[0]) == f'{self_}.name' and w.target == f'{ev}.event_path'):
            c.fail(w.unit, f'event_path write is not append(self.name): {U(w.node)[:80]}', 'event_path is rewritten / appended with something other than this bus\'s name', node=w.node)
            continue
        g = c.cfg(w.unit)
        atom = f'{self_}.name in {ev}.event_path'
        facts = Facts(lambda a: a == atom or a.isidentifier(), cg=c.cg, unit=w.unit)  # (plain locals: the test may be computed into a flag first)
        st = q.stmt_of(w.node)
        for n in g.nodes_of(st):
            p = q.guard_search(g, n, f'{self_}.name not in {ev}.event_path', facts)
            if p is None:
                c.ok(where(w.unit, w.node), 'event_path.append(self.name) only when the name is not yet in the path')
            else:
                c.fail(w.unit, 'event_path.append(self.name) not guarded by `self.name not in event.event_path`', 'a bus can appear twice in event_path (re-dispatch / forwarding cycles grow the path)', node=w.node, witness=c.path(g.entry, p))
    # every accepted dispatch records the bus: a normal return without the name in the path is impossible
    g = c.cfg(d)
    apps = {id(q.stmt_of(w.node)) for w in ws if w.unit.key == d.key}
    atom = f'{self_}.name in {ev}.event_path'
    facts = Facts(lambda a: a == atom or a.isidentifier(), cg=c.cg, unit=d)
    puts = [n for n in g.live_nodes() if q.node_calls(n, 'put_nowait')]
    for pn in puts:
        from sa.cfg import search

        p = search([(g.entry, ())], is_target=lambda n, dd: n is pn and dd.get(atom) not in ('T', 'Ty'),
                   is_barrier=lambda n, dd: n.ast is not None and id(n.ast) in apps, edge_ok=lambda n, e, dd: None if e.is_exc else facts.edge_ok(n, e, dd), transfer=facts.transfer)
        if p is None:
            c.ok(where(d, pn.ast), 'the event is enqueued only with this bus recorded in event_path')
        else:
            c.fail(d, 'enqueue reachable without this bus in event_path', 'an event can be processed by a bus that is missing from its event_path (loop prevention relies on the path)', node=pn.ast, witness=c.path(g.entry, p))


FWD_OVERRIDES = {
    'hasattr': lambda o, n: isinstance(o, Rec) and n in o,
    'isinstance': lambda o, k=None: isinstance(o, Rec) and (o.get('_cls') == 'EventBus' or 'EventBus' in o.get('_bases', ())),
    'inspect.ismethod': lambda o: isinstance(o, Rec) and '__self__' in o,
    'inspect.isfunction': lambda o: isinstance(o, Rec) and '__self__' not in o,
    'inspect.iscoroutinefunction': lambda o: False,
    'get_handler_id': lambda *a: 'HID',
    'get_handler_name': lambda *a: 'name',
    'str': lambda *a: 's',
    'id': lambda *a: 1,
}


def run_wcl(c: Ctx, handler: Rec, event: Rec, depth: int = 0):
    w = c.unit(SVC, 'EventBus._would_create_loop')
    ps = w.params()
    ov = dict(FWD_OVERRIDES)
    ov['._handler_dispatched_ancestor'] = lambda *a: depth
    ai = AbsInt(calls=ov, program=c.prog, module=w.module)
    env = {ps[0]: Rec(name='A', _cls='EventBus'), ps[1]: event, ps[2]: handler, 'EventBus': Rec(dispatch=Obj('function', 'EventBus.dispatch'), _is_class=True)}
    # what the library's own call sites hand in through parameters beyond (self, event, handler) is part of the decision: evaluate the argument expression at the call site
    # over the same abstract event / handler (an argument that cannot be evaluated is UNKNOWN: a test that depends on it is reported as undecided, never assumed)
    a = w.node.args
    names = [x.arg for x in a.posonlyargs + a.args]
    extra = [n for n in names[3:] + [k.arg for k in a.kwonlyargs]]
    for cu, call in (c.cg.callers(w) if extra else []):
        if not (isinstance(call.func, ast.Attribute) and len(call.args) >= 2 and all(isinstance(x, ast.Name) for x in call.args[:2]) and isinstance(call.func.value, ast.Name)):
            continue
        cenv = {call.func.value.id: env[ps[0]], call.args[0].id: event, call.args[1].id: handler}
        for n_ in extra:
            given = next((k.value for k in call.keywords if k.arg == n_), None)
            if given is None and n_ in names and len(call.args) > names.index(n_) - 1:
                given = call.args[names.index(n_) - 1]
            if given is None:
                continue
            v = AbsInt(calls=ov, program=c.prog, module=cu.module).ev(q.deref(cu, given), dict(cenv))
            if n_ in env and env[n_] != v:
                raise AnalysisError(f'_would_create_loop: call sites disagree on what they pass for `{n_}`')
            env[n_] = v
    end = ai.run(w.node.body, bind_defaults(w, env))
    if ai.undecided:
        raise AnalysisError(f'_would_create_loop: test `{U(ai.undecided[0])[:80]}` is undecided for handler {dict(handler)!r:.120}')
    return ai.returns, (end, ai.raised)


def handler_kinds() -> list[tuple[str, Rec, bool]]:
    """(description, abstract handler value, is it a forward to another bus?)"""
    # the target's history is bounded and may have evicted the event already (C13): the path is the only record loop prevention can rely on
    bus = Rec(name='B', id='idB', _cls='EventBus', event_history={}, handlers={})
    sub = Rec(name='B', id='idB', _cls='AuditBus', _bases=('EventBus',), event_history={}, handlers={})
    other = Rec(name='B', _cls='Other')
    return [
        ("another bus's bound dispatch", Rec(__self__=bus, __name__='dispatch', __func__=Obj('function', 'EventBus.dispatch')), True),
        ("bound dispatch of an EventBus subclass that overrides dispatch", Rec(__self__=sub, __name__='dispatch', __func__=Obj('function', 'AuditBus.dispatch')), True),
        ('bound method named dispatch of a non-bus object', Rec(__self__=other, __name__='dispatch', __func__=Obj('function', 'Other.dispatch')), False),
        ('another bound method of an EventBus', Rec(__self__=bus, __name__='on_event', __func__=Obj('function', 'EventBus.on_event')), False),
        ('plain function named dispatch', Rec(__name__='dispatch'), False),
    ]


@ob('C07.2', 'ORD', "_would_create_loop returns True for a forwarding handler (another bus's dispatch, also of an EventBus subclass) whose target bus name is already in "
    'event_path, before any other consideration, and False when it is not, at any nesting depth (forwarding is exempt from the recursion guard); a handler that is not a '
    'forward is never cut by the path test and stays subject to the recursion guard; what the library\'s own call sites pass through further parameters is evaluated at the call '
    'site and bound (not assumed to be the default)')
def c07_2(c: Ctx) -> None:
    w = c.unit(SVC, 'EventBus._would_create_loop')
    for kdesc, h, is_fwd in handler_kinds():
        in_path = Rec(event_path=['A', 'B'], event_results={}, event_id='E', event_parent_id=None)
        not_in_path = Rec(event_path=['A'], event_results={}, event_id='E', event_parent_id=None)
        deep = Rec(event_path=['A'], event_results={}, event_id='E', event_parent_id='P')
        if is_fwd:
            similar = Rec(event_path=['A', 'B2', 'SubB'], event_results={}, event_id='E', event_parent_id=None)
            only = Rec(event_path=['B'], event_results={}, event_id='E', event_parent_id=None)
            cases = [('target bus already in path', in_path, 5, [True], False), ('target bus not in path', not_in_path, 0, [False], False),
                     ('target bus is the only entry of the path (a bus that forwards to itself: bus.on(.., bus.dispatch))', only, 0, [True], False),
                     ("target bus not in path, but buses whose names contain its name are ('B2', 'SubB')", similar, 0, [False], False),
                     ('target bus not in path, deep ancestry (forwarding is exempt from the recursion guard)', deep, 5, [False], False)]
        else:
            cases = [("a bus named like the object's `name` is in the path (no forward: the path test must not apply)", in_path, 0, [False], False),
                     ('deep ancestry (the recursion guard applies)', deep, 5, [], True)]
        for desc, ev, depth, want, want_raise in cases:
            rets, (end, raised) = run_wcl(c, h, ev, depth)
            if any(r is UNKNOWN for r in rets):
                raise AnalysisError(f'_would_create_loop: undecided for {kdesc}, {desc}')
            got_raise = bool(raised) and not rets
            if rets == want and got_raise == want_raise:
                c.ok(where(w), f'{kdesc}, {desc} -> {"raises (recursion guard)" if want_raise else want[0]}')
            else:
                got = 'an exception' if got_raise else (rets or 'nothing')
                wanted = 'the recursion-guard exception' if want_raise else want[0]
                why = ('forwarding cycles are not cut' if want == [True] else 'legitimate forwarding is suppressed / the event is never delivered to the target bus') if is_fwd else \
                      ('a handler that is not a forward is exempted from the recursion guard' if want_raise else 'a handler that is not a forward is skipped by the forwarding path test')
                c.fail(w, f'{kdesc}, {desc} -> {got}', f'_would_create_loop gives {got} for {kdesc} when {desc} (must be {wanted}): {why}')


def fwd_predicates(c: Ctx) -> list[tuple[Unit, ast.AST, str]]:
    out = []
    w = c.unit(SVC, 'EventBus._would_create_loop')
    for n in own_nodes(w.node):
        if isinstance(n, ast.If) and '__self__' in U(n.test) and 'EventBus' in U(n.test):
            out.append((w, n.test, 'loop check (first)'))
        if isinstance(n, ast.Assign) and '__self__' in U(n.value) and 'EventBus' in U(n.value) and isinstance(n.value, ast.BoolOp):
            out.append((w, n.value, f'{U(n.targets[0])} (third check)'))
    return out


@ob('C07.3', 'SIB', "the predicates that recognise a forwarding handler agree (bound method, __self__ is an EventBus, __name__ == 'dispatch'); the literal names the "
    'EventBus method that enqueues; the class has no alias of it that would escape the predicate')
def c07_3(c: Ctx) -> None:
    preds = fwd_predicates(c)
    if not preds:
        c.note('no self-contained forwarding predicate expression in _would_create_loop (folded into helpers / named steps): the classification is decided by C07.2 alone')
    kinds = [
        ('bound dispatch of an EventBus', Rec(__self__=Rec(name='B', _cls='EventBus'), __name__='dispatch'), True),
        ('bound dispatch of a non-bus object', Rec(__self__=Rec(name='B', _cls='Other'), __name__='dispatch'), False),
        ('other bound method of an EventBus', Rec(__self__=Rec(name='B', _cls='EventBus'), __name__='on_event'), False),
        ('plain function', Rec(__name__='dispatch'), False),
    ]
    w = c.unit(SVC, 'EventBus._would_create_loop')
    hp = w.params()[2]
    for u, expr, label in preds:
        for desc, h, want in kinds:
            ai = AbsInt(calls=FWD_OVERRIDES)
            v = ai.truth(ai.ev(expr, {hp: h}))
            if v is None:
                # not a self-contained predicate (it refers to other locals, e.g. a condition split into named steps): the behaviour is decided by C07.2's cases
                c.note(f'forwarding predicate `{label}` is not self-contained ({desc}); decided through C07.2')
                break
            if v == want:
                c.ok(where(u, expr), f'{label}: {desc} -> {v}')
            else:
                c.fail(u, f'{label}: {desc} -> {v}', f'the forwarding-handler predicate `{label}` says {v} for {desc}; its sibling says {want}', node=expr)
    ci = c.prog.cls('EventBus')
    disp = ci.methods.get('dispatch')
    if disp is None:
        c.fail('bubus/service.py EventBus', "no method named 'dispatch'", "the literal 'dispatch' no longer names an EventBus method: forwarding handlers are not recognised")
    else:
        if any(call_name(x) == 'put_nowait' for x in own_nodes(disp.node) if isinstance(x, ast.Call)):
            c.ok(where(disp), "'dispatch' names the EventBus method that enqueues")
        else:
            c.fail(disp, 'dispatch does not enqueue', "the method named 'dispatch' is not the one that enqueues")
    aliases = [k for k, v in ci.class_assigns.items() if isinstance(v, ast.Name) and v.id == 'dispatch']
    wrappers = [m for name, m in ci.methods.items() if name != 'dispatch' and len(m.node.body) <= 2 and any(isinstance(x, ast.Return) and isinstance(x.value, ast.Call) and U(x.value.func) == f'{m.params()[0]}.dispatch' for x in m.node.body)]
    if not aliases and not wrappers:
        c.ok(f'{ci.module}:{ci.node.lineno} EventBus', 'no alias / thin wrapper of dispatch in the class body')
    for a in aliases:
        c.fail('bubus/service.py EventBus', f'alias {a} = dispatch', f'bus.{a} forwards events but is not recognised as a forwarding handler (its __name__ is still checked against \'dispatch\' only through the function, aliases registered by name escape)')
    for m in wrappers:
        c.fail(m, f'thin wrapper of dispatch: {m.name}', f'bus.{m.name} forwards events but is not recognised as a forwarding handler: the event_path loop check is skipped for it')


@ob('C07.4', 'FLOW', 'dispatch enqueues, stores in history and returns its event parameter itself (never a copy, never rebound)')
def c07_4(c: Ctx) -> None:
    d = c.unit(SVC, 'EventBus.dispatch')
    ev = d.params()[1]
    reb = [n for n in own_nodes(d.node) if isinstance(n, (ast.Assign, ast.AnnAssign, ast.AugAssign)) and any(isinstance(t, ast.Name) and t.id == ev for t in (n.targets if isinstance(n, ast.Assign) else [n.target]))]
    for n in reb:
        c.fail(d, f'rebinds the event parameter: {U(n)[:80]}', 'dispatch works on a different object than the one the caller holds (awaiting the original never completes)', node=n)
    rets = [n for n in own_nodes(d.node) if isinstance(n, ast.Return)]
    c.floor(len(rets), 1, 'return statements of dispatch')
    for r in rets:
        if r.value is not None and U(r.value) == ev:
            c.ok(where(d, r), f'returns `{ev}` itself')
        else:
            c.fail(d, f'returns {U(r.value)[:60]}', 'dispatch returns a different object than the dispatched event', node=r)
    puts = [n for n in own_nodes(d.node) if isinstance(n, ast.Call) and call_name(n) == 'put_nowait']
    for pcall in puts:
        if len(pcall.args) == 1 and U(pcall.args[0]) == ev:
            c.ok(where(d, pcall), f'enqueues `{ev}` itself')
        else:
            c.fail(d, f'enqueues {U(pcall.args[0])[:60] if pcall.args else "?"}', 'the queued object is not the dispatched event', node=pcall)
    hist = [w for w in c.cg.writes[d.key] if w.attr == 'event_history' and w.how == 'subscript']
    for w in hist:
        if isinstance(w.node, ast.Assign) and U(w.node.value) == ev:
            c.ok(where(d, w.node), f'history stores `{ev}` itself')
        else:
            c.fail(d, f'history stores {U(w.node)[:70]}', 'the object kept in history is not the dispatched event', node=w.node)
    if not hist:
        c.fail(d, 'no history insert in dispatch', 'accepted events are not recorded in the history')


@ob('C07.5', 'SHAPE', "result keys are bus-qualified (results of several buses accumulate on one event without collision) and the constructor renames a bus whose "
    "name equals a live bus's name (path membership is by name)")
def c07_5(c: Ctx) -> None:
    # bus-qualified ids: re-use the abstract evaluation of get_handler_id
    ug = c.unit(MOD, 'get_handler_id')
    ps = ug.params()
    outs = []
    for b in ('b1', 'b2'):
        ai = AbsInt()
        ai.run(ug.node.body, {ps[0]: Obj('function', 'h1'), ps[1]: Obj('EventBus', b)})
        outs.append(ai.returns[-1] if ai.returns else UNKNOWN)
    if UNKNOWN in outs:
        raise AnalysisError('get_handler_id undecided')
    if outs[0] != outs[1]:
        c.ok(where(ug), 'the same handler on two buses gets two result keys')
    else:
        c.fail(ug, 'same handler on two buses -> same result key', 'results from several buses overwrite each other on a forwarded event')
    upd = c.unit(MOD, 'BaseEvent.event_result_update')
    keys = [n for n in own_nodes(upd.node) if isinstance(n, (ast.Assign, ast.AnnAssign)) and n.value is not None and isinstance(n.value, ast.Call) and call_name(n.value) == 'get_handler_id']
    if keys and all(len(k.value.args) >= 2 or q.kw(k.value, 'eventbus') is not None for k in keys):
        c.ok(where(upd, keys[0]), f'event_result_update keys results by {U(keys[0].value)}')
    else:
        c.fail(upd, 'event_result_update does not key results by get_handler_id(handler, eventbus)', 'result records are not bus-qualified')
    init = c.unit(SVC, 'EventBus.__init__')
    self_ = init.params()[0]
    loops = [n for n in own_nodes(init.node) if isinstance(n, ast.For) and 'all_instances' in U(n.iter)]
    cmp_ok = any(isinstance(x, ast.Compare) and isinstance(x.ops[0], ast.Eq) and {U(x.left).split('.')[-1], U(x.comparators[0]).split('.')[-1]} == {'name'} and f'{self_}.name' in (U(x.left), U(x.comparators[0]))
                 for lp in loops for x in ast.walk(lp))
    renames = [n for n in own_nodes(init.node) if isinstance(n, ast.Assign) and U(n.targets[0]) == f'{self_}.name' and q.enclosing(n, (ast.If,)) is not None and not isinstance(n.value, ast.Name)]
    if loops and cmp_ok and renames:
        c.ok(where(init, renames[0]), 'constructor compares names with all live buses and renames on conflict')
    else:
        c.fail(init, 'no rename of a bus whose name equals a live bus', 'two live buses can share a name: path-based loop prevention confuses them')



@ob('C07.6', 'MPT', 'a dispatch (and therefore a forward) that returns normally has enqueued the event on this bus (same obligation as C14.3): a bus that silently declines a forwarded '
    'event is "reachable through forwarding" and yet never processes it')
def c07_6(c: Ctx) -> None:
    from .c14 import c14_3

    c14_3(c)


def _uuid_tail_slice(c: Ctx, e: ast.AST, init: Unit, depth: int = 0) -> str | None:
    """'tail' if *e* is X[-k:] (k >= 8) of a fresh uuid string (uuid7str()/uuid4/self.id), 'prefix' if it is X[:k] / X[a:b] of one, None otherwise."""
    self_ = init.params()[0]
    if isinstance(e, ast.Name) and depth < 3:
        defs = [n for n in own_nodes(init.node) if isinstance(n, (ast.Assign, ast.AnnAssign)) and U(n.targets[0] if isinstance(n, ast.Assign) else n.target) == e.id]
        kinds = {_uuid_tail_slice(c, d.value, init, depth + 1) for d in defs if d.value is not None}
        return kinds.pop() if len(kinds) == 1 else None
    if isinstance(e, ast.Subscript) and isinstance(e.slice, ast.Slice):
        base = e.value
        is_uuid = (isinstance(base, ast.Call) and call_name(base) in ('uuid7str', 'uuid4', 'uuid7', 'str', 'token_hex')) or U(base) == f'{self_}.id' or (isinstance(base, ast.Attribute) and base.attr == 'hex')
        if not is_uuid:
            return None
        lo, hi = e.slice.lower, e.slice.upper
        if hi is None and isinstance(lo, ast.UnaryOp) and isinstance(lo.op, ast.USub) and isinstance(lo.operand, ast.Constant) and isinstance(lo.operand.value, int) and lo.operand.value >= 8:
            return 'tail'
        return 'prefix'
    return None


@ob('C07.7', 'FLOW/WMW', 'bus names identify buses in event_path, so they are unique among live buses and never change: the constructor compares the requested name with every live '
    'instance and, on a conflict, appends at least 8 characters from the *tail* of a fresh UUID (the random part; the head of a UUIDv7 is a timestamp shared by every bus '
    'created in the same minute); `name` is assigned nowhere but in the constructor')
def c07_7(c: Ctx) -> None:
    init = c.unit(SVC, 'EventBus.__init__')
    self_ = init.params()[0]
    ws = [w for w in c.cg.all_writes('name') if w.unit.cls == 'EventBus' or (w.target or '').split('.')[0] in ('bus', 'eventbus', 'existing_bus', 'target_bus')]
    outside = [w for w in ws if w.unit.key != init.key]
    for w in outside:
        c.fail(w.unit, f'assigns a bus name outside the constructor: {U(w.node)[:70]}', 'a bus is renamed while events carrying its old name in event_path are in flight: loop prevention no longer recognises it', node=w.node)
    assigns = [n for n in own_nodes(init.node) if isinstance(n, ast.Assign) and U(n.targets[0]) == f'{self_}.name']
    c.floor(len(assigns), 1, 'assignments of self.name in the constructor')
    scan = [n for n in own_nodes(init.node) if isinstance(n, ast.Compare) and len(n.ops) == 1 and isinstance(n.ops[0], ast.Eq) and {U(n.left).split('.')[-1], U(n.comparators[0]).split('.')[-1]} == {'name'}]
    loops = [q.enclosing(n, (ast.For,)) for n in scan]
    if scan and any(lp is not None and 'all_instances' in U(lp.iter) for lp in loops):
        c.ok(where(init, scan[0]), 'the requested name is compared with the name of every live instance')
    else:
        c.fail(init, 'no comparison of the requested name with the live instances', 'two live buses can share a name: a forward from one to the other is cut as a loop (or a real loop is not recognised)')
        return
    renames = [a for a in assigns if isinstance(a.value, ast.JoinedStr) and q.enclosing(a, (ast.If,)) is not None]
    if not renames:
        c.fail(init, 'a conflicting name is not replaced', 'two live buses can share a name: a forward from one to the other is cut as a loop', node=scan[0])
        return
    for a in renames:
        parts = [v.value for v in a.value.values if isinstance(v, ast.FormattedValue)]
        kinds = [_uuid_tail_slice(c, p_, init) for p_ in parts]
        if 'tail' in kinds:
            c.ok(where(init, a), f'conflicting name replaced by `{U(a.value)[:60]}`: suffix from the random tail of a fresh UUID')
        else:
            c.fail(init, f'conflict suffix is not the random tail of a fresh UUID: {U(a.value)[:70]} ({[k for k in kinds if k]})',
                   'the de-duplicated name is not unique: the head of a UUIDv7 is a millisecond timestamp, so buses created close together get the same suffix and then share a name', node=a)


@ob('C07.9', 'SIB', 'the library itself registers no forwarding handler that `_would_create_loop` does not recognise: the only recognised forward is the bound `dispatch` of another bus; a '
    'function / closure defined in the library that calls `<bus>.dispatch(<its event>)` and is registered through `on()` is an ordinary handler to the recursion guard '
    '(it raises at nesting depth 3 and the event is never delivered to, nor forwarded from, that bus)')
def c07_9(c: Ctx) -> None:
    n_regs = 0
    for u in c.prog.units.values():
        if u.module not in (SVC, MOD):
            continue
        for call in [x for x in own_nodes(u.node) if isinstance(x, ast.Call) and call_name(x) == 'on' and isinstance(x.func, ast.Attribute) and len(x.args) >= 2]:
            h = call.args[1]
            n_regs += 1
            target = None
            if isinstance(h, ast.Name):
                target = next((v for v in c.prog.nested(u) if v.name == h.id), None) or c.prog.resolve_name_callee(h.id, u)
            elif isinstance(h, ast.Lambda):
                target = h
            if target is None:
                c.ok(where(u, call), f'{U(call)[:60]}: the registered handler is a value supplied by the caller')
                continue
            node = target.node if isinstance(target, Unit) else target
            params = ([a.arg for a in node.args.args] if hasattr(node, 'args') else [])
            fwd = [x for x in ast.walk(node) if isinstance(x, ast.Call) and call_name(x) == 'dispatch' and isinstance(x.func, ast.Attribute) and x.args and isinstance(x.args[0], ast.Name) and x.args[0].id in params]
            if fwd:
                c.fail(u, f'registers `{U(h)[:40]}`, which forwards its event with `{U(fwd[0])[:50]}`', 'a forwarding handler that is not a bound EventBus.dispatch is subject to the recursion guard: in a nested chain of '
                       'depth 3 the guard raises "Infinite loop detected" and the event is neither handled nor forwarded by this bus', node=fwd[0])
            else:
                c.ok(where(u, call), f'{U(call)[:60]}: registers a library function that does not forward')
    if n_regs == 0:
        c.ok('bubus/*.py', 'the library registers no handler of its own through on()')


@ob('C07.8', 'DOM', 'an event that reaches a bus a second time (a second forwarding route, a re-dispatch) runs no handler of that bus again, whatever state the first result ended in '
    '(same obligation as C01.5)')
def c07_8(c: Ctx) -> None:
    c01.c01_5(c)


@ob('C07.10', 'COHERENCE', 'a memo in front of the handler lookup is kept coherent with the handler registry (same obligation as C01.13): a forwarding handler registered after the memo was filled must be seen by later events, otherwise a reachable bus never receives them')
def c07_10(c: Ctx) -> None:
    from .c01 import check_memo_coherence

    check_memo_coherence(c)


OBLIGATIONS = ob.obs
