"""C18 — expect() returns the first match and always unsubscribes: structural necessary conditions."""

from __future__ import annotations

import ast

from .common import *  # noqa: F401,F403
from .common import SVC, MOD, TIMEOUT, AbsInt, AnalysisError, Cls, Ctx, Facts, Registry, UNKNOWN, U, Unit, call_name, handler_type_names, own_nodes, own_nodes_with_lambdas, parent, q, where
from .c01 import on_key_for, pattern_kinds

ob = Registry()


def expect_parts(c: Ctx):
    u = c.unit(SVC, 'EventBus.expect')
    nested = {v.name: v for v in c.prog.nested(u)}
    regs = [n for n in own_nodes(u.node) if isinstance(n, ast.Call) and call_name(n) == 'on' and isinstance(n.func, ast.Attribute) and U(n.func.value) == u.params()[0] and len(n.args) == 2 and U(n.args[1]) in nested]
    if len(regs) != 1:
        raise AnalysisError(f'expect: expected one registration self.on(<type>, <nested temporary handler>), found {len(regs)}')
    h = nested[U(regs[0].args[1])]
    return u, h, regs[0]


def removal_helpers(c: Ctx, u: Unit, h: Unit) -> set[str]:
    """Nested helpers of expect whose body removes the temporary handler from self.handlers (calling one counts as the removal)."""
    out = set()
    for v in c.prog.nested(u):
        if v.key == h.key:
            continue
        if any(isinstance(x, ast.Call) and call_name(x) == 'remove' and x.args and U(x.args[0]) == h.name for x in own_nodes(v.node)):
            out.add(v.name)
    return out


@ob('C18.1', 'PAIR', 'after the temporary handler is registered, every exit of expect (match, TimeoutError, cancellation at either await) passes its removal from self.handlers')
def c18_1(c: Ctx) -> None:
    u, h, reg = expect_parts(c)
    g = c.cfg(u)
    self_ = u.params()[0]
    helpers = removal_helpers(c, u, h)

    def is_removal(n) -> bool:
        def rm(x):
            return isinstance(x, ast.Call) and call_name(x) == 'remove' and x.args and U(x.args[0]) == h.name and f'{self_}.handlers' in U(x.func.value)

        if any(rm(x) for x in q.node_calls(n)):
            return True
        if n.kind in ('stmt', 'return') and any(isinstance(x.func, ast.Name) and x.func.id in helpers for x in q.node_calls(n)):
            return True
        in_body = n.kind == 'if' and any(rm(x) for b in n.ast.body for x in ast.walk(b))
        in_else = n.kind == 'if' and any(rm(x) for b in n.ast.orelse for x in ast.walk(b))
        if in_body != in_else:
            # "remove if present": the branch that skips the removal is taken only when the handler is not there — its condition (the negated test, or the test itself when
            # the removal sits in the else branch) is a disjunction of absence tests on self.handlers (no list / empty list / not a member), in any spelling
            def presence(x) -> bool:
                if isinstance(x, ast.Compare) and len(x.ops) == 1 and isinstance(x.ops[0], ast.In):
                    return f'{self_}.handlers' in U(x.comparators[0])
                if isinstance(x, ast.Compare) and len(x.ops) == 1 and isinstance(x.ops[0], ast.IsNot) and isinstance(x.comparators[0], ast.Constant) and x.comparators[0].value is None:
                    x = x.left
                return (isinstance(x, ast.Call) and call_name(x) == 'get' and U(x.func.value) == f'{self_}.handlers' and len(x.args) == 1) or \
                    (isinstance(x, ast.Subscript) and U(x.value) == f'{self_}.handlers')

            from .c15 import _nnf_disjuncts

            lits = _nnf_disjuncts(n.ast.test, neg=in_body)
            if lits is None:
                return False
            for v, negv in lits:
                if isinstance(v, ast.Compare) and len(v.ops) == 1 and isinstance(v.ops[0], (ast.NotIn, ast.Is)):
                    # `h not in X` is `not (h in X)`; `X is None` is `not (X is not None)`
                    v = ast.Compare(left=v.left, ops=[ast.In() if isinstance(v.ops[0], ast.NotIn) else ast.IsNot()], comparators=v.comparators)
                    negv = not negv
                if not (negv and presence(v)):
                    return False
            return True
        return False

    bad = None
    for n in g.nodes_of(q.stmt_of(reg)):
        p = q.pair_search(g, n, is_removal)
        if p is not None:
            bad = (n, p)
    if bad is None:
        c.ok(where(u, reg), f'{h.name} is removed from self.handlers on every exit of expect', exits=len(g.raise_exits) + 1)
    else:
        how = next((s.via for s in bad[1] if s.via.startswith('raises')), 'normal return')
        c.fail(u, f'temporary handler not removed on an exit via {how}', 'an expect() that timed out / was cancelled / matched leaves its temporary handler subscribed forever', node=reg, witness=c.path(bad[0], bad[1]))


@ob('C18.2', 'SIB', 'the registry key computed for the removal equals the key on() files the handler under, for the three pattern kinds')
def c18_2(c: Ctx) -> None:
    u, h, reg = expect_parts(c)
    self_ = u.params()[0]
    tparam = U(reg.args[0])
    rms = [n for n in own_nodes(u.node) if isinstance(n, ast.Call) and call_name(n) == 'remove' and n.args and U(n.args[0]) == h.name]
    if not rms:
        # the removal lives in a nested helper (closure): evaluate the key expression in expect's own scope
        for v in c.prog.nested(u):
            if v.key != h.key:
                rms += [n for n in own_nodes(v.node) if isinstance(n, ast.Call) and call_name(n) == 'remove' and n.args and U(n.args[0]) == h.name]
    c.floor(len(rms), 1, 'removal of the temporary handler')
    recv = rms[0].func.value  # self.handlers[<key>]  or  self.handlers.get(<key>[, default])
    if isinstance(recv, ast.Subscript) and U(recv.value) == f'{self_}.handlers':
        keyexpr = recv.slice
    elif isinstance(recv, ast.Call) and isinstance(recv.func, ast.Attribute) and recv.func.attr == 'get' and U(recv.func.value) == f'{self_}.handlers' and recv.args:
        keyexpr = recv.args[0]
    else:
        c.fail(u, f'removal from {U(recv)[:60]}', 'the temporary handler is removed from something other than self.handlers[key]', node=rms[0])
        return
    rm_stmt = q.stmt_of(rms[0])
    tr = next((t for t in q.ancestors_of(rms[0]) if isinstance(t, ast.Try) and q.lexically_in(rms[0], t, 'finalbody')), None)
    block = tr.finalbody if tr is not None else (q.block_of(rm_stmt) or [rm_stmt])
    for desc, val, want in pattern_kinds(c):
        seen: list[object] = []

        def on_stmt(st, env, seen=seen):
            if st is rm_stmt:
                seen.append(ai.ev(keyexpr, env))

        # names defined in expect's own body (the key may be computed there and used by a nested helper)
        snap: dict = {}
        registered: list[object] = []
        reg_stmt = q.stmt_of(reg)

        def pre_stmt(st, env, snap=snap, registered=registered):
            snap.update(env)
            if st is reg_stmt:
                registered.append(pre.ev(reg.args[0], env))  # what on() is handed: the caller's pattern, or something expect derived from it

        pre = AbsInt(on_stmt=pre_stmt)
        pattern_param = tparam if tparam in u.params() else u.params()[1]
        pre.run(u.node.body, {pattern_param: val})
        env0 = {k: v for k, v in snap.items()}
        env0[pattern_param] = val
        ai = AbsInt(on_stmt=on_stmt)
        ai.run(block, env0)
        if not seen:
            raise AnalysisError(f'expect: the removal statement was not reached when evaluating the cleanup block for pattern kind {desc}')
        got = seen[-1]
        reg_val = registered[-1] if registered else val
        if reg_val is UNKNOWN:
            raise AnalysisError(f'expect: what is handed to on() is undecided for pattern kind {desc}')
        reg_key = on_key_for(c, reg_val)
        if got is UNKNOWN or reg_key is UNKNOWN:
            raise AnalysisError(f'expect: removal key undecided for pattern kind {desc}')
        if got == reg_key:
            c.ok(where(u, rms[0]), f'pattern kind {desc}: registered under {reg_key!r}, removed from {got!r}')
        else:
            c.fail(u, f'pattern kind {desc}: registered under {reg_key!r} but removed from {got!r}', f'expect({desc}) never unsubscribes its temporary handler (key mismatch)', node=rms[0])


@ob('C18.3', 'DOM/SHAPE', 'the future is resolved only with an event for which `not future.done() and include(event) and not exclude(event)`; include is the conjunction of '
    'the caller\'s include and the deprecated predicate')
def c18_3(c: Ctx) -> None:
    u, h, reg = expect_parts(c)
    g = c.cfg(h)
    ev = h.params()[0]
    params = u.params()
    # what a local name of expect stands for, as a conjunction of the caller's filters: `include = lambda e, include=include: include(e) and predicate(e)` -> {include, predicate}
    comp: dict[str, set[str]] = {}
    carries_exclude: set[str] = set()
    for n in own_nodes(u.node):
        if isinstance(n, ast.Assign) and len(n.targets) == 1 and isinstance(n.targets[0], ast.Name) and isinstance(n.value, ast.Lambda):
            lam = n.value
            if not lam.args.args:
                continue
            arg = lam.args.args[0].arg
            defaults = {a.arg: U(d) for a, d in zip(lam.args.args[-len(lam.args.defaults):], lam.args.defaults)} if lam.args.defaults else {}
            body = lam.body
            while isinstance(body, ast.Call) and isinstance(body.func, ast.Name) and body.func.id == 'bool' and len(body.args) == 1 and not body.keywords:
                body = body.args[0]
            vals = body.values if isinstance(body, ast.BoolOp) and isinstance(body.op, ast.And) else [body]
            # a conjunct `not exclude(e)` makes the composite filter carry the exclusion as well
            negs = [v.operand for v in vals if isinstance(v, ast.UnaryOp) and isinstance(v.op, ast.Not)]
            vals = [v for v in vals if not (isinstance(v, ast.UnaryOp) and isinstance(v.op, ast.Not))]
            if all(isinstance(v, ast.Call) and len(v.args) == 1 and U(v.args[0]) == arg and isinstance(v.func, ast.Name) for v in vals + negs) and all(U(v.func) == 'exclude' for v in negs):
                comp[n.targets[0].id] = {defaults.get(v.func.id, v.func.id) for v in vals}
                if negs:
                    carries_exclude.add(n.targets[0].id)
    copies = {n.targets[0].id: U(n.value) for n in own_nodes(u.node) if isinstance(n, ast.Assign) and len(n.targets) == 1 and isinstance(n.targets[0], ast.Name) and isinstance(n.value, ast.Name)}
    copies.update({n.target.id: U(n.value) for n in own_nodes(u.node) if isinstance(n, ast.AnnAssign) and isinstance(n.target, ast.Name) and isinstance(n.value, ast.Name)})
    copies = {k: v for k, v in copies.items() if k != v}

    def stands_for(name: str, depth: int = 0) -> set[str]:
        out: set[str] = set()
        for x in comp.get(name, {name}):
            x = copies.get(x, x) if x not in params else x
            out |= {x} if (x == name or x not in comp or depth > 3) else stands_for(x, depth + 1) | ({x} if x in params else set())
        return out

    sets = [n for n in g.live_nodes() if q.node_calls(n, 'set_result')]
    c.floor(len(sets), 1, 'future.set_result in the temporary handler')
    required_pos = [p_ for p_ in ('include', 'predicate') if p_ in params]
    for sn in sets:
        call = q.node_calls(sn, 'set_result')[0]
        fut = U(call.func.value)
        applied = sorted({x.func.id for y in ast.walk(h.node) for x in [y] if isinstance(x, ast.Call) and isinstance(x.func, ast.Name) and len(x.args) == 1 and U(x.args[0]) == ev})
        chosen: list[str] = []
        missing = []
        for r in required_pos:
            f = next((f for f in applied if r in stands_for(f) and f != 'exclude'), None)
            if f is None:
                missing.append(r)
            elif f not in chosen:
                chosen.append(f)
        if missing:
            c.fail(u, f'the temporary handler never applies the caller\'s filter(s) {missing}', f'the {"deprecated predicate" if missing == ["predicate"] else "include"} filter is ignored: expect() can return an event that does not match', node=sn.ast)
            continue
        atoms = {f'{fut}.done()', f'exclude({ev})'} | {f'{f}({ev})' for f in chosen}
        # (the temporary handler is synchronous and the future is private to this expect() call: the caller's filters, opaque callbacks, cannot resolve it)
        facts = Facts(lambda a: a in atoms, cg=None, stable={f'{fut}.done()'} if not h.is_async else set())
        guard = ' and '.join([f'not {fut}.done()'] + [f'{f}({ev})' for f in chosen] + ([f'not exclude({ev})'] if 'exclude' in params and not any(f in carries_exclude for f in chosen) else []))
        p = q.guard_search(g, sn, guard, facts)
        if p is not None and 'predicate' in chosen and any('predicate is' in U(x) for x in ast.walk(h.node) if isinstance(x, ast.Compare)):
            # `predicate=None` means "no predicate": the handler may test `predicate is not None` itself instead of expect() replacing None by an always-true filter.
            # Decided by cases on the parameter (it is not re-bound in the handler).
            atoms2 = atoms | {'predicate'}
            facts2 = Facts(lambda a: a in atoms2, cg=None, stable={f'{fut}.done()', 'predicate'} if not h.is_async else {'predicate'})
            guard_none = ' and '.join([f'not {fut}.done()'] + [f'{f}({ev})' for f in chosen if f != 'predicate'] + ([f'not exclude({ev})'] if 'exclude' in params and not any(f in carries_exclude for f in chosen) else []))
            p_none = q.guard_search(g, sn, guard_none, facts2, env={'predicate': 'N'})
            p_some = q.guard_search(g, sn, guard, facts2, env={'predicate': 'NN'})
            p = p_none or p_some
        if p is None:
            c.ok(where(h, sn.ast), f'set_result only under {guard} (covering the caller\'s {required_pos})')
        else:
            c.fail(h, f'{fut}.set_result reachable without `{guard}`', 'expect() can resolve with a non-matching event (or raise InvalidStateError on a second match)', node=sn.ast, witness=c.path(g.entry, p))
        if call.args and U(call.args[0]) == ev:
            c.ok(where(h, sn.ast), 'resolves with the event being handled')
        else:
            c.fail(h, f'set_result({U(call.args[0]) if call.args else ""})', 'expect() resolves with something other than the matching event', node=sn.ast)


@ob('C18.4', 'ESC/FLOW', 'with a timeout expect awaits asyncio.wait_for(future, timeout) and returns its value; nothing in expect catches TimeoutError')
def c18_4(c: Ctx) -> None:
    u, h, reg = expect_parts(c)
    g = c.cfg(u)
    futs = [n.targets[0].id for n in own_nodes(u.node) if isinstance(n, (ast.Assign,)) and isinstance(n.targets[0], ast.Name) and isinstance(n.value, ast.Call) and ('Future' in U(n.value.func) or U(n.value.func).endswith('create_future'))]
    futs += [n.target.id for n in own_nodes(u.node) if isinstance(n, ast.AnnAssign) and isinstance(n.target, ast.Name) and n.value is not None and isinstance(n.value, ast.Call) and ('Future' in U(n.value.func) or U(n.value.func).endswith('create_future'))]
    if not futs:
        raise AnalysisError('expect: no future')
    fut = futs[0]
    rets = [n for n in g.live_nodes() if n.kind == 'return']
    c.floor(len(rets), 1, 'returns of expect')
    for rn in rets:
        v = rn.ast.value
        good = isinstance(v, ast.Await) and (U(v.value) == fut or (isinstance(v.value, ast.Call) and call_name(v.value) == 'wait_for' and v.value.args and U(v.value.args[0]) == fut))
        if not good and v is not None and U(v) == f'{fut}.result()':
            # the value of a future known to be done (the other spelling of "what the future was resolved with")
            f_done = Facts(lambda a: a == f'{fut}.done()', cg=None)
            good = q.guard_search(g, rn, f'{fut}.done()', f_done) is None
        if good:
            c.ok(where(u, rn.ast), f'returns `{U(v)[:60]}`')
        else:
            c.fail(u, f'returns {U(v)[:60] if v is not None else None}', 'expect() returns something other than the event the future was resolved with', node=rn.ast)
    # the un-timed wait is taken only for timeout=None: timeout=0 / 0.0 is a timeout (poll once), not "wait forever"
    untimed = [n for n in g.live_nodes() if n.ast is not None and any(isinstance(x, ast.Await) and U(x.value) == fut for h in q.node_exprs(n) for x in ast.walk(h))]
    f_to = Facts(lambda a: a == 'timeout', cg=c.cg, unit=u)
    for n in untimed:
        p = q.guard_search(g, n, 'timeout is None', f_to)
        if p is None:
            c.ok(where(u, n.ast), 'the future is awaited without a timeout only when timeout is None')
        else:
            c.fail(u, f'`{n.text(60)}` (no timeout) reachable with timeout not None', 'expect(timeout=0) (or any falsy timeout) waits forever instead of raising TimeoutError', node=n.ast, witness=c.path(g.entry, p))
    wf = [n for n in own_nodes(u.node) if isinstance(n, ast.Call) and call_name(n) == 'wait_for' and n.args and U(n.args[0]) == fut]
    if wf:
        to = q.kw(wf[0], 'timeout') or (wf[0].args[1] if len(wf[0].args) > 1 else None)
        if to is not None and U(to) == 'timeout':
            c.ok(where(u, wf[0]), 'wait_for(future, timeout=timeout)')
        else:
            c.fail(u, f'wait_for timeout is {U(to) if to is not None else "missing"}', 'the caller\'s timeout is not the one applied', node=wf[0])
    else:
        # the other spelling: `await asyncio.wait({future}, timeout=timeout)` followed by `raise TimeoutError` when the future is still not done
        ws = [n for n in own_nodes(u.node) if isinstance(n, ast.Call) and U(n.func) in ('asyncio.wait', 'wait') and n.args and fut in U(n.args[0])]
        to = q.kw(ws[0], 'timeout') if ws else None
        raises_to = [n for n in g.live_nodes() if n.kind == 'raise' and n.ast.exc is not None and 'TimeoutError' in U(n.ast.exc)]
        if ws and to is not None and U(to) == 'timeout' and raises_to:
            f_done = Facts(lambda a: a == f'{fut}.done()', cg=None)
            from sa.facts import entails

            def under_not_done(rn_) -> bool:
                # the branch is entered with the future not done (what happens to the future inside the branch — it is cancelled there — is another matter)
                for a in q.ancestors_of(rn_.ast):
                    if isinstance(a, ast.If) and q.lexically_in(rn_.ast, a, 'body'):
                        env = f_done.assume(a.test, True, {})
                        if env is not None and entails(env, ast.parse(f'not {fut}.done()', mode='eval').body):
                            return True
                return False

            if all(under_not_done(rn_) for rn_ in raises_to):
                c.ok(where(u, ws[0]), 'asyncio.wait({future}, timeout=timeout), then TimeoutError exactly when the future is still not done')
            else:
                c.fail(u, 'TimeoutError raised although the future may be done', 'expect() raises TimeoutError although a matching event arrived', node=raises_to[0].ast)
        else:
            c.fail(u, 'no wait_for(future, timeout)', 'expect() ignores its timeout')
    H = c.an.fm.h
    from sa.cfg import search

    catchers = [a for a in own_nodes(u.node) if isinstance(a, ast.ExceptHandler) and H.match(TIMEOUT, handler_type_names(a)) != 'no']
    swallowing = []
    for a in catchers:
        inside = {id(x) for b in a.body for x in ast.walk(b)}
        for en in [n for n in g.nodes_of(a, ('except',)) if n.exc is not None and n.exc.name == 'TimeoutError']:
            p = search([(en, ())], is_target=lambda n, d: (n.ast is None or id(n.ast) not in inside) and n.kind not in ('raise_exit', 'reraise'), edge_ok=lambda n, e, d: None if e.is_exc else d)
            if p is not None:
                swallowing.append((a, en, p))
    if not swallowing and any(t.name == 'TimeoutError' for t in c.an.escapes(u)):
        c.ok(where(u), 'TimeoutError propagates to the caller (it is in the escape set; no arm swallows it)')
    elif swallowing:
        a, en, p = swallowing[0]
        c.fail(u, f'`except {U(a.type) if a.type else ""}` swallows TimeoutError', 'expect() does not raise TimeoutError when nothing matches in time', node=a, witness=c.path(en, p))
    else:
        c.fail(u, 'TimeoutError is never raised by expect', 'expect() does not raise TimeoutError when nothing matches in time')



@ob('C18.5', 'WMW/MPT', 'once expect() has removed its temporary handler from self.handlers the bus never delivers to it again: the applicable-handler lookup is recomputed from the live '
    'registry on every event, never memoised (same obligation as in C01.1)')
def c18_5(c: Ctx) -> None:
    from .c01 import check_lookup_not_memoised, collect_lookups

    u = c.unit(SVC, 'EventBus._get_applicable_handlers')
    lookups = collect_lookups(c, u)
    c.floor(len(lookups), 2, 'lookups of self.handlers')
    check_lookup_not_memoised(c, u, lookups)


@ob('C18.6', 'WMW/MPT', 'expect()\'s registration and clean-up meet in one place: on() appends its handler on every path, and nothing but on() / expect() / stop(clear=True) touches the '
    'registry (same obligation as C01.7) — a policy in on() that skips or replaces a handler by *name*, or an API that detaches and re-attaches handler lists, makes a pending '
    'expect() miss its event or leaves its temporary handler subscribed')
def c18_6(c: Ctx) -> None:
    from .c01 import c01_7

    c01_7(c)


@ob('C18.7', 'COHERENCE', "a memo in front of the handler lookup is kept coherent with the handler registry (same obligation as C01.13): the removal of expect()'s temporary handler must invalidate it, otherwise the bus keeps delivering events to an expect() that has ended")
def c18_7(c: Ctx) -> None:
    from .c01 import check_memo_coherence

    check_memo_coherence(c)


OBLIGATIONS = ob.obs
