"""C15 — wait_until_idle is sound and live: structural necessary conditions."""

from __future__ import annotations

import ast

from .common import *  # noqa: F401,F403
from .common import SVC, MOD, TASKVARS, AnalysisError, Ctx, Facts, Registry, U, Unit, call_name, own_nodes, parent, q, where
from .c03 import escape_before_mark
from .c10 import check_task_done_pairing

ob = Registry()


def _nnf_disjuncts(e: ast.AST, neg: bool = False) -> list[tuple[ast.AST, bool]] | None:
    """The literals of *e* (negated when *neg*) when it is a disjunction after pushing negations inward: (expr, negated) pairs; None when it is not a plain disjunction."""
    if isinstance(e, ast.UnaryOp) and isinstance(e.op, ast.Not):
        return _nnf_disjuncts(e.operand, not neg)
    if isinstance(e, ast.BoolOp):
        is_or = isinstance(e.op, ast.Or) != neg  # De Morgan: not (a and b) == (not a) or (not b)
        if not is_or:
            return None if len(e.values) > 1 else _nnf_disjuncts(e.values[0], neg)
        out: list[tuple[ast.AST, bool]] = []
        for v in e.values:
            r = _nnf_disjuncts(v, neg)
            if r is None:
                return None
            out.extend(r)
        return out
    return [(e, neg)]


def idle_disjuncts(test: ast.AST, self_: str) -> set[str]:
    """Which parts of "not idle" the test (a condition for going on waiting) covers: flag down / something started / something pending / queue non-empty.  The test may be written
    in any and / or / not arrangement that amounts to a disjunction of those (`not (flag and not (started or pending))` is `not flag or started or pending`)."""
    import copy as _copy

    from sa.facts import TEST_REWRITERS

    class _Rw(ast.NodeTransformer):  # the registered equivalences of tests (e.g. a quantifier over the history for `events_pending or events_started`) apply to sub-tests too
        def visit_Call(self, node):  # noqa: N802
            self.generic_visit(node)
            for rw in TEST_REWRITERS:
                node = rw(node)
            return node

    from sa.facts import _ifexp_as_boolop, _unbool

    class _Spell(ast.NodeTransformer):  # bool(x) is x; `n if q else 0` is `q and n`; "a queue and something in it" counts as the queue-size disjunct
        def visit_Call(self, node):  # noqa: N802
            self.generic_visit(node)
            return _unbool(node) if isinstance(node.func, ast.Name) and node.func.id == 'bool' else node

        def visit_IfExp(self, node):  # noqa: N802
            self.generic_visit(node)
            return self.visit(_ifexp_as_boolop(node)) if isinstance(_ifexp_as_boolop(node), ast.BoolOp) else node

        def visit_BoolOp(self, node):  # noqa: N802
            self.generic_visit(node)
            node.values = [_unbool(v) for v in node.values]  # (`q.qsize() > 0` as `q.qsize()`)
            if isinstance(node.op, ast.And) and len(node.values) == 2 and U(node.values[1]).endswith('.qsize()') and 'event_queue' in U(node.values[1]) \
                    and U(node.values[0]) in (U(node.values[1])[:-len('.qsize()')], U(node.values[1])[:-len('.qsize()')] + ' is not None'):
                return node.values[1]
            return node

    test = _Spell().visit(_Rw().visit(_copy.deepcopy(test)))
    lits = _nnf_disjuncts(test)
    if lits is None:
        return {'?' + U(test)}
    out = set()
    for v, neg in lits:
        t = U(v)
        if t == f'{self_}.events_pending' and not neg:
            out.add('pending')
        elif t == f'{self_}.events_started' and not neg:
            out.add('started')
        elif t.endswith('.qsize()') and 'event_queue' in t and not neg:
            out.add('qsize')
        elif t == f'{self_}._on_idle.is_set()' and neg:
            out.add('flag')
        elif t.endswith('._unfinished_tasks') and 'event_queue' in t and not neg:
            out.add('unfinished')
        else:
            out.add('?' + ('not ' if neg else '') + t)
    return out


def _verdict_flag(u: Unit, g, head, self_: str):
    """`while not <flag>:` where every value of <flag> is the idle test itself (possibly handed over through copies, as a folded helper's result is): returns
    (the test the loop amounts to, the CFG nodes where the idle test is evaluated) or None."""
    t = head.ast.test
    if not (isinstance(t, ast.UnaryOp) and isinstance(t.op, ast.Not) and isinstance(t.operand, ast.Name)):
        return None
    evals: list[ast.Assign] = []
    seen: set[str] = set()

    def follow(name: str) -> bool:
        if name in seen:
            return True
        seen.add(name)
        defs = [n for n in own_nodes(u.node) if isinstance(n, (ast.Assign, ast.AnnAssign)) and n.value is not None
                and any(isinstance(x, ast.Name) and x.id == name for x in (n.targets if isinstance(n, ast.Assign) else [n.target]))]
        if not defs:
            return False
        for d in defs:
            if isinstance(d.value, ast.Name):
                if not follow(d.value.id):
                    return False
            else:
                evals.append(d)
        return True

    if not follow(t.operand.id) or not evals:
        return None
    texts = {U(d.value) for d in evals}
    if len(texts) != 1:
        return None
    return ast.UnaryOp(op=ast.Not(), operand=evals[0].value), [n for d in evals for n in g.nodes_of(d)]


@ob('C15.1', 'SHAPE/DOM', 'wait_until_idle returns normally only (a) from the final re-check loop, whose exit condition is idle-flag set ∧ nothing started ∧ nothing pending, with '
    'no suspension between that test and the return, or (b) through the documented TimeoutError arm, whose in-function source is dominated by `timeout is not None`')
def c15_1(c: Ctx) -> None:
    u = c.unit(SVC, 'EventBus.wait_until_idle')
    g = c.cfg(u)
    self_ = u.params()[0]
    def loop_test(n):
        vf = _verdict_flag(u, g, n, self_)
        return vf[0] if vf is not None else n.ast.test

    whiles = [n for n in g.live_nodes() if n.kind == 'while' and 'flag' in idle_disjuncts(loop_test(n), self_)]
    if len(whiles) != 1:
        c.fail(u, f'{len(whiles)} re-check loops on the idle flag', 'wait_until_idle does not re-check idleness before returning: it can return while new events are pending or started')
        return
    head = whiles[0]
    dis = idle_disjuncts(loop_test(head), self_)
    vflag = _verdict_flag(u, g, head, self_)
    need = {'flag', 'started', 'pending'}
    if need <= dis and not any(x.startswith('?') for x in dis):
        c.ok(where(u, head.ast), f'loop exits only when not ({U(loop_test(head))[:90]})')
    else:
        extra = sorted(x for x in dis if x.startswith('?'))
        c.fail(u, f'final re-check condition lacks {sorted(need - dis)}' + (f' / has unrecognised terms {extra}' if extra else ''), 'wait_until_idle can return while the bus still has ' + '/'.join(sorted(need - dis)) + ' events', node=head.ast)
    from sa.cfg import search

    arms = [n for n in g.live_nodes() if n.kind == 'except' and n.ast.type is not None and 'TimeoutError' in U(n.ast.type)]
    # an early `return` is as good as the loop's exit when it sits directly under a test that establishes the whole idle predicate (flag set, nothing started, nothing
    # pending; further conjuncts only make it rarer) with nothing in between that suspends
    early_ok: set[int] = set()
    for rn in [n for n in g.live_nodes() if n.kind == 'return' and not q.lexically_in(n.ast, head.ast, 'body')]:
        gi = q.enclosing(rn.ast, (ast.If,))
        if gi is None or not q.lexically_in(rn.ast, gi, 'body') or gi.body[0] is not rn.ast:
            continue
        lits = _nnf_disjuncts(ast.UnaryOp(op=ast.Not(), operand=gi.test))
        have = idle_disjuncts(ast.UnaryOp(op=ast.Not(), operand=gi.test), self_) if lits is not None else set()
        # (before the queue has been joined the idle flag and the history are not enough: an event the run loop has taken off the queue and not yet started is in no queue, and a
        #  forwarded one already reads 'completed'; only the queue's unfinished-task count — what join() waits for — covers it)
        need_early = need | {'unfinished'}
        if need_early <= have and not any(isinstance(x, ast.Await) for x in ast.walk(gi.test)):
            early_ok.add(rn.id)
            c.ok(where(u, rn.ast), f'early return only under the full idle test ({U(gi.test)[:80]})')
        else:
            c.fail(u, f'early return under `{U(gi.test)[:70]}`, which does not establish {sorted(need_early - have)}', 'wait_until_idle can return while the bus still has ' + '/'.join(sorted(need_early - have))
                   + ' events: the idle flag is stale between a dispatch and the run loop\'s next step, and an event the run loop has already taken off the queue is in no queue', node=rn.ast)
            early_ok.add(rn.id)  # reported here; not again as "bypasses the loop"
    barrier = {head.id} | {n.id for n in arms} | early_ok
    p = search([(g.entry, ())], is_target=lambda n, d: n.kind == 'exit', is_barrier=lambda n, d: n.id in barrier)
    if p is None:
        c.ok(where(u), 'no normal return bypasses the re-check loop (other than the TimeoutError arm)')
    else:
        c.fail(u, 'normal return that bypasses the final re-check loop', 'wait_until_idle can return without re-checking that nothing is pending/started', witness=c.path(g.entry, p))
    # (a) false edge -> exit without suspension; body cannot leave the loop except back to the head
    p = search([(head, ())], is_target=lambda n, d: q.node_has_await(n), is_barrier=lambda n, d: n.kind == 'exit',
               edge_ok=lambda n, e, d: None if (e.is_exc or (n is head and e.label != 'false')) else d)
    if p is None and vflag is not None:
        # the verdict is held in a local: the idle test is evaluated where the local gets its value.  Nothing may suspend between such an evaluation and the loop test, and
        # the loop test must not be reachable from a suspension point without a fresh evaluation in between (a stale verdict).
        ev_ids = {n.id for n in vflag[1]}
        for en_ in vflag[1]:
            p = p or search([(en_, ())], is_target=lambda n, d: q.node_has_await(n), is_barrier=lambda n, d: n is head, edge_ok=lambda n, e, d: None if e.is_exc else d)
        for an_ in [n for n in g.live_nodes() if q.node_has_await(n)]:
            p = p or search([(an_, ())], is_target=lambda n, d: n is head, is_barrier=lambda n, d: n.id in ev_ids, edge_ok=lambda n, e, d: None if e.is_exc else d)
    if p is None:
        c.ok(where(u, head.ast), 'no suspension point between the final idle test and the return')
    else:
        c.fail(u, 'suspension point between the final idle test and the return', 'new events can be dispatched between the last idle check and the return', node=head.ast, witness=c.path(p[0].node if p else head, p))
    p = search([(head, ())], is_target=lambda n, d: n.kind == 'exit', is_barrier=lambda n, d: n is head or n.id in {a.id for a in arms},
               edge_ok=lambda n, e, d: None if (n is head and e.label != 'true') else d)
    if p is None:
        c.ok(where(u, head.ast), 'the re-check loop body can only return to the test (or time out)')
    else:
        c.fail(u, 'the re-check loop can be left without re-evaluating the idle test', 'wait_until_idle returns from inside the re-check loop without the final test', node=head.ast, witness=c.path(head, p))
    # (b) timeout sources
    raises = [n for n in g.live_nodes() if n.kind == 'raise' and any(e.exc is not None and e.exc.name == 'TimeoutError' for e in n.succ)]
    facts = Facts(lambda a: a.isidentifier(), cg=c.cg, unit=u)
    for rn in raises:
        # decided by cases on the parameter: with timeout None the raise must be unreachable (a deadline derived from it is None as well)
        pth = q.guard_search(g, rn, 'timeout is not None', facts, env={'timeout': 'N'})
        if pth is None:
            c.ok(where(u, rn.ast), '`raise TimeoutError` only when a timeout was given')
        else:
            c.fail(u, 'raise TimeoutError not dominated by `timeout is not None`', 'wait_until_idle() without a timeout can give up and return while the bus is busy', node=rn.ast, witness=c.path(g.entry, pth))
    # every wait_for in the function uses the remaining timeout (None when no timeout): a constant would turn into a silent early return
    for n in own_nodes(u.node):
        if isinstance(n, ast.Call) and call_name(n) == 'wait_for':
            to = q.kw(n, 'timeout')
            if isinstance(to, ast.Constant) and to.value is not None:
                c.fail(u, f'wait_for with constant timeout {to.value}', 'wait_until_idle() gives up after a fixed time and returns although the bus is busy', node=n)


def idle_sets(c: Ctx) -> list[tuple[Unit, ast.Call]]:
    out = []
    for u in c.prog.units.values():
        if u.module != SVC:
            continue
        for n in own_nodes(u.node):
            if isinstance(n, ast.Call) and call_name(n) == 'set' and isinstance(n.func, ast.Attribute) and isinstance(n.func.value, ast.Attribute) and n.func.value.attr == '_on_idle':
                out.append((u, n))
    return sorted(out, key=lambda x: x[1].lineno)


@ob('C15.2', 'DOM', 'the idle flag is set only under the full idle predicate (nothing pending, nothing started, empty queue), except in stop() after _is_running = False; '
    'step clears the flag before processing')
def c15_2(c: Ctx) -> None:
    sites = idle_sets(c)
    c.floor(len(sites), 3, '_on_idle.set() sites')
    for u, call in sites:
        self_ = u.params()[0]
        if u.qualname == 'EventBus.stop':
            g = c.cfg(u)
            from sa.cfg import search

            offs = {n.id for n in g.live_nodes() if n.kind == 'stmt' and isinstance(n.ast, ast.Assign) and U(n.ast.targets[0]) == f'{self_}._is_running' and isinstance(n.ast.value, ast.Constant) and n.ast.value.value is False}
            tgt = g.nodes_of(q.stmt_of(call))
            p = search([(g.entry, ())], is_target=lambda n, d: n in tgt, is_barrier=lambda n, d: n.id in offs)
            if p is None and offs:
                c.ok(where(u, call), 'stop() sets the flag only after _is_running = False')
            else:
                c.fail(u, '_on_idle.set() in stop() before _is_running = False', 'waiters are released while the bus can still take events', node=call)
            continue
        g = c.cfg(u)
        qs = [U(x) for x in own_nodes(u.node) if isinstance(x, ast.Call) and call_name(x) == 'qsize' and 'event_queue' in U(x)]
        qatom = qs[0] if qs else f'{self_}.event_queue.qsize()'
        atoms = {f'{self_}.events_pending', f'{self_}.events_started', qatom}
        qrecv = qatom[:-len('.qsize()')] if qatom.endswith('.qsize()') else f'{self_}.event_queue'
        # "something is queued" may be spelled with the no-queue case in front (no queue, nothing queued); a Queue object is always truthy, so `q and ..` is `q is not None and ..`
        variants = [f'{qrecv} is not None and {qatom}', f'{qrecv} and {qatom}']
        bad = None
        for some_queued in variants:
            facts = Facts(lambda a, some_queued=some_queued: a in atoms or a.isidentifier() or a in (qrecv, some_queued), cg=c.cg, unit=u)  # (locals too: a verdict held in a flag, the result of a folded helper)
            guard = f'not ({self_}.events_pending or {self_}.events_started or ({some_queued}))'
            bad_v = [p for n in g.nodes_of(q.stmt_of(call)) if (p := q.guard_search(g, n, guard, facts)) is not None]
            if bad is None or not bad_v:
                bad = bad_v
            if not bad_v:
                break
        guard = f'not ({self_}.events_pending or {self_}.events_started or ({variants[0]}))'
        if not bad:
            c.ok(where(u, call), f'flag set only when `{guard}` is known')
        else:
            c.fail(u, f'_on_idle.set() not under the full idle predicate `{guard}`', 'the bus reports idle while events are queued, pending or started: wait_until_idle returns early', node=call, witness=c.path(g.entry, bad[0]))
    st = c.unit(SVC, 'EventBus.step')
    g = c.cfg(st)
    from sa.cfg import search

    clears = {n.id for n in g.live_nodes() if any(call_name(x) == 'clear' and isinstance(x.func.value, ast.Attribute) and x.func.value.attr == '_on_idle' for x in q.node_calls(n))}
    procs = [n for n in g.live_nodes() if q.node_calls(n, 'process_event')]
    for pn in procs:
        p = search([(g.entry, ())], is_target=lambda n, d: n is pn, is_barrier=lambda n, d: n.id in clears)
        if p is None and clears:
            c.ok(where(st, pn.ast), 'step clears the idle flag before processing an event')
        else:
            c.fail(st, 'process_event reachable in step without clearing the idle flag', 'a waiter can see the flag set while an event is being processed', node=pn.ast, witness=c.path(g.entry, p) if p else [])


@ob('C15.3', 'ORD', 'wait_until_idle awaits event_queue.join() before it waits on the idle flag')
def c15_3(c: Ctx) -> None:
    u = c.unit(SVC, 'EventBus.wait_until_idle')
    g = c.cfg(u)

    def mentions(n, what: str) -> bool:
        return n.kind in ('stmt', 'return') and what in U(n.ast)

    # the join task must be awaited; the flag wait must come after it
    join_defs = [n for n in g.live_nodes() if mentions(n, '.join()')]
    c.floor(len(join_defs), 1, 'event_queue.join() in wait_until_idle')
    jnames = {U(n.ast.targets[0]) for n in join_defs if isinstance(n.ast, ast.Assign)}
    join_awaits = {n.id for n in g.live_nodes() if q.node_has_await(n) and (mentions(n, '.join()') or any(j in U(n.ast) for j in jnames))}
    flag_waits = [n for n in g.live_nodes() if mentions(n, '_on_idle.wait()')]
    from sa.cfg import search

    if not join_awaits:
        c.fail(u, 'event_queue.join() is never awaited', 'queued events are not waited for')
        return
    for fw in flag_waits[:1]:
        p = search([(g.entry, ())], is_target=lambda n, d: n is fw, is_barrier=lambda n, d: n.id in join_awaits)
        if p is None:
            c.ok(where(u, fw.ast), 'the idle-flag wait is reached only after awaiting event_queue.join()')
        else:
            c.fail(u, 'idle-flag wait reachable without awaiting event_queue.join()', 'wait_until_idle does not wait for events that are still queued', node=fw.ast, witness=c.path(g.entry, p))


@ob('C15.9', 'MPT', 'wait_until_idle() makes sure a run loop is alive before it waits: every path from its entry to its first suspension passes through self._start() (which is '
    'a no-op on a running bus). A bus whose run loop has ended without stop() - a handler that raised CancelledError ends it - still has its queue and its flag, and nobody '
    'else would drain what wait_until_idle() is about to join')
def c15_9(c: Ctx) -> None:
    u = c.unit(SVC, 'EventBus.wait_until_idle')
    g = c.cfg(u)
    self_ = u.params()[0]
    starts = {n.id for n in g.live_nodes() if any(U(x.func) == f'{self_}._start' for x in q.node_calls(n, '_start'))}
    waits = [n for n in g.live_nodes() if q.node_has_await(n)]
    c.floor(len(waits), 4, 'suspension points in wait_until_idle')
    p = q.reach_search(g, [(g.entry, {})], lambda n, d: q.node_has_await(n), lambda n, d: n.id in starts, exc_ok=lambda e: False)
    if p is None and starts:
        c.ok(where(u), f'every path to the first suspension calls {self_}._start() ({len(starts)} call site(s))')
    else:
        c.fail(u, 'a suspension is reachable without calling _start()', 'wait_until_idle() can wait on a bus whose run loop is not running (never started on this path, or ended by an earlier fault without '
               'stop()): the queue it joins is never drained and it never returns', witness=c.path(g.entry, p) if p else [])


@ob('C15.10', 'ESC', 'wait_until_idle() gives up only by returning (after its timeout): it raises nothing of its own except the TimeoutError it catches itself. A refusal to wait ("called from '
    'inside a handler") must identify the running handler task, not test a context variable: context variables are copied into every task and callback a handler spawns and stay set there '
    'after the handler has returned, so such a test refuses callers for which the bus does become idle')
def c15_10(c: Ctx) -> None:
    u = c.unit(SVC, 'EventBus.wait_until_idle')
    g = c.cfg(u)
    raises = [n for n in g.live_nodes() if n.kind == 'raise' and n.ast is not None and n.ast.exc is not None]
    n_ok = 0
    for rn in raises:
        tname = U(rn.ast.exc.func if isinstance(rn.ast.exc, ast.Call) else rn.ast.exc).split('.')[-1]
        if tname == 'TimeoutError':
            n_ok += 1
            continue  # C15.1 (b) judges it
        conds = [x for a in q.ancestors_of(rn.ast) if isinstance(a, ast.If) and q.lexically_in(rn.ast, a, 'body') for x in ast.walk(a.test)]
        ctxvar = [x for x in conds if isinstance(x, ast.Call) and call_name(x) == 'get' and isinstance(x.func, ast.Attribute) and isinstance(x.func.value, ast.Name) and x.func.value.id in TASKVARS]
        if ctxvar:
            c.fail(u, f'raises {tname} under a test of {sorted({U(x) for x in ctxvar})}', f'wait_until_idle() refuses to wait whenever {U(ctxvar[0])} is set — also in a background task or callback that a handler '
                   'spawned and that outlives it: the bus goes idle, the call raises instead of returning (and stop(timeout=..) fails half-way, leaving the bus running)', node=rn.ast)
        elif not conds:
            c.fail(u, f'raises {tname} unconditionally', 'wait_until_idle() fails instead of waiting', node=rn.ast)
        else:
            n_ok += 1
            c.ok(where(u, rn.ast), f'raises {tname} only under a test that does not read inherited context ({U(q.enclosing(rn.ast, (ast.If,)).test)[:60]})')
    if not raises or n_ok == len(raises):
        c.ok(where(u), 'wait_until_idle raises nothing of its own besides the TimeoutError it handles')


def check_runloop_only_awaits_step(c: Ctx) -> None:
    """Inside its processing loop the run loop awaits nothing but step() (whose only wait is the bounded poll): a running bus never stops consuming its queue."""
    rl = c.unit(SVC, 'EventBus._run_loop')
    loops = [n for n in own_nodes(rl.node) if isinstance(n, ast.While) and any(isinstance(x, ast.Call) and call_name(x) == 'step' for b in n.body for x in ast.walk(b))]
    loops = [n for n in loops if not any(m is not n and q.lexically_in(n, m, 'body') for m in loops)]
    if len(loops) != 1:
        raise AnalysisError(f'{rl}: expected one processing loop around step(), found {len(loops)}')
    others = [a for b in loops[0].body for a in ast.walk(b) if isinstance(a, ast.Await) and not (isinstance(a.value, ast.Call) and call_name(a.value) == 'step')]
    # a bounded sleep (constant delay) is a pause of known length, not a stop
    others = [a for a in others if not (isinstance(a.value, ast.Call) and U(a.value.func) in ('asyncio.sleep', 'sleep') and a.value.args and isinstance(a.value.args[0], ast.Constant))]
    if not others:
        c.ok(where(rl, loops[0]), 'the processing loop awaits only step(): a running bus keeps taking events from its queue')
    for a in others:
        c.fail(rl, f'the processing loop also awaits `{U(a.value)[:60]}`', 'a running bus can stop consuming its queue for an unbounded time: wait_until_idle() / queue.join() hang on its backlog, and the backlog sits in the '
               'queue where another bus\'s in-handler await picks it up and runs it inside an unrelated handler', node=a)


@ob('C15.6', 'EFFECT', 'the run loop re-evaluates idleness within bounded time: every wait of the idle poll (_get_next_event) is bounded by the finite poll timeout, and the '
    'only unbounded await there is on the get-task the bounded wait has just reported done (a waiter that cleared the flag is woken again)')
def c15_6(c: Ctx) -> None:
    u = c.unit(SVC, 'EventBus._get_next_event')
    g = c.cfg(u)
    aws = sorted([n for n in own_nodes(u.node) if isinstance(n, ast.Await)], key=lambda n: n.lineno)
    c.floor(len(aws), 1, 'awaits in _get_next_event')
    a_ = u.node.args
    params = {x.arg: x for x in a_.posonlyargs + a_.args + a_.kwonlyargs}
    defaults = dict(zip([x.arg for x in (a_.posonlyargs + a_.args)][len(a_.posonlyargs + a_.args) - len(a_.defaults):], a_.defaults))
    rebound = {U(n.targets[0] if isinstance(n, ast.Assign) else n.target) for n in own_nodes(u.node) if isinstance(n, (ast.Assign, ast.AnnAssign, ast.AugAssign))}
    done_sets: dict[str, str] = {}
    for n in own_nodes(u.node):
        if isinstance(n, ast.Assign) and isinstance(n.targets[0], ast.Tuple) and isinstance(n.value, ast.Await) and isinstance(n.value.value, ast.Call) and U(n.value.value.func) == 'asyncio.wait':
            tasks = {x.id for x in ast.walk(n.value.value.args[0]) if isinstance(x, ast.Name)} if n.value.value.args else set()
            for t in tasks:
                done_sets[t] = U(n.targets[0].elts[0])
    for a in aws:
        v = a.value
        if isinstance(v, ast.Call) and U(v.func) in ('asyncio.wait', 'asyncio.wait_for'):
            to = q.kw(v, 'timeout') or (v.args[1] if U(v.func) == 'asyncio.wait_for' and len(v.args) > 1 else None)
            finite = False
            if isinstance(to, ast.Constant) and isinstance(to.value, (int, float)) and not isinstance(to.value, bool):
                finite = True
            elif isinstance(to, ast.Name) and to.id in params and to.id not in rebound:
                ann = U(params[to.id].annotation) if params[to.id].annotation is not None else ''
                d = defaults.get(to.id)
                finite = 'None' not in ann and 'Optional' not in ann and (d is None or (isinstance(d, ast.Constant) and isinstance(d.value, (int, float))))
            if finite:
                c.ok(where(u, a), f'poll wait bounded: {U(v)[:70]}')
            else:
                c.fail(u, f'idle poll waits with timeout={U(to) if to is not None else "None"}', 'the run loop can sleep without bound while the bus is idle: a wait_until_idle() that has just cleared the idle flag is never woken again (it hangs although the bus is idle)', node=a)
        elif isinstance(v, ast.Name) and v.id in done_sets:
            facts = Facts(lambda x: x == done_sets[v.id], cg=c.cg, unit=u)
            bad = [p for n in g.nodes_of(q.stmt_of(a)) if (p := q.guard_search(g, n, done_sets[v.id], facts)) is not None]
            if not bad:
                c.ok(where(u, a), f'`await {v.id}` only after the bounded wait reported it done')
            else:
                c.fail(u, f'await {v.id} reachable without the wait having reported it done', 'the run loop can block without bound on an empty queue: idleness is never re-evaluated', node=a, witness=c.path(g.entry, bad[0]))
        else:
            c.fail(u, f'unbounded await in the idle poll: {U(v)[:70]}', 'the run loop can block without bound: idleness is never re-evaluated and wait_until_idle() can hang although the bus is idle', node=a)
    check_runloop_only_awaits_step(c)
    # the caller must pass a finite poll timeout too
    st = c.unit(SVC, 'EventBus.step')
    for cu, call in c.cg.callers(u):
        v = q.kw(call, 'wait_for_timeout') or (call.args[0] if call.args else None)
        if v is None:
            c.ok(where(cu, call), 'poll timeout left at its finite default')
        elif isinstance(v, ast.Constant) and isinstance(v.value, (int, float)):
            c.ok(where(cu, call), f'poll timeout {v.value}')
        elif isinstance(v, ast.Name) and v.id in cu.params():
            ca = cu.node.args
            cd = dict(zip([x.arg for x in (ca.posonlyargs + ca.args)][len(ca.posonlyargs + ca.args) - len(ca.defaults):], ca.defaults))
            d = cd.get(v.id)
            if isinstance(d, ast.Constant) and isinstance(d.value, (int, float)) and not isinstance(d.value, bool):
                c.ok(where(cu, call), f'poll timeout forwarded from {cu.name}({v.id}={d.value})')
            else:
                c.fail(cu, f'poll timeout forwarded from a parameter without a finite default: {v.id}', 'the idle poll may be unbounded', node=call)
        else:
            c.fail(cu, f'poll timeout is {U(v)[:40]}', 'the idle poll may be unbounded', node=call)


@ob('C15.4', 'PAIR', 'every dequeue is balanced by task_done() on every exit (same obligation as C10.5): otherwise join() never returns')
def c15_4(c: Ctx) -> None:
    check_task_done_pairing(c)


@ob('C15.5', 'ESC', 'no exception other than cancellation leaves process_event before the event is marked (same obligation as C03.4): an event left pending forever keeps '
    'the bus non-idle')
def c15_5(c: Ctx) -> None:
    escape_before_mark(c, lambda t: t.name != 'CancelledError', 'the event stays pending in the history forever: events_pending is never empty and wait_until_idle never returns')



@ob('C15.7', 'SHAPE/DOM', 'after a handler timeout no result below it is left pending at any depth (same obligation as C10.4): an event left started/pending forever keeps the bus non-idle '
    'and wait_until_idle() never returns')
def c15_7(c: Ctx) -> None:
    from .c10 import c10_4

    c10_4(c)


@ob('C15.8', 'WMC/MPT', 'what wait_until_idle() observes is everything that is in flight: events are processed only through the queue -> step / inline loop -> process_event chain (same '
    'obligation as C01.6), enter the bus only through dispatch() (history insert before processing), and every dequeued event reaches process_event and its task_done() (same obligation '
    'as C01.3) — an event processed by another entry point, or dropped after the dequeue, is invisible to join() and to the pending / started scan')
def c15_8(c: Ctx) -> None:
    from .c01 import c01_3, c01_6
    from .c09 import check_dispatch_entry_points

    c01_6(c)
    check_dispatch_entry_points(c)
    c01_3(c)


@ob('C15.11', 'ORD', 'a rejected dispatch leaves nothing behind that keeps the bus from going idle (same obligation as C14.2): the history insertion follows a successful '
    'put_nowait and every handler that catches the rejection re-raises — an event recorded in the history but never queued stays pending forever (pending entries are evicted '
    'last), the idle predicate is never true again and wait_until_idle() never returns although every accepted event was handled')
def c15_11(c: Ctx) -> None:
    from .c14 import c14_2

    c14_2(c)


OBLIGATIONS = ob.obs
