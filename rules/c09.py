"""C09 — parent/child lineage and handler context are attributed correctly: structural necessary conditions."""

from __future__ import annotations

import ast

from .common import *  # noqa: F401,F403
from .common import SVC, MOD, TASKVARS, AnalysisError, Ctx, Facts, Registry, U, Unit, call_name, eq_atom, own_nodes, parent, q, where
from .c01 import handler_invocations

ob = Registry()

CTX_VARS = ('_current_event_context', 'inside_handler_context', '_current_handler_id_context')


def ctx_sets(c: Ctx, u: Unit) -> list[tuple[ast.Assign, str, str]]:
    """`token = <ContextVar>.set(value)` assignments in *u*: (stmt, var name, token name)."""
    out = []
    for n in own_nodes(u.node):
        if isinstance(n, ast.Assign) and isinstance(n.value, ast.Call) and call_name(n.value) == 'set' and isinstance(n.value.func, ast.Attribute) and isinstance(n.value.func.value, ast.Name) \
                and n.value.func.value.id in CTX_VARS and isinstance(n.targets[0], ast.Name):
            out.append((n, n.value.func.value.id, n.targets[0].id))
    return sorted(out, key=lambda x: x[0].lineno)


@ob('C09.1', 'PAIR', 'each ContextVar.set() token taken in execute_handler is reset on every exit (return, handler exception, timeout, cancellation)')
def c09_1(c: Ctx) -> None:
    u = c.unit(SVC, 'EventBus.execute_handler')
    g = c.cfg(u)
    sets = ctx_sets(c, u)
    if not sets:
        c.fail(u, 'no context-variable token is taken directly in execute_handler', 'the set/reset pairing of the handler context cannot be established on every exit of execute_handler (sets moved elsewhere)')
        return
    for st, var, tok in sets:
        def is_reset(n, var=var, tok=tok):
            return any(call_name(x) == 'reset' and U(x.func.value) == var and x.args and U(x.args[0]) == tok for x in q.node_calls(n))

        bad = None
        for n in g.nodes_of(st):
            p = q.pair_search(g, n, is_reset)
            if p is not None:
                bad = (n, p)
        if bad is None:
            c.ok(where(u, st), f'{var}.set(...) is reset on every exit', exits=len(g.raise_exits) + 1)
        else:
            c.fail(u, f'{var}.reset({tok}) missing on some exit', f'{var} leaks out of the handler activation: later dispatches are attributed to a handler that already returned', node=st, witness=c.path(bad[0], bad[1]))


@ob('C09.2', 'DOM', 'dispatch writes event_parent_id only when it is None (an explicitly supplied parent is never overwritten)')
def c09_2(c: Ctx) -> None:
    ws = [w for w in c.cg.all_writes('event_parent_id') if w.how in ('assign', 'augassign')]
    c.floor(len(ws), 1, 'writes of event_parent_id')
    d = c.unit(SVC, 'EventBus.dispatch')
    for w in ws:
        if w.unit.key != d.key:
            c.fail(w.unit, f'writes event_parent_id: {U(w.node)[:70]}', f'event_parent_id is written outside dispatch (in {w.unit.qualname})', node=w.node)
            continue
        g = c.cfg(d)
        facts = Facts(lambda a: a == w.target, cg=c.cg, unit=d)
        for n in g.nodes_of(q.stmt_of(w.node)):
            p = q.guard_search(g, n, f'{w.target} is None', facts)
            if p is None:
                c.ok(where(d, w.node), f'{w.target} written only when it is None')
            else:
                c.fail(d, f'{w.target} written without `is None` guard', 'an explicitly supplied parent id is overwritten by the handler context', node=w.node, witness=c.path(g.entry, p))


def result_lookup(e: ast.AST | None) -> tuple[ast.AST, ast.AST] | None:
    """`<cur>.event_results[<k>]` or `<cur>.event_results.get(<k>)` -> (<cur>, <k>): the two spellings of "the result record of handler k on event cur"."""
    if isinstance(e, ast.Subscript) and isinstance(e.value, ast.Attribute) and e.value.attr == 'event_results':
        return e.value.value, e.slice
    if isinstance(e, ast.Call) and isinstance(e.func, ast.Attribute) and e.func.attr == 'get' and len(e.args) == 1 and not e.keywords \
            and isinstance(e.func.value, ast.Attribute) and e.func.value.attr == 'event_results':
        return e.func.value.value, e.args[0]
    return None


def result_lookup_via_local(u: Unit, e: ast.AST | None):
    """The handler's result record may be looked up first and kept in a local that is None when there is nothing to record into:
    `rec = None ... rec = <cur>.event_results.get(<k>) ... if rec is not None: rec.event_children.append(ev)`.  Returns (lookup parts, local name, the binding statement) or None."""
    if not isinstance(e, ast.Name):
        return None
    defs = [n for n in own_nodes(u.node) if isinstance(n, (ast.Assign, ast.AnnAssign)) and n.value is not None
            and any(isinstance(t, ast.Name) and t.id == e.id for t in (n.targets if isinstance(n, ast.Assign) else [n.target]))]
    real = [d for d in defs if not (isinstance(d.value, ast.Constant) and d.value.value is None)]
    if len(real) != 1:
        return None
    lk = result_lookup(real[0].value)
    return (lk, e.id, real[0]) if lk is not None else None


def lineage_writes(c: Ctx):
    d = c.unit(SVC, 'EventBus.dispatch')
    pid = [w for w in c.cg.writes[d.key] if w.attr == 'event_parent_id' and w.how == 'assign']
    kids = [w for w in c.cg.writes[d.key] if w.attr == 'event_children' and w.how in ('append', 'extend', 'insert')]
    return d, pid, kids


@ob('C09.3', 'SIB', 'both lineage writes in dispatch (parent id, children append) exclude the event currently being handled (event.event_id != current_event.event_id): '
    'forwarding never makes an event its own parent or child')
def c09_3(c: Ctx) -> None:
    d, pid, kids = lineage_writes(c)
    ev = d.params()[1]
    c.floor(len(pid) + len(kids), 2, 'lineage writes in dispatch (parent id + children append)')
    g = c.cfg(d)
    for w, what in [(x, 'event_parent_id assignment') for x in pid] + [(x, 'children append') for x in kids]:
        # the "current event" local: the object whose event_id is the value / whose results are appended to
        cur = None
        if w.attr == 'event_parent_id' and isinstance(w.node, ast.Assign) and isinstance(w.node.value, ast.Attribute) and w.node.value.attr == 'event_id':
            cur = U(w.node.value.value)
        elif w.attr == 'event_children':
            b = w.base
            while isinstance(b, (ast.Subscript, ast.Attribute, ast.Call)) and not (isinstance(b, ast.Attribute) and b.attr == 'event_results'):
                b = b.func if isinstance(b, ast.Call) else b.value
            if isinstance(b, ast.Attribute):
                cur = U(b.value)
            elif (vl := result_lookup_via_local(d, w.base)) is not None:
                cur = U(vl[0][0])
        if cur is None:
            c.fail(d, f'{what}: cannot identify the current event in {U(w.node)[:70]}', 'lineage write of unrecognised shape', node=w.node)
            continue
        atom = eq_atom(f'{ev}.event_id', f'{cur}.event_id')
        facts = Facts(lambda a: a == atom or a.isidentifier(), cg=c.cg, unit=d)  # (plain locals too: the record may be carried in one that is None when there is nothing to do)
        for n in g.nodes_of(q.stmt_of(w.node)):
            p = q.guard_search(g, n, f'{ev}.event_id != {cur}.event_id', facts)
            if p is None:
                c.ok(where(d, w.node), f'{what} only when {ev}.event_id != {cur}.event_id')
            else:
                c.fail(d, f'{what} lacks the self-exclusion `{ev}.event_id != {cur}.event_id`', 'forwarding the event being handled makes it its own ' + ('parent' if w.attr == 'event_parent_id' else 'child'), node=w.node, witness=c.path(g.entry, p))


@ob('C09.4', 'FLOW', "the children append targets the result record of the handler named by the handler-id context variable on the event named by the current-event "
    'context variable, at most once per dispatch and not in a loop')
def c09_4(c: Ctx) -> None:
    d, pid, kids = lineage_writes(c)
    c.floor(len(kids), 1, 'children append in dispatch')
    if len(kids) > 1:
        c.fail(d, f'{len(kids)} children appends in dispatch', 'a dispatched event can be recorded as a child more than once')
    for w in kids:
        tgt = w.base  # <cur>.event_results[<hid>]
        lk = result_lookup(tgt)
        if lk is None and (vl := result_lookup_via_local(d, tgt)) is not None:
            lk = vl[0]
        ok = lk is not None and isinstance(lk[0], ast.Name) and isinstance(lk[1], ast.Name)
        if not ok:
            c.fail(d, f'children appended to {U(tgt)[:70] if tgt is not None else "?"}', 'the child is not attributed to <current event>.event_results[<current handler id>]', node=w.node)
            continue
        cur, hid = lk[0].id, lk[1].id
        for name, var in ((cur, '_current_event_context'), (hid, '_current_handler_id_context')):
            defs = [n for n in own_nodes(d.node) if isinstance(n, (ast.Assign, ast.AnnAssign)) and n.value is not None and any(isinstance(t, ast.Name) and t.id == name for t in (n.targets if isinstance(n, ast.Assign) else [n.target]))]
            if defs and all(U(x.value) == f'{var}.get()' for x in defs):
                c.ok(where(d, w.node), f'`{name}` is {var}.get()')
            else:
                c.fail(d, f'`{name}` in the children append is not {var}.get(): {[U(x.value)[:40] for x in defs]}', 'the child is attributed to something other than the handler/event in the current context', node=w.node)
        loop = q.enclosing(w.node, (ast.For, ast.While, ast.AsyncFor))
        if loop is None:
            c.ok(where(d, w.node), 'children append is not inside a loop')
        else:
            c.fail(d, f'children append inside loop {q.stmt_text(loop, 60)}', 'a dispatched event can be recorded as a child several times', node=w.node)
        if isinstance(w.node, ast.Call) and w.how == 'append' and len(w.node.args) == 1 and U(w.node.args[0]) == d.params()[1]:
            c.ok(where(d, w.node), 'appends the dispatched event itself')
        else:
            c.fail(d, f'appends {U(w.node)[:60]}', 'something other than the dispatched event is recorded as the child', node=w.node)


def _neg(e: ast.AST) -> str | None:
    if isinstance(e, ast.UnaryOp) and isinstance(e.op, ast.Not):
        return U(e.operand)
    if isinstance(e, ast.Compare) and len(e.ops) == 1:
        flip = {ast.Is: 'is not', ast.IsNot: 'is', ast.Eq: '!=', ast.NotEq: '==', ast.In: 'not in', ast.NotIn: 'in'}.get(type(e.ops[0]))
        if flip:
            return f'{U(e.left)} {flip} {U(e.comparators[0])}'
    if isinstance(e, (ast.Name, ast.Attribute, ast.Call)):
        return None  # `not x` is not in any whitelist
    return None


def negated_conjuncts(test: ast.AST) -> list[str] | None:
    """Conjuncts that hold on the else-branch of `if test` (De Morgan on a disjunction)."""
    dis = test.values if isinstance(test, ast.BoolOp) and isinstance(test.op, ast.Or) else [test]
    out = []
    for d in dis:
        n = _neg(d)
        if n is None:
            return None
        out.append(n)
    return out


def check_child_registration_guards(c: Ctx) -> None:
    """The children append may be conditional only on: a handler context exists, the current event is known and has a result for that
    handler, the dispatched event is not the event being handled, and the event was accepted (queue present)."""
    d, pid, kids = lineage_writes(c)
    ev = d.params()[1]
    self_ = d.params()[0]
    if not kids:
        c.fail(d, 'no child registration in dispatch', 'events dispatched by a handler are not recorded as its children: the parent completes (and timeouts stop cancelling) without them')
        return
    for w in kids:
        tgt = w.base
        cur = hid = None
        lk = result_lookup(tgt)
        extra_sites: list[ast.AST] = []
        local_guards: set[str] = set()
        if lk is None and (vl := result_lookup_via_local(d, tgt)) is not None:
            lk = vl[0]
            local_guards = {f'{vl[1]} is not None', vl[1]}
            extra_sites = [vl[2]]  # the conditions under which the record is looked up count as conditions of the registration
        if lk is not None and isinstance(lk[0], ast.Name) and isinstance(lk[1], ast.Name):
            cur, hid = lk[0].id, lk[1].id
        allowed = local_guards | {
            f'{cur}.event_results.get({hid}) is not None', f'{cur}.event_results.get({hid})',  # "has a result for that handler", spelled as a lookup
            f'{hid} is not None', f'{hid}', f'{cur} is not None', f'{cur}', 'inside_handler_context.get()', f'{hid} in {cur}.event_results',
            f'{ev}.event_id != {cur}.event_id', f'{cur}.event_id != {ev}.event_id', f'{self_}.event_queue', f'{self_}.event_queue is not None',
        }
        bad = []
        # the allowed conditions, taken as facts: a guarding test in any spelling (De Morgan, a repeated `is not None`, `==` negated) is fine when these facts decide it
        fx = Facts(lambda a_: True, cg=c.cg, unit=d)
        env: dict = {}
        for t_ in sorted(allowed):
            if 'None.' in t_ or t_.startswith('None'):
                continue
            env = fx.assume(ast.parse(t_, mode='eval').body, True, env) or env
        for site, a in [(site, a) for site in [w.node] + extra_sites for a in q.ancestors_of(site) if isinstance(a, ast.If)]:
            in_body = q.lexically_in(site, a, 'body')
            conj = a.test.values if isinstance(a.test, ast.BoolOp) and isinstance(a.test.op, ast.And) else [a.test]
            if not in_body:
                if fx.eval(a.test, dict(env)) is False:
                    continue
                neg = negated_conjuncts(a.test)
                if neg is None:
                    bad.append(f'else-branch of `{U(a.test)[:60]}`')
                else:
                    bad.extend(x for x in neg if x not in allowed)
                continue
            for x in conj:
                if U(x) not in allowed and fx.eval(x, dict(env)) is not True:
                    bad.append(U(x)[:70])
        if not bad:
            c.ok(where(d, w.node), 'child registration is conditional only on: handler context present, not the event being handled, event accepted')
        else:
            c.fail(d, f'child registration is additionally conditional on {bad}', 'some events dispatched by a handler (e.g. with an explicitly supplied parent id) are not recorded as its children: the parent completes without them and a timeout does not cancel them', node=w.node)


@ob('C09.9', 'DOM', 'every accepted event dispatched from a handler (other than the event being handled) is registered as that handler\'s child: the registration is not conditional on '
    'anything else (in particular not on event_parent_id, which an explicitly supplied parent leaves untouched)')
def c09_9(c: Ctx) -> None:
    check_child_registration_guards(c)


@ob('C09.5', 'ORD', 'every handler invocation in execute_handler is preceded by all three context sets, with no suspension point between the sets and the invocation '
    '(the handler task snapshots the right values)')
def c09_5(c: Ctx) -> None:
    u = c.unit(SVC, 'EventBus.execute_handler')
    g = c.cfg(u)
    sets = ctx_sets(c, u)
    inv = [call for x, call in handler_invocations(c) if x.key == u.key]
    c.floor(len(inv), 2, 'handler invocations')
    from sa.cfg import search

    for var in CTX_VARS:
        if not any(v == var for _, v, _ in sets):
            c.fail(u, f'{var} is never set (token = {var}.set(...)) in execute_handler', f'handlers run without {var} naming them: dispatches made by a handler are not attributed to it')

    for call in inv:
        ist = q.stmt_of(call)
        for n in g.nodes_of(ist):
            for st, var, tok in sets:
                sid = {x.id for x in g.nodes_of(st)}
                p = search([(g.entry, ())], is_target=lambda x, d: x is n, is_barrier=lambda x, d: x.id in sid)
                if p is None:
                    c.ok(where(u, call), f'invocation dominated by {var}.set(...)')
                else:
                    c.fail(u, f'handler invocation `{q.stmt_text(ist, 50)}` reachable without {var}.set(...)', f'a handler runs without {var} naming it: its dispatches are mis-attributed', node=call, witness=c.path(g.entry, p))
            for st, var, tok in sets[:1]:
                for sn in g.nodes_of(st):
                    def suspends(x) -> bool:
                        if not q.node_has_await(x) or x is n:
                            return False
                        # entering / leaving `async with asyncio.timeout(..)` arms a timer, it does not yield to the event loop
                        if x.kind in ('with', 'withexit') and isinstance(x.ast, ast.AsyncWith) and all(isinstance(it.context_expr, ast.Call) and U(it.context_expr.func) in ('asyncio.timeout', 'asyncio.timeout_at') for it in x.ast.items):
                            return False
                        return True

                    p = search([(sn, ())], is_target=lambda x, d: suspends(x), is_barrier=lambda x, d: x is n, edge_ok=lambda x, e, d: None if e.is_exc else d)
                    # only awaits that lie on a path to the invocation matter
                    if p is not None:
                        aw = p[-1].node
                        p2 = search([(aw, ())], is_target=lambda x, d: x is n, edge_ok=lambda x, e, d: None if e.is_exc else d)
                        if p2 is not None:
                            c.fail(u, f'suspension point `{aw.text(60)}` between the context sets and the handler invocation', 'another task can run between setting the handler context and starting the handler', node=aw.ast, witness=c.path(sn, p))
                            continue
                    c.ok(where(u, call), 'no suspension point between the context sets and the invocation')


@ob('C09.8', 'CTX', 'overlapping handlers never share context variables: an async handler is started in its own task (asyncio.create_task snapshots the context at that moment), or — '
    'when it is awaited inside execute_handler — every concurrent execute_handler task is created with a context copy of its own; one Context object shared by the tasks of a '
    'parallel_handlers bus plus inline execution would let overlapping handlers overwrite each other\'s current-event / handler-id')
def c09_8(c: Ctx) -> None:
    u = c.unit(SVC, 'EventBus.execute_handler')
    inv = [call for x, call in handler_invocations(c) if x.key == u.key]
    c.floor(len(inv), 2, 'handler invocations')
    eh_tasks = [n for n in own_nodes(c.unit(SVC, 'EventBus._execute_handlers').node) if isinstance(n, ast.Call) and call_name(n) in ('create_task', 'ensure_future') and n.args and isinstance(n.args[0], ast.Call) and call_name(n.args[0]) == 'execute_handler']
    shared = [t for t in eh_tasks if q.kw(t, 'context') is not None]
    c.note(f'execute_handler tasks created with a shared context= object: {len(shared)} of {len(eh_tasks)}')
    # tasks of execute_handler that each get a context of their own: `context=contextvars.copy_context()` evaluated per task (a call in the create_task expression, not a
    # context object made once and handed to all of them), or no context= at all (create_task then copies the current context per task)
    def private_ctx(t: ast.Call) -> bool:
        kv = q.kw(t, 'context')
        return kv is None or (isinstance(kv, ast.Call) and U(kv.func) in ('contextvars.copy_context', 'copy_context') and not kv.args)

    all_private = bool(eh_tasks) and all(private_ctx(t) for t in eh_tasks)
    for call in inv:
        p_ = parent(call)
        if isinstance(p_, ast.Await) and all_private:
            c.ok(where(u, call), 'async handler awaited inside execute_handler, and every concurrent execute_handler task is created with a context of its own (per-task copy): handlers '
                 'that overlap do not share context variables; on a serial bus handlers do not overlap')
        elif isinstance(p_, ast.Await):
            c.fail(u, f'async handler awaited inline: {U(p_)[:60]}', 'the handler coroutine runs in the (shared) context of execute_handler instead of its own task: on a parallel_handlers bus overlapping handlers overwrite each other\'s handler context, children are attributed to the wrong handler', node=call)
        elif isinstance(p_, ast.Call) and call_name(p_) in ('create_task', 'ensure_future'):
            if q.kw(p_, 'context') is None:
                c.ok(where(u, call), 'async handler started with create_task (private copy of the current context)')
            else:
                c.fail(u, f'handler task created with an explicit context=: {U(p_)[:70]}', 'the handler task does not run in a private snapshot of the context set up for it', node=call)
        else:
            # sync invocation: must be on the non-coroutine branch
            gi = q.enclosing(call, (ast.If,))
            if gi is not None and 'iscoroutinefunction' not in U(gi.test):
                c.ok(where(u, call), 'sync handler called directly (cannot overlap: it never suspends)')
            elif gi is not None and any(q.lexically_in(call, gi, 'orelse') for _ in [0]):
                c.ok(where(u, call), 'sync handler called directly on the non-coroutine branch')
            else:
                c.fail(u, f'handler called without a task on the coroutine branch: {q.stmt_text(q.stmt_of(call), 60)}', 'an async handler is not given its own task/context', node=call)


@ob('C09.6', 'WMW', 'the current-event / inside-handler / handler-id context variables are written only in execute_handler (and reset to constants at the start of the run loop)')
def c09_6(c: Ctx) -> None:
    eh = c.unit(SVC, 'EventBus.execute_handler')
    rl = c.unit(SVC, 'EventBus._run_loop')
    from .c06 import runloop_context_preparers

    prep = runloop_context_preparers(c)  # a function run in the copied context the run-loop task is then started in: same as the start of the run loop
    n = 0
    for var in CTX_VARS:
        for w in [w for w in c.cg.all_writes(var) if w.target == var]:
            n += 1
            if w.unit.key == eh.key:
                c.ok(w.where() + ' ' + w.unit.qualname, f'{var}.{w.how}(...) in execute_handler')
            elif (w.unit.key == rl.key or w.unit.key in prep) and w.how == 'set' and isinstance(w.node, ast.Call) and len(w.node.args) == 1 and isinstance(w.node.args[0], ast.Constant) and w.node.args[0].value in (None, False):
                c.ok(w.where() + ' ' + w.unit.qualname, f'run loop resets {var} to {w.node.args[0].value}')
            else:
                c.fail(w.unit, f'writes {var}: {U(w.node)[:70]}', f'handler context variable {var} is written outside execute_handler (in {w.unit.qualname}): attribution of dispatches can be crossed', node=w.node)
    c.floor(n, 6, 'writes of the handler context variables')


@ob('C09.7', 'FLOW', 'inside a handler, event.event_bus must be derived from per-handler context (a context variable written by execute_handler, or the current handler\'s '
    'result record), not solely from event_path[-1], which forwarding appends to')
def c09_7(c: Ctx) -> None:
    u = c.unit(MOD, 'BaseEvent.event_bus')
    ctx_reads = {n.func.value.id for n in own_nodes(u.node) if isinstance(n, ast.Call) and call_name(n) == 'get' and isinstance(n.func, ast.Attribute) and isinstance(n.func.value, ast.Name)}
    per_handler = ctx_reads - {'inside_handler_context'}
    uses_results = any(isinstance(n, ast.Attribute) and n.attr in ('eventbus_id', 'eventbus_name') for n in own_nodes(u.node))
    path_last = [n for n in own_nodes(u.node) if isinstance(n, ast.Subscript) and isinstance(n.value, ast.Attribute) and n.value.attr == 'event_path'
                 and isinstance(n.slice, ast.UnaryOp) and isinstance(n.slice.op, ast.USub)]
    ws = [w for w in c.cg.writes.get(u.key, [])]
    for w in ws:
        c.fail(u, f'event_bus writes state: {U(w.node)[:70]}', 'event_bus memoises buses (by name) instead of resolving against the live registry: after stop(clear=True) / a name being re-used it returns a stale, stopped bus', node=w.node)
    mod_reads = [n for n in own_nodes(u.node) if isinstance(n, ast.Call) and call_name(n) == 'get' and isinstance(n.func, ast.Attribute) and isinstance(n.func.value, ast.Name) and n.func.value.id.startswith('_') and n.func.value.id not in TASKVARS and n.func.value.id in c.prog.module(MOD).globals_assign | c.prog.module(MOD).globals_ann.keys()]
    for n in mod_reads:
        c.fail(u, f'event_bus reads a module-level cache: {U(n)[:60]}', 'event_bus returns a memoised bus instead of resolving against the live registry', node=n)
    # "per handler" means: set where a handler starts.  A context variable set once per event (in step(), in the run loop) is inherited by handlers that run for ANOTHER bus
    # in the same context: process_event is also called from the in-handler loop of `await event`, for events of every bus
    eh = c.unit(SVC, 'EventBus.execute_handler')
    not_per_handler = []
    for var in sorted(per_handler):
        sets = [w for w in c.cg.all_writes(var) if w.target == var and w.how == 'set']
        if sets and not any(w.unit.key == eh.key for w in sets):
            not_per_handler.append((var, sorted({w.unit.qualname for w in sets})))
    for var, where_set in not_per_handler:
        c.fail(u, f'event_bus reads {var}, which is set in {where_set} and not in execute_handler', f'{var} is not per-handler context: it is set in {where_set}, but handlers also run through the in-handler '
               'loop of `await event` (process_event called from another bus\'s handler), where they inherit the awaiting handler\'s value: event.event_bus is the wrong bus there')
    if not_per_handler:
        pass
    elif per_handler or uses_results:
        c.ok(where(u), f'event_bus derives the bus from per-handler context ({sorted(per_handler) or "result record"})')
    elif path_last:
        c.fail(u, f'return value selected by {U(path_last[0])}', 'inside a handler that runs after a forwarding handler, event.event_bus is the forwarded-to bus, not the bus running the handler', node=path_last[0],
               witness=[f'{where(u, path_last[0])}: {U(q.stmt_of(path_last[0]))}', 'forwarding appends the target bus to event_path while the source bus is still running handlers'])
    else:
        c.fail(u, 'event_bus does not use per-handler context', 'event.event_bus cannot identify the bus running the current handler')


@ob('C09.10', 'SIB', 'ids that are compared with each other are normalised by one and the same validator: BaseEvent.event_id, BaseEvent.event_parent_id and EventResult.event_id carry the '
    'same annotated type (modulo `| None`); otherwise a child\'s event_parent_id (canonicalised on assignment) need not equal its parent\'s event_id, and the parent is never found')
def c09_10(c: Ctx) -> None:
    def ann_of(cls: str, field: str) -> ast.AST | None:
        ci = c.prog.cls(cls)
        for st in ci.node.body:
            if isinstance(st, ast.AnnAssign) and isinstance(st.target, ast.Name) and st.target.id == field:
                return st.annotation
        return None

    def strip_none(a: ast.AST) -> str:
        if isinstance(a, ast.BinOp) and isinstance(a.op, ast.BitOr):
            parts = [x for x in (a.left, a.right) if not (isinstance(x, ast.Constant) and x.value is None)]
            if len(parts) == 1:
                return strip_none(parts[0])
        if isinstance(a, ast.Subscript) and U(a.value).split('.')[-1] == 'Optional':
            return strip_none(a.slice)
        return U(a)

    fields = [('BaseEvent', 'event_id'), ('BaseEvent', 'event_parent_id'), ('EventResult', 'event_id')]
    anns = {}
    for cls, f in fields:
        a = ann_of(cls, f)
        if a is None:
            raise AnchorError(f'{cls}.{f}: annotated field not found')
        anns[(cls, f)] = strip_none(a)
    ref = anns[('BaseEvent', 'event_parent_id')]
    ci = c.prog.cls('BaseEvent')
    for (cls, f), t in anns.items():
        if t == ref:
            c.ok(f'{ci.module} {cls}.{f}', f'{cls}.{f}: {t}')
        else:
            c.fail(f'{ci.module} {cls}', f'{cls}.{f} is annotated {t}, BaseEvent.event_parent_id is {ref}',
                   f'{cls}.{f} ({t}) and event_parent_id ({ref}) are validated / canonicalised differently: ids that denote the same event can compare unequal (e.g. an upper-case id supplied by the caller), so a child '
                   'does not find its parent and the parent never completes')


@ob('C09.11', 'WMC', 'handler values are invoked only by execute_handler, which sets the current event / handler id around the call (same obligation as C01.6): a handler — in particular '
    'a forwarding `other_bus.dispatch` — invoked anywhere else runs with whatever current event its task inherited, and what it dispatches is attributed to that stale event')
def c09_11(c: Ctx) -> None:
    from .c01 import c01_6

    c01_6(c)


def check_dispatch_entry_points(c: Ctx) -> None:
    """Events enter a bus only through dispatch(): it is the only function that enqueues on the event queue / inserts into event_history / assigns event_parent_id,
    so the lineage and child bookkeeping it performs cannot be bypassed by another entry point."""
    d = c.unit(SVC, 'EventBus.dispatch')
    owners = c.cg.owners_closure({d.key})
    n = 0
    for attr, hows in (('event_parent_id', ('assign',)), ('event_history', ('subscript', 'setitem', '__setitem__', 'assign@item', 'setdefault', 'update'))):
        for w in c.cg.all_writes(attr):
            if w.unit.module not in (SVC, MOD) or w.unit.name == '__init__':
                continue
            if attr == 'event_history' and not (w.how in hows or (w.how.startswith('assign') and isinstance(w.node, ast.Assign) and isinstance(w.node.targets[0], ast.Subscript))):
                continue
            n += 1
            if w.unit.key in owners:
                c.ok(where(w.unit, w.node), f'{attr} written by dispatch ({w.how})')
            else:
                c.fail(w.unit, f'{w.unit.qualname} writes {attr}: {q.stmt_text(q.stmt_of(w.node), 60)}', f'an event enters a bus (history / lineage) through {w.unit.qualname} instead of dispatch(): the parent / child '
                       'bookkeeping of dispatch is bypassed', node=w.node)
    if n == 0:
        raise AnalysisError('no write of event_parent_id / event_history found')


@ob('C09.12', 'CTX', 'code that runs later than the handler that started it (a task, a callback scheduled with call_later / call_soon / add_done_callback) and dispatches or processes events '
    'does not inherit that handler\'s context (same obligation as C06.3): otherwise what it dispatches is attributed to an event whose handler has long finished')
def c09_12(c: Ctx) -> None:
    from .c06 import c06_3

    c06_3(c)


OBLIGATIONS = ob.obs
