"""C16 — stop() and loop shutdown terminate the bus promptly: structural necessary conditions."""

from __future__ import annotations

import ast

from .common import *  # noqa: F401,F403
from .common import SVC, MOD, CANCEL, AnalysisError, Ctx, Facts, Registry, U, Unit, await_coro, call_name, fmt_path, handler_type_names, own_nodes, parent, q, where
from .c01 import dequeue_sites

ob = Registry()


def awaits_of(u: Unit) -> list[ast.Await]:
    return sorted([n for n in own_nodes(u.node) if isinstance(n, ast.Await)], key=lambda n: n.lineno)


def bounded_wait_until_idle(c: Ctx) -> list[str]:
    """Reasons why wait_until_idle(timeout=t), t not None, might not return in bounded time (empty = bounded)."""
    u = c.unit(SVC, 'EventBus.wait_until_idle')
    why = []
    tparam = 'timeout'
    derived = {tparam}
    grew = True
    while grew:  # (to a fixed point: the order in which assignments are visited is not the order in which they run)
        grew = False
        for n in own_nodes(u.node):
            if isinstance(n, ast.Assign) and isinstance(n.targets[0], ast.Name) and n.targets[0].id not in derived and any(isinstance(x, ast.Name) and x.id in derived for x in ast.walk(n.value)):
                derived.add(n.targets[0].id)
                grew = True
    for a in awaits_of(u):
        v = a.value
        if isinstance(v, ast.Call) and call_name(v) == 'wait_for':
            to = q.kw(v, 'timeout') or (v.args[1] if len(v.args) > 1 else None)
            def none_iff_no_timeout(nm: str, depth: int = 0) -> bool:
                # the parameter itself, or a local whose one definition is `None if <such a name> is None else <number>` — NOT a truthiness test: `x if timeout else None`
                # is None for timeout=0 as well, and a wait bounded by it is then not bounded at all
                if nm == tparam:
                    return True
                ds = [n for n in own_nodes(u.node) if isinstance(n, (ast.Assign, ast.AnnAssign)) and n.value is not None and isinstance((n.targets[0] if isinstance(n, ast.Assign) else n.target), ast.Name)
                      and (n.targets[0] if isinstance(n, ast.Assign) else n.target).id == nm]
                if len(ds) != 1 or depth > 3 or not isinstance(ds[0].value, ast.IfExp):
                    return False
                v_ = ds[0].value
                t_ = v_.test
                if not (isinstance(t_, ast.Compare) and len(t_.ops) == 1 and isinstance(t_.left, ast.Name) and isinstance(t_.comparators[0], ast.Constant) and t_.comparators[0].value is None
                        and isinstance(t_.ops[0], (ast.Is, ast.IsNot)) and none_iff_no_timeout(t_.left.id, depth + 1)):
                    return False
                none_arm, num_arm = (v_.body, v_.orelse) if isinstance(t_.ops[0], ast.Is) else (v_.orelse, v_.body)
                return isinstance(none_arm, ast.Constant) and none_arm.value is None and not (isinstance(num_arm, ast.Constant) and num_arm.value is None)

            def bounded(e) -> bool:
                # a number whenever the timeout parameter is one: a name derived from it, a numeric literal, arithmetic / max / min over those, or
                # `None if timeout is None else <such>` (the None arm is taken only when no timeout was given)
                if isinstance(e, ast.Name):
                    return e.id in derived
                if isinstance(e, ast.Constant):
                    return isinstance(e.value, (int, float)) and not isinstance(e.value, bool)
                if isinstance(e, ast.IfExp) and isinstance(e.test, ast.Compare) and len(e.test.ops) == 1 and isinstance(e.test.left, ast.Name) and none_iff_no_timeout(e.test.left.id) \
                        and isinstance(e.test.comparators[0], ast.Constant) and e.test.comparators[0].value is None:
                    none_arm, num_arm = (e.body, e.orelse) if isinstance(e.test.ops[0], ast.Is) else (e.orelse, e.body) if isinstance(e.test.ops[0], ast.IsNot) else (None, None)
                    return none_arm is not None and isinstance(none_arm, ast.Constant) and none_arm.value is None and bounded(num_arm)
                if isinstance(e, ast.BinOp) and isinstance(e.op, (ast.Add, ast.Sub)):
                    return bounded(e.left) or bounded(e.right)
                if isinstance(e, ast.Call) and isinstance(e.func, ast.Name) and e.func.id in ('max', 'min') and not e.keywords:
                    return any(bounded(x) for x in e.args) and (e.func.id == 'min' or all(bounded(x) or isinstance(x, (ast.BinOp, ast.Call)) for x in e.args))
                return False

            if to is None or not bounded(to):
                why.append(f'`{U(v)[:60]}` is not bounded by the timeout')
        elif isinstance(v, ast.Call) and U(v.func) in ('asyncio.sleep',) and v.args and isinstance(v.args[0], ast.Constant):
            pass
        else:
            why.append(f'unbounded await `{U(v)[:60]}`')
    loops = [n for n in own_nodes(u.node) if isinstance(n, ast.While)]
    for lp in loops:
        has_deadline = any(isinstance(x, ast.Raise) and x.exc is not None and 'TimeoutError' in U(x.exc) for x in ast.walk(lp))
        if not has_deadline:
            why.append(f'loop `while {U(lp.test)[:50]}` does not re-check the deadline')
    return why


@ob('C16.1', 'EFFECT', 'every await in stop() is bounded: wait_until_idle(timeout=<given, non-None>) — itself built only from wait_for(.., timeout=remaining) / sleep(0) with a '
    'deadline re-check — or asyncio.wait(.., timeout=<constant>)')
def c16_1(c: Ctx) -> None:
    u = c.unit(SVC, 'EventBus.stop')
    g = c.cfg(u)
    aws = awaits_of(u)
    c.floor(len(aws), 1, 'awaits in stop()')
    why_wui = bounded_wait_until_idle(c)
    for a in aws:
        v = a.value
        if isinstance(v, ast.Call) and call_name(v) == 'wait_until_idle':
            to = q.kw(v, 'timeout') or (v.args[0] if v.args else None)
            if to is None:
                c.fail(u, 'stop() awaits wait_until_idle() without a timeout', 'stop() blocks for as long as the bus is busy', node=a)
                continue
            facts = Facts(lambda x: x == U(to), cg=c.cg, unit=u)
            bad = [p for n in g.nodes_of(q.stmt_of(a)) if (p := q.guard_search(g, n, f'{U(to)} is not None', facts)) is not None]
            if bad:
                c.fail(u, f'wait_until_idle(timeout={U(to)}) reachable with {U(to)} possibly None', 'stop() can wait without bound', node=a, witness=c.path(g.entry, bad[0]))
            elif why_wui:
                c.fail(c.unit(SVC, 'EventBus.wait_until_idle'), f'wait_until_idle is not bounded by its timeout: {why_wui[0]}', 'stop(timeout=t) can take longer than t (or forever)', node=a)
            else:
                c.ok(where(u, a), f'awaits wait_until_idle(timeout={U(to)}) only with a non-None timeout; wait_until_idle is bounded by it')
        elif isinstance(v, ast.Call) and U(v.func) == 'asyncio.wait_for' and v.args and isinstance(v.args[0], (ast.Name, ast.Attribute)):
            c.fail(u, f'stop() awaits {U(v)[:60]}: wait_for on a task object', 'at the deadline wait_for cancels the task and then waits until it has really finished: a run loop whose handler reacts slowly to '
                   'cancellation (an await in `finally`, a swallowed CancelledError) keeps stop() blocked without bound (asyncio.wait({task}, timeout) returns at the deadline)', node=a)
        elif isinstance(v, ast.Call) and U(v.func) in ('asyncio.wait', 'asyncio.wait_for'):
            to = q.kw(v, 'timeout')
            if isinstance(to, ast.Name):
                # a new keyword parameter of stop() with a numeric default (a configurable grace period): the wait is bounded by a number either way; read at its default
                from .common import at_new_defaults

                to2, fixed = at_new_defaults(c, u, to)
                if fixed and isinstance(to2, ast.Constant):
                    to = to2
            const_attr = None
            if isinstance(to, ast.Attribute) and isinstance(to.value, ast.Name) and to.value.id == u.params()[0]:
                # a class-level numeric constant that nothing assigns
                ci = c.prog.cls('EventBus')
                vals = [st_.value for st_ in ci.node.body if isinstance(st_, (ast.Assign, ast.AnnAssign)) and st_.value is not None and U(st_.targets[0] if isinstance(st_, ast.Assign) else st_.target) == to.attr]
                if len(vals) == 1 and isinstance(vals[0], ast.Constant) and isinstance(vals[0].value, (int, float)) and not isinstance(vals[0].value, bool) and not c.cg.all_writes(to.attr):
                    const_attr = vals[0].value
            if isinstance(to, ast.Constant) and isinstance(to.value, (int, float)):
                c.ok(where(u, a), f'awaits {U(v.func)}(.., timeout={to.value})')
            elif const_attr is not None:
                c.ok(where(u, a), f'awaits {U(v.func)}(.., timeout={U(to)} = {const_attr}, a class constant nothing assigns)')
            else:
                c.fail(u, f'{U(v)[:70]} without a constant timeout', 'stop() can block on the run-loop task', node=a)
        elif isinstance(v, ast.Call) and U(v.func) == 'asyncio.sleep' and v.args and isinstance(v.args[0], ast.Constant):
            c.ok(where(u, a), f'awaits {U(v)}')
        else:
            c.fail(u, f'unbounded await in stop(): {U(v)[:70]}', 'stop() can block forever (e.g. on a handler that never finishes)', node=a)


@ob('C16.2', 'ORD', 'stop() clears _is_running and shuts the queue down before it waits for the run-loop task, and cancels the task afterwards on every path on which it has not finished '
    '(a further bounded wait after the cancellation — a grace period — is allowed)')
def c16_2(c: Ctx) -> None:
    u = c.unit(SVC, 'EventBus.stop')
    g = c.cfg(u)
    self_ = u.params()[0]
    from sa.cfg import search

    task_names = {'_runloop_task'}
    for n in own_nodes(u.node):
        if isinstance(n, ast.Assign):
            tg, val = n.targets[0], n.value
            pairs = list(zip(tg.elts, val.elts)) if isinstance(tg, ast.Tuple) and isinstance(val, ast.Tuple) and len(tg.elts) == len(val.elts) else [(tg, val)]
            for t_, v_ in pairs:
                if isinstance(t_, ast.Name) and '_runloop_task' in U(v_):
                    task_names.add(t_.id)
    waits = [n for n in g.live_nodes() if q.node_has_await(n) and any(t in U(n.ast) for t in task_names) and n.kind == 'stmt']
    c.floor(len(waits), 1, 'wait on the run-loop task in stop()')
    offs = {n.id for n in g.live_nodes() if n.kind == 'stmt' and isinstance(n.ast, ast.Assign) and U(n.ast.targets[0]) == f'{self_}._is_running' and isinstance(n.ast.value, ast.Constant) and n.ast.value.value is False}
    shuts = [n for n in g.live_nodes() if any(call_name(x) == 'shutdown' for x in q.node_calls(n))]
    cancels = [n for n in g.live_nodes() if any(call_name(x) == 'cancel' and any(t in U(x.func.value) for t in task_names) for x in q.node_calls(n))]
    for wn in waits:
        p = search([(g.entry, ())], is_target=lambda n, d: n is wn, is_barrier=lambda n, d: n.id in offs)
        if p is None and offs:
            c.ok(where(u, wn.ast), '_is_running = False precedes the wait on the run-loop task')
        else:
            c.fail(u, 'wait on the run-loop task reachable before _is_running = False', 'the run loop keeps taking events while stop() waits for it', node=wn.ast)
        # queue shutdown: allowed to be skipped only when there is no queue
        sh_ifs = {id(q.enclosing(s.ast, (ast.If,))) for s in shuts}
        qatom = f'{self_}.event_queue'
        fq = Facts(lambda a: a == qatom)

        def no_queue(test: ast.AST) -> bool:
            # the test being false means there is no queue (`if self.event_queue:` / `if self.event_queue is not None:`)
            env_ = fq.assume(test, False, {})
            return env_ is not None and fq.eval(ast.parse(qatom, mode='eval').body, env_) is False

        p = search([(g.entry, ())], is_target=lambda n, d: n is wn, is_barrier=lambda n, d: n in shuts,
                   edge_ok=lambda n, e, d: None if (n.kind == 'if' and id(n.ast) in sh_ifs and e.label == 'false' and no_queue(n.ast.test)) else d)
        if p is None and shuts:
            c.ok(where(u, wn.ast), 'event_queue.shutdown() precedes the wait (a blocked get() is released)')
        else:
            c.fail(u, 'wait on the run-loop task reachable without event_queue.shutdown()', 'the run loop stays blocked in queue.get() while stop() waits', node=wn.ast)
        implicit = any(call_name(x) == 'wait_for' for x in q.node_calls(wn))  # wait_for cancels the awaited task itself at the deadline (C16.1 judges its boundedness)
        # a wait that comes after the cancellation was requested (a grace period for the task to unwind) needs no further cancel
        already = bool(cancels) and search([(g.entry, ())], is_target=lambda n, d: n is wn, is_barrier=lambda n, d: n in cancels) is None
        if already:
            c.ok(where(u, wn.ast), 'this wait comes after the run-loop task was cancelled (grace period)')
            continue

        def done_skip(n, e) -> bool:
            # `if not T.done(): T.cancel()`: a task that has finished needs no cancel
            if n.kind != 'if':
                return False
            t_ = U(n.ast.test)
            return (e.label == 'false' and t_ in {f'not {x}.done()' for x in task_names} | {f'not {self_}.{x}.done()' for x in task_names}) or \
                   (e.label == 'true' and t_ in {f'{x}.done()' for x in task_names} | {f'{self_}.{x}.done()' for x in task_names})

        p = None if implicit else search([(e_.dst, ()) for e_ in wn.succ if not e_.is_exc and e_.dst not in cancels], is_target=lambda n, d: n.kind in ('exit', 'raise_exit'), is_barrier=lambda n, d: n in cancels,
                                         edge_ok=lambda n, e, d: None if (e.is_exc or done_skip(n, e)) else d)
        if p is None and (cancels or implicit):
            c.ok(where(u, wn.ast), 'the run-loop task is cancelled after the bounded wait on every path')
        else:
            c.fail(u, 'run-loop task not cancelled after the wait on some path', 'a hanging run loop (handler mid-flight) survives stop()', node=wn.ast, witness=c.path(wn, p) if p else [])


def swallows_cancel(c: Ctx, u: Unit, arm: ast.ExceptHandler) -> list | None:
    """Witness that the arm completes normally (or returns) after catching CancelledError; None if it always re-raises."""
    g = c.cfg(u)
    entries = [n for n in g.nodes_of(arm, ('except',)) if n.exc is not None and n.exc.name == 'CancelledError']
    inside = {id(x) for b in arm.body for x in ast.walk(b)}
    from sa.cfg import search

    for en in entries:
        p = search([(en, ())], is_target=lambda n, d: (n.ast is None or id(n.ast) not in inside) and n.kind not in ('raise_exit', 'reraise'),
                   edge_ok=lambda n, e, d: None if e.is_exc else d)
        if p is not None:
            return c.path(en, p)
    return None


def awaits_just_cancelled_task(arm: ast.ExceptHandler) -> bool:
    """Every await in the arm's try body awaits a task T for which `T.cancel()` was called just before (earlier in the
    try body, or in the statement directly preceding the try)."""
    tr = parent(arm)
    if not isinstance(tr, ast.Try):
        return False
    awaits = [x for b in tr.body for x in ast.walk(b) if isinstance(x, ast.Await)]
    if not awaits:
        return False
    blk = q.block_of(tr) or []
    idx = next((i for i, s in enumerate(blk) if s is tr), 0)
    scope = list(tr.body) + ([blk[idx - 1]] if idx > 0 else [])
    cancels = [(x.func.value.id, x.lineno) for s in scope for x in ast.walk(s)
               if isinstance(x, ast.Call) and call_name(x) == 'cancel' and isinstance(x.func, ast.Attribute) and isinstance(x.func.value, ast.Name)]
    for a in awaits:
        names = {n.id for n in ast.walk(a.value) if isinstance(n, ast.Name)}
        if not any(t in names and ln <= a.lineno for t, ln in cancels):
            return False
    return True


def runloop_cancel_guard(c: Ctx) -> tuple[bool, list[str]]:
    """Does every iteration of the run loop's `while` re-check `current_task().cancelling()` and leave the loop when it is set?"""
    rl = c.unit(SVC, 'EventBus._run_loop')
    g = c.cfg(rl)
    # the processing loop: the `while` whose body performs the step (a folded helper may bring further, inner `while`s of its own)
    whiles = [n for n in g.live_nodes() if n.kind == 'while' and any(isinstance(x, ast.Call) and call_name(x) == 'step' for b in n.ast.body for x in ast.walk(b))]
    whiles = [n for n in whiles if not any(m is not n and q.lexically_in(n.ast, m.ast, 'body') for m in whiles)]
    if len(whiles) != 1:
        return False, [f'{len(whiles)} loops around step() in _run_loop']
    head = whiles[0]
    loop = head.ast
    # names bound to asyncio.current_task()
    tasks = {U(n.targets[0]) for n in own_nodes(rl.node) if isinstance(n, ast.Assign) and isinstance(n.value, ast.Call) and U(n.value.func) in ('asyncio.current_task', 'current_task')}
    guards = []
    for n in g.live_nodes():
        if n.kind == 'if' and q.lexically_in(n.ast, loop, 'body') and any(isinstance(x, ast.Call) and call_name(x) == 'cancelling' and isinstance(x.func, ast.Attribute) and (U(x.func.value) in tasks or 'current_task()' in U(x.func.value)) for x in ast.walk(n.ast.test)):
            leaves = any(isinstance(b, (ast.Break, ast.Return, ast.Raise)) for b in n.ast.body)
            conj = n.ast.test.values if isinstance(n.ast.test, ast.BoolOp) and isinstance(n.ast.test.op, ast.And) else [n.ast.test]
            simple = all(any(isinstance(x, ast.Call) and call_name(x) == 'cancelling' for x in ast.walk(v)) or U(v) in {f'{t} is not None' for t in tasks} | set(tasks) for v in conj)
            if leaves and simple:
                guards.append(n)
    # the same guard spelled through a flag: `flag = <expr over current_task().cancelling()>` followed, on every way back to the loop head, by an `if` over that
    # flag which leaves the loop when a cancellation is pending (this is also what folding a `_run_loop_iteration() -> bool` helper produces)
    from sa.absint import AbsInt, Rec
    from sa.cfg import search as _search

    for n in g.live_nodes():
        st_ = n.ast
        if not (n.kind == 'stmt' and isinstance(st_, ast.Assign) and len(st_.targets) == 1 and isinstance(st_.targets[0], ast.Name) and q.lexically_in(st_, loop, 'body')):
            continue
        if not any(isinstance(x, ast.Call) and call_name(x) == 'cancelling' for x in ast.walk(st_.value)):
            continue
        flag = st_.targets[0].id
        env = {t: Rec() for t in tasks}
        ai = AbsInt(calls={'.cancelling': lambda *a: True, 'asyncio.current_task': lambda *a: Rec(), 'current_task': lambda *a: Rec()})
        val = ai.truth(ai.ev(st_.value, env))
        if val is None:
            continue
        ifs = [m for m in g.live_nodes() if m.kind == 'if' and q.lexically_in(m.ast, loop, 'body') and flag in {x.id for x in ast.walk(m.ast.test) if isinstance(x, ast.Name)}]
        leaving = []
        for m in ifs:
            t = AbsInt().truth(AbsInt().ev(m.ast.test, {flag: val}))
            branch = m.ast.body if t else m.ast.orelse if t is False else None
            if branch is not None and any(isinstance(b, (ast.Break, ast.Return, ast.Raise)) for b in branch):
                leaving.append(m)
        if not leaving:
            continue
        lid = {m.id for m in leaving}
        # from the assignment, no way back to the loop head avoids such an `if` (and the flag is not reassigned on the way)
        fl0 = Facts(lambda a: False, cg=c.cg, unit=rl)
        esc = _search([(n, ())], is_target=lambda x, d: x is head, is_barrier=lambda x, d: x.id in lid,
                      edge_ok=lambda x, e, d: None if (x is head and e.label != 'true') else fl0.edge_ok(x, e, d), transfer=fl0.transfer)
        if esc is None:
            guards.append(n)
    if not guards:
        return False, ['the run loop never re-checks current_task().cancelling()']
    gid = {n.id for n in guards}
    from sa.cfg import search

    # every way back to the loop head (normal completion of an iteration, or after a contained exception) passes the guard
    # (facts: the synthetic flags a folded helper leaves behind are tracked, so that infeasible combinations of them are not explored)
    fl = Facts(lambda a: False, cg=c.cg, unit=rl)

    def edge_ok(n, e, d):
        if n is head and e.label != 'true':
            return None
        return fl.edge_ok(n, e, d)

    p = search([(head, ())], is_target=lambda n, d: n is head, is_barrier=lambda n, d: n.id in gid, edge_ok=edge_ok, transfer=fl.transfer)
    if p is not None:
        return False, ['an iteration of the run loop can start over without re-checking current_task().cancelling()'] + fmt_path(head, p)
    # the same between any two steps: an inner loop that keeps stepping (a "drain the backlog" fast path) must re-check too, otherwise a cancellation absorbed inside a
    # step is lost for as long as the backlog lasts
    step_nodes = [n for n in g.live_nodes() if n.ast is not None and n.kind in ('stmt', 'return', 'if', 'while') and any(call_name(x) == 'step' for x in q.node_calls(n))]
    # (guards spelled through a flag are edges out of an `if` over the flag, recognised above as the assignment that computes it: on the way from that assignment back to a step
    #  the search passes the assignment node, which is in `gid`)
    sid = {n.id for n in step_nodes}
    for sn in step_nodes:
        # (start from what is known when the step is reached: flags a folded helper initialises before it)
        succ0 = [(e.dst, tuple(sorted(fl.transfer(sn, dict(env0)).items()))) for env0 in (q.envs_at(g, sn, fl) or [{}]) for e in sn.succ]
        p2 = search(succ0, is_target=lambda n, d: n.id in sid, is_barrier=lambda n, d: n.id in gid, edge_ok=lambda n, e, d: fl.edge_ok(n, e, d), transfer=fl.transfer) if succ0 else None
        if p2 is not None:
            return False, ['step() can be called again without re-checking current_task().cancelling() in between (an inner loop around step())'] + fmt_path(sn, p2)
    return True, []


@ob('C16.3', 'ESC', 'cancellation cannot be lost in the run loop\'s call tree: every arm that can catch CancelledError re-raises on all paths (the outermost arm of _run_loop, '
    'outside its while, ends the task) — or, for arms that absorb it, the run loop re-checks current_task().cancelling() on every iteration and leaves the loop')
def c16_3(c: Ctx) -> None:
    rl = c.unit(SVC, 'EventBus._run_loop')
    reach = dict(c.cg.reach([rl]))
    for extra in (await_coro(c), c.unit(SVC, 'CleanShutdownQueue.get')):
        reach[extra.key] = extra
    H = c.an.fm.h
    guard_ok, why = runloop_cancel_guard(c)
    if guard_ok:
        c.ok(where(rl), 'every iteration of the run loop re-checks current_task().cancelling() and breaks: an absorbed cancellation still ends the loop within one step')
    n_arms = 0
    for u in reach.values():
        if u.module == 'bubus/logging.py':
            continue
        for arm in [n for n in own_nodes(u.node) if isinstance(n, ast.ExceptHandler)]:
            if H.match(CANCEL, handler_type_names(arm)) == 'no':
                continue
            n_arms += 1
            w = swallows_cancel(c, u, arm)
            if w is None:
                c.ok(where(u, arm), f'`except {U(arm.type) if arm.type else ""}` re-raises CancelledError')
                continue
            in_loop = any(isinstance(a, (ast.While, ast.For, ast.AsyncFor)) for a in q.ancestors_of(arm))
            if u.key == rl.key and not in_loop:
                c.ok(where(u, arm), 'outermost arm of _run_loop: catches the cancellation and ends the task (outside the while)')
            elif not c.an.cfg(u).nodes_of(arm, ('except',)):
                c.ok(where(u, arm), 'arm unreachable for CancelledError')
            elif guard_ok:
                c.ok(where(u, arm), 'arm can absorb a CancelledError, but the run loop re-checks current_task().cancelling() after the step')
            else:
                what = 'awaits a helper task it has just cancelled: a cancellation of the run loop task arriving there is indistinguishable and swallowed' if awaits_just_cancelled_task(arm) else 'swallows CancelledError'
                c.fail(u, f'except {U(arm.type) if arm.type else "<bare>"} {("absorbs CancelledError after cancelling its helper task" if awaits_just_cancelled_task(arm) else "swallows CancelledError")}, and {why[0]}',
                       f'cancelling the run-loop task (asyncio.run() teardown, stop()) can be lost ({what}); the loop carries on and the program cannot exit', node=arm, witness=w + why[1:])
    c.floor(n_arms, 4, 'arms that can catch CancelledError in the run loop call tree')


@ob('C16.4', 'DOM', 'every dequeue is guarded by the owning bus\'s _is_running (no handler of a stopped bus starts, including through another bus\'s inline loop)')
def c16_4(c: Ctx) -> None:
    sites = dequeue_sites(c)
    c.floor(len(sites), 2, 'dequeue sites')
    for u, call in sites:
        r = call.func.value  # <bus>.event_queue
        bus = U(r.value) if isinstance(r, ast.Attribute) else None
        if bus is None:
            c.fail(u, f'dequeue receiver {U(r)} is not <bus>.event_queue', 'dequeue site of unrecognised shape', node=call)
            continue
        atom = f'{bus}._is_running'
        g = c.cfg(u)
        facts = Facts(lambda a: a == atom, cg=c.cg, unit=u)
        st = q.stmt_of(call)
        bad = [p for n in g.nodes_of(st) if (p := q.guard_search(g, n, atom, facts)) is not None]
        if not bad:
            c.ok(where(u, call), f'`{U(call)}` only when {atom}')
        else:
            c.fail(u, f'{U(call)} not guarded by {atom}', 'queued events of a stopped bus are processed (their handlers start after stop() returned)', node=call, witness=c.path(g.entry, bad[0]))



@ob('C16.6', 'EFFECT', 'a handler starts as soon as its executor task starts: between the entry of the task payload (execute_handler, or a wrapper of it) and the invocation of the handler '
    'nothing suspends — no internal queue, slot or semaphore a task could be parked in while stop() cancels the run loop and returns, only to start its handler afterwards')
def c16_6(c: Ctx) -> None:
    from .c01 import HANDLER_WRAPPERS, exec_handler_sites, handler_invocations

    exec_handler_sites(c)
    eh = c.unit(SVC, 'EventBus.execute_handler')
    payloads = [(eh, lambda n, g=None: False)]
    inv = [call for x, call in handler_invocations(c) if x.key == eh.key]
    c.floor(len(inv), 1, 'handler invocations in execute_handler')
    units = [(eh, {id(q.stmt_of(call)) for call in inv}, 'the handler invocation')]
    for w in HANDLER_WRAPPERS.get(id(c.prog), {}).values():
        units.append((w, {id(q.stmt_of(x)) for x in own_nodes(w.node) if isinstance(x, ast.Call) and call_name(x) == 'execute_handler'}, 'the call of execute_handler'))
    from sa.cfg import search

    for u, targets, what in units:
        g = c.cfg(u)
        tnodes = [n for n in g.live_nodes() if n.ast is not None and id(n.ast) in targets]
        if not tnodes:
            raise AnalysisError(f'{u}: {what} not found in the CFG')
        tids = {n.id for n in tnodes}
        def enters_timeout_only(n) -> bool:
            # `async with asyncio.timeout(..)` does not suspend on entry
            return n.kind == 'with' and isinstance(n.ast, ast.AsyncWith) and all(isinstance(it.context_expr, ast.Call) and U(it.context_expr.func) in ('asyncio.timeout', 'asyncio.timeout_at') for it in n.ast.items)

        susp = [n for n in g.live_nodes() if n.id not in tids and q.node_has_await(n) and not enters_timeout_only(n)]
        bad = None
        for sn in susp:
            # a suspension point that lies on a path entry -> ... -> target
            p1 = search([(g.entry, ())], is_target=lambda n, d, sn=sn: n is sn, is_barrier=lambda n, d: n.id in tids, edge_ok=lambda n, e, d: None if e.is_exc else d)
            if p1 is None:
                continue
            p2 = search([(sn, ())], is_target=lambda n, d: n.id in tids, edge_ok=lambda n, e, d: None if e.is_exc else d)
            if p2 is not None:
                bad = (sn, p1)
                break
        if bad is None:
            c.ok(where(u), f'{u.name}: no suspension point before {what}', suspension_points=len(susp))
        else:
            c.fail(u, f'`{bad[0].text(60)}` suspends before {what}', 'a handler task can be parked before its handler starts (waiting for a slot / semaphore / queue): stop() cancels the run loop and returns, the '
                   'parked task gets its turn afterwards and starts a handler of a stopped bus', node=bad[0].ast, witness=c.path(g.entry, bad[1]))


@ob('C16.5', 'WMW', '_is_running becomes True only in _start(); it is cleared only by stop(), the run loop\'s own finally, the loop-close hook and __del__: nothing restarts or '
    'half-stops a bus behind stop()\'s back')
def c16_5(c: Ctx) -> None:
    ws = [w for w in c.cg.all_writes('_is_running') if w.how == 'assign' and isinstance(w.node, ast.Assign)]
    c.floor(len(ws), 4, 'assignments to _is_running')
    may_set = {(SVC, 'EventBus._start')}
    may_clear = {(SVC, 'EventBus.stop'), (SVC, 'EventBus._run_loop'), (SVC, 'EventBus.__del__'), (SVC, 'EventBus._start.close_with_cleanup')}
    for w in ws:
        v = w.node.value
        val = v.value if isinstance(v, ast.Constant) else None
        if val is True and w.unit.key in may_set:
            c.ok(where(w.unit, w.node), '_is_running = True in _start()')
        elif val is False and w.unit.key in may_clear:
            c.ok(where(w.unit, w.node), f'_is_running = False in {w.unit.name}')
        else:
            c.fail(w.unit, f'assigns _is_running: {U(w.node)[:60]}', f'_is_running is written in {w.unit.qualname}: a stopped bus can be marked running again (its queued events get processed after stop() returned) or a running bus silently stops', node=w.node)
    # stop() must not restart the bus after clearing the flag: no call that reaches _start() after `_is_running = False`
    stop = c.unit(SVC, 'EventBus.stop')
    g = c.cfg(stop)
    self_ = stop.params()[0]
    offs = [n for n in g.live_nodes() if n.kind == 'stmt' and isinstance(n.ast, ast.Assign) and U(n.ast.targets[0]) == f'{self_}._is_running']
    starters = {k for k, u in c.cg.reach([c.unit(SVC, 'EventBus._start')]).items()}
    start_key = c.unit(SVC, 'EventBus._start').key
    from sa.cfg import search

    def restarts(n) -> bool:
        for call in q.node_calls(n):
            r = c.an.fm.resolve_call(call, stop)
            if hasattr(r, 'key') and start_key in c.cg.reach([r]):
                return True
        return False

    for off in offs:
        p = search([(off, ())], is_target=lambda n, d: restarts(n), edge_ok=lambda n, e, d: None if e.is_exc else d)
        if p is None:
            c.ok(where(stop, off.ast), 'after clearing _is_running stop() calls nothing that can restart the bus')
        else:
            c.fail(stop, f'stop() calls `{p[-1].node.text(60)}` after clearing _is_running, which can reach _start()', 'the bus is restarted by its own stop(): handlers start after stop() returned', node=p[-1].node.ast, witness=c.path(off, p))


OBLIGATIONS = ob.obs
