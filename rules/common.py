"""Shared bits for the rule modules."""

from __future__ import annotations

import ast
import os
import sys

sys.path.insert(0, os.path.dirname(os.path.dirname(os.path.abspath(__file__))))

from sa import q  # noqa: E402
from sa.absint import UNKNOWN, AbsInt, Cls, IdOf, Obj, Sym  # noqa: E402
from sa.cfg import CFG, Edge, Node, fmt_path, reachable, search  # noqa: E402
from sa.exc import ANY_EXCEPTION, CANCEL, TIMEOUT, ExcT, handler_type_names  # noqa: E402
from sa.facts import Facts, names_tracker  # noqa: E402
from sa.loader import (  # noqa: E402
    AnchorError, FuncNode, U, Unit, ancestors, call_name, calls_in, contains_await, header_exprs, own_nodes,
    own_nodes_with_lambdas, parent, stmt_of,
)  # fmt: skip
from sa.report import AnalysisError, Ctx, Obligation  # noqa: E402

SVC = 'bubus/service.py'
MOD = 'bubus/models.py'
HLP = 'bubus/helpers.py'
AWAIT_CORO = 'BaseEvent.__await__.wait_for_handlers_to_complete_then_return_event'


class Registry:
    def __init__(self) -> None:
        self.obs: list[Obligation] = []

    def __call__(self, id: str, kind: str, sentence: str):
        def deco(fn):
            self.obs.append(Obligation(id, kind, sentence, fn))
            return fn

        return deco


def await_coro(c: Ctx) -> Unit:
    """The coroutine built by BaseEvent.__await__ (found structurally: the async def nested in __await__)."""
    outer = c.unit(MOD, 'BaseEvent.__await__')
    inner = [u for u in c.prog.nested(outer) if u.is_async]
    if len(inner) != 1:
        raise AnchorError(f'BaseEvent.__await__: expected exactly one nested coroutine, found {len(inner)}')
    c.units_touched.add(str(inner[0]))
    return inner[0]


def where(u: Unit, node: ast.AST | None = None) -> str:
    return f'{u.module}:{getattr(node, "orig_lineno", None) or getattr(node, "lineno", u.node.lineno)} {u.qualname}'


def is_name(e: ast.AST | None, name: str) -> bool:
    return isinstance(e, ast.Name) and e.id == name


def const_str(e: ast.AST | None) -> str | None:
    return e.value if isinstance(e, ast.Constant) and isinstance(e.value, str) else None


def walk_own(node: ast.AST):
    """ast.walk that does not descend into nested defs/lambdas."""
    stack = [node]
    while stack:
        n = stack.pop()
        yield n
        for ch in ast.iter_child_nodes(n):
            if isinstance(ch, FuncNode + (ast.Lambda, ast.ClassDef)):
                continue
            stack.append(ch)


def exc_is(e: Edge, *names: str) -> bool:
    return e.exc is not None and e.exc.name in names


# ------------------------------------------------------------------------------------------------ global lock helpers
TASKVARS = ('holds_global_lock', 'inside_handler_context', '_current_event_context', '_current_handler_id_context')


def lock_withs(c: Ctx, u: Unit) -> list[ast.AsyncWith]:
    """`async with <expr typed ReentrantLock>` statements in *u*."""
    out = []
    for n in own_nodes(u.node):
        if isinstance(n, ast.AsyncWith):
            for it in n.items:
                t = c.prog.infer(it.context_expr, u)
                if t is not None and t.kind == 'cls' and t.name == 'ReentrantLock':
                    out.append(n)
    return out


def lock_held_at(c: Ctx, u: Unit, node: ast.AST, _seen: set | None = None, _chain: list[str] | None = None) -> tuple[bool, list[str]]:
    """Is the global lock known to be held whenever *node* (inside unit *u*) executes?

    held = lexically inside `async with <ReentrantLock>` / dominated by a true `holds_global_lock.get()` test,
    or (interprocedurally) every call site of *u* is itself lock-held.  Returns (held, chain that is not covered).
    """
    seen = _seen if _seen is not None else set()
    chain = (_chain or []) + [u.qualname]
    for w in lock_withs(c, u):
        if q.lexically_in(node, w, 'body'):
            return True, []
    g = c.cfg(u)
    st = stmt_of(node) if not isinstance(node, ast.stmt) else node
    facts = Facts(lambda a: a == 'holds_global_lock.get()', cg=c.cg, unit=u, taskvars=TASKVARS)
    cfg_nodes = g.nodes_of(st)
    if cfg_nodes and all(q.guard_search(g, n, 'holds_global_lock.get()', facts) is None for n in cfg_nodes):
        return True, []
    if u.key in seen:
        return True, []  # recursion: decided by the other call sites
    seen.add(u.key)
    callers = c.cg.callers(u)
    if not callers and u.key in getattr(c.prog, 'folded_kept', set()):
        # a new public method whose every call site inside the library was folded into the caller: what holds at its call sites is decided at the folded copies
        # (callers outside the library are outside the analysis, as for every public method)
        return True, []
    if not callers:
        return False, chain
    for cu, call in callers:
        if u.is_async and not isinstance(parent(call), ast.Await):
            # coroutine object handed to create_task()/gather(): *u* is the entry of a new task, nothing is held there
            return False, chain + [f'<task spawned in {cu.qualname}>']
        ok, ch = lock_held_at(c, cu, call, seen, chain)
        if not ok:
            return False, ch
    return True, []


def task_completion_barriers(u: Unit, g, spawn: ast.Call) -> set[int]:
    """CFG nodes that wait for the task created by *spawn* (`create_task(...)`) until it has finished, in a way that forwards a cancellation of the waiter to the task:
    `await t` for the local the task is bound to, or the head of a loop `for x in C: await x` (no break) over the container C the task was put into (bound to a name first
    or appended / stored directly)."""
    st = stmt_of(spawn)
    names: set[str] = set()
    containers: set[str] = set()
    par = parent(spawn)
    if isinstance(st, (ast.Assign, ast.AnnAssign)) and (st.value is spawn):
        for t in (st.targets if isinstance(st, ast.Assign) else [st.target]):
            if isinstance(t, ast.Name):
                names.add(t.id)
            elif isinstance(t, ast.Subscript):
                containers.add(U(t.value))
    if isinstance(par, ast.Call) and call_name(par) in ('append', 'add') and isinstance(par.func, ast.Attribute):
        containers.add(U(par.func.value))
    for n in own_nodes(u.node):
        if isinstance(n, ast.Call) and call_name(n) in ('append', 'add') and isinstance(n.func, ast.Attribute) and n.args and isinstance(n.args[0], ast.Name) and n.args[0].id in names:
            containers.add(U(n.func.value))
        if isinstance(n, ast.Assign) and isinstance(n.targets[0], ast.Subscript) and any(isinstance(x, ast.Name) and x.id in names for x in ast.walk(n.value)):
            containers.add(U(n.targets[0].value))
    out: set[int] = set()
    for n in g.live_nodes():
        if n.kind == 'stmt' and n.ast is not None:
            for x in ast.walk(n.ast):
                if isinstance(x, ast.Await) and isinstance(x.value, ast.Name) and x.value.id in names:
                    out.add(n.id)
        if n.kind == 'for' and isinstance(n.ast, ast.For) and isinstance(n.ast.target, ast.Name) and U(n.ast.iter) in containers | {f'list({c_})' for c_ in containers} | {f'{c_}.values()' for c_ in containers} | {f'{c_}.keys()' for c_ in containers}:
            v = n.ast.target.id
            aw = [x for x in ast.walk(n.ast) if isinstance(x, ast.Await)]
            if len(aw) == 1 and isinstance(aw[0].value, ast.Name) and aw[0].value.id == v and not any(isinstance(x, ast.Break) for x in ast.walk(n.ast)):
                out.add(n.id)
    return out


def serial_task_discipline(c: Ctx, u: Unit, g, spawn: ast.Call, all_spawns: list[ast.Call], flag: str) -> list | None:
    """On a bus where *flag* (`self.parallel_handlers`) is false: is the task created by *spawn* always awaited to completion before another handler task is created and before
    the function returns?  Then handlers run one at a time although each has a task of its own.  Returns None when that holds, else a witness path."""
    from sa.cfg import search

    barriers = task_completion_barriers(u, g, spawn)
    if not barriers:
        return []
    spawn_nodes = {n.id for sp in all_spawns for n in g.nodes_of(stmt_of(sp))}

    def post(n, env):
        # emptiness of the containers: appended to -> non-empty, cleared -> empty
        if n.kind == 'stmt' and n.ast is not None:
            for x in ast.walk(n.ast):
                if isinstance(x, ast.Call) and isinstance(x.func, ast.Attribute) and isinstance(x.func.value, ast.Name):
                    if x.func.attr in ('append', 'add'):
                        env[x.func.value.id] = 'Ty'
                    elif x.func.attr == 'clear':
                        env[x.func.value.id] = 'F'

    facts = Facts(lambda a: a == flag or a.isidentifier(), cg=c.cg, unit=u, post=post)
    for start in g.nodes_of(stmt_of(spawn)):
        p = search([(start, tuple(sorted({flag: 'F'}.items())))],
                   is_target=lambda n, d: (n is not start and n.id in spawn_nodes) or n.kind == 'exit' or (n is start and False),
                   is_barrier=lambda n, d: n.id in barriers,
                   edge_ok=lambda n, e, d: None if e.is_exc else facts.edge_ok(n, e, d), transfer=facts.transfer)
        if p is None:
            # the loop can come back to the creation itself: that is "another task created" too
            back = search([(s_.dst, tuple(sorted(facts.transfer(start, {flag: 'F'}).items()))) for s_ in start.succ if not s_.is_exc],
                          is_target=lambda n, d: n is start, is_barrier=lambda n, d: n.id in barriers,
                          edge_ok=lambda n, e, d: None if e.is_exc else facts.edge_ok(n, e, d), transfer=facts.transfer)
            p = back
        if p is not None:
            return p
    return None


def bind_defaults(u: Unit, env: dict) -> dict:
    """Parameters the caller of an abstract evaluation does not know about (added later, with a default) take their literal default."""
    a = u.node.args
    pos = a.posonlyargs + a.args
    for arg, d in list(zip(pos[len(pos) - len(a.defaults):], a.defaults)) + [(k, d) for k, d in zip(a.kwonlyargs, a.kw_defaults) if d is not None]:
        if arg.arg not in env and isinstance(d, ast.Constant):
            env[arg.arg] = d.value
    return env


def eq_atom(a: str, b: str) -> str:
    """Canonical text of the fact atom for `a == b` (operands sorted, as sa.facts.cmp_atom does)."""
    l, r = sorted([a, b])
    return f'{l} == {r}'


def _history_quantifier(e: ast.AST) -> ast.AST:
    """`any(<status test on e> for e in X.event_history.values())` says which kinds of events the history holds: with the status test evaluated over the three states an event
    can be in (rules/tiers.py) it is `X.events_pending or X.events_started` (or one of them) — the two properties are exactly the history events in those states (C13.6 / C15.x
    check the properties themselves).  `all(P ...)` is `not any(not P ...)`."""
    neg = False
    call = e
    if not (isinstance(call, ast.Call) and isinstance(call.func, ast.Name) and call.func.id in ('any', 'all') and len(call.args) == 1 and not call.keywords
            and isinstance(call.args[0], (ast.GeneratorExp, ast.ListComp)) and len(call.args[0].generators) == 1):
        return e
    gen = call.args[0].generators[0]
    it = gen.iter
    if isinstance(it, ast.Call) and isinstance(it.func, ast.Name) and it.func.id in ('list', 'tuple') and len(it.args) == 1:
        it = it.args[0]
    if not (isinstance(it, ast.Call) and isinstance(it.func, ast.Attribute) and it.func.attr == 'values' and isinstance(it.func.value, ast.Attribute) and it.func.value.attr == 'event_history'
            and isinstance(gen.target, ast.Name) and not gen.is_async):
        return e
    from .tiers import ALL, TierEval, _UNK

    te = TierEval(None, 'self')
    tests = list(gen.ifs) + [call.args[0].elt]
    sel = set()
    for s_ in ALL:
        vs = [te.admits(t, gen.target.id, s_) for t in tests]
        if any(v is None or v is _UNK for v in vs):
            return e
        holds = all(vs[:-1]) and (vs[-1] if call.func.id == 'any' else True)
        if call.func.id == 'all':
            # all(P for e if C): false iff some e with C and not P
            holds = all(vs[:-1]) and not vs[-1]
        if holds:
            sel.add(s_)
    owner = U(it.func.value.value)
    parts = [f'{owner}.events_{s_}' for s_ in ('pending', 'started') if s_ in sel]
    if 'completed' in sel or not parts:
        return e
    new = ast.parse(' or '.join(parts), mode='eval').body
    if call.func.id == 'all':
        new = ast.UnaryOp(op=ast.Not(), operand=new)
    return ast.copy_location(ast.fix_missing_locations(new), e)


from sa import facts as _facts_mod  # noqa: E402

if _history_quantifier not in _facts_mod.TEST_REWRITERS:
    _facts_mod.TEST_REWRITERS.append(_history_quantifier)


def at_new_defaults(c: Ctx, u: Unit, e: ast.AST) -> tuple[ast.AST, list[str]]:
    """*e* (an expression of unit *u*) read with every *new* optional parameter of u (not in sa/known_units.json "params", constant default) at its default, provided no library
    call site of u passes anything else for it (it omits it, or forwards its own same-named new parameter that is at its default by the same argument).  Tests that become
    decidable are pruned.  Returns (the specialised expression, the parameters that were fixed).  A caller outside the library that passes such a parameter asks for behaviour the
    property's statement does not cover (a new option); what the library itself does is judged."""
    import copy as _copy
    import json as _json
    import os as _os

    from sa.simplify import _Prune

    try:
        kp = _json.load(open(_os.path.join(_os.path.dirname(_os.path.dirname(_os.path.abspath(__file__))), 'sa', 'known_units.json'), encoding='utf-8')).get('params') or {}
    except Exception:
        return e, []

    def new_defaults(unit: Unit, depth: int = 0) -> dict[str, ast.Constant]:
        known = kp.get(f'{unit.module}::{unit.qualname}')
        if known is None or depth > 3:
            return {}
        a = unit.node.args
        names = [x.arg for x in a.posonlyargs + a.args]
        dflt = dict(zip(names[len(names) - len(a.defaults):], a.defaults)) if a.defaults else {}
        dflt.update({k.arg: d for k, d in zip(a.kwonlyargs, a.kw_defaults) if d is not None})
        cand = {n_: d for n_, d in dflt.items() if n_ not in known and isinstance(d, ast.Constant)}
        if not cand:
            return {}
        out = {}
        for n_, d in cand.items():
            ok = True
            pos = (names + [k.arg for k in a.kwonlyargs]).index(n_)
            for cu, call in c.cg.callers(unit):
                given = next((k.value for k in call.keywords if k.arg == n_), None)
                off = 1 if (unit.cls and isinstance(call.func, ast.Attribute) and 'staticmethod' not in [U(x) for x in unit.node.decorator_list]) else 0
                if given is None and n_ in names and len(call.args) > pos - off >= 0:
                    given = call.args[pos - off]
                if given is None:
                    continue
                if isinstance(given, ast.Constant) and given.value == d.value:
                    continue
                outer = cu
                found = False
                while outer is not None and not found:
                    od = new_defaults(outer, depth + 1)
                    if isinstance(given, ast.Name) and given.id in od and od[given.id].value == d.value:
                        found = True
                    outer = getattr(outer, 'outer', None)
                if not found:
                    ok = False
            if ok:
                out[n_] = d
        return out

    nd = new_defaults(u)
    if not nd:
        return e, []

    class _Sub(ast.NodeTransformer):
        def visit_Name(self, node):  # noqa: N802
            if isinstance(node.ctx, ast.Load) and node.id in nd:
                return ast.copy_location(_copy.deepcopy(nd[node.id]), node)
            return node

    saved = getattr(e, '_parent', None)
    try:
        if saved is not None:
            e._parent = None  # type: ignore[attr-defined]
        e2 = _copy.deepcopy(e)
    finally:
        if saved is not None:
            e._parent = saved  # type: ignore[attr-defined]
    e2 = _Prune().visit(_Sub().visit(e2))
    return ast.fix_missing_locations(e2), sorted(nd)
