"""Shared bits for the rule modules."""

from __future__ import annotations

import ast
import os
import sys

sys.path.insert(0, os.path.dirname(os.path.dirname(os.path.abspath(__file__))))

from sa import q  # noqa: E402
from sa.absint import UNKNOWN, AbsInt, Cls, IdOf, Obj, Sym  # noqa: E402
from sa.cfg import CFG, Edge, Node, fmt_path, reachable, search  # noqa: E402
from sa.exc import ANY_EXCEPTION, CANCEL, TIMEOUT, ExcT, handler_type_names  # noqa: E402
from sa.facts import Facts, names_tracker  # noqa: E402
from sa.loader import (  # noqa: E402
    AnchorError, FuncNode, U, Unit, ancestors, call_name, calls_in, contains_await, header_exprs, own_nodes,
    own_nodes_with_lambdas, parent, stmt_of,
)  # fmt: skip
from sa.report import AnalysisError, Ctx, Obligation  # noqa: E402

SVC = 'bubus/service.py'
MOD = 'bubus/models.py'
HLP = 'bubus/helpers.py'
AWAIT_CORO = 'BaseEvent.__await__.wait_for_handlers_to_complete_then_return_event'


class Registry:
    def __init__(self) -> None:
        self.obs: list[Obligation] = []

    def __call__(self, id: str, kind: str, sentence: str):
        def deco(fn):
            self.obs.append(Obligation(id, kind, sentence, fn))
            return fn

        return deco


def await_coro(c: Ctx) -> Unit:
    """The coroutine built by BaseEvent.__await__ (found structurally: the async def nested in __await__)."""
    outer = c.unit(MOD, 'BaseEvent.__await__')
    inner = [u for u in c.prog.nested(outer) if u.is_async]
    if len(inner) != 1:
        raise AnchorError(f'BaseEvent.__await__: expected exactly one nested coroutine, found {len(inner)}')
    c.units_touched.add(str(inner[0]))
    return inner[0]


def where(u: Unit, node: ast.AST | None = None) -> str:
    return f'{u.module}:{getattr(node, "lineno", u.node.lineno)} {u.qualname}'


def is_name(e: ast.AST | None, name: str) -> bool:
    return isinstance(e, ast.Name) and e.id == name


def const_str(e: ast.AST | None) -> str | None:
    return e.value if isinstance(e, ast.Constant) and isinstance(e.value, str) else None


def walk_own(node: ast.AST):
    """ast.walk that does not descend into nested defs/lambdas."""
    stack = [node]
    while stack:
        n = stack.pop()
        yield n
        for ch in ast.iter_child_nodes(n):
            if isinstance(ch, FuncNode + (ast.Lambda, ast.ClassDef)):
                continue
            stack.append(ch)


def exc_is(e: Edge, *names: str) -> bool:
    return e.exc is not None and e.exc.name in names
