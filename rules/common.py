"""Shared bits for the rule modules."""

from __future__ import annotations

import ast
import os
import sys

sys.path.insert(0, os.path.dirname(os.path.dirname(os.path.abspath(__file__))))

from sa import q  # noqa: E402
from sa.absint import UNKNOWN, AbsInt, Cls, IdOf, Obj, Sym  # noqa: E402
from sa.cfg import CFG, Edge, Node, fmt_path, reachable, search  # noqa: E402
from sa.exc import ANY_EXCEPTION, CANCEL, TIMEOUT, ExcT, handler_type_names  # noqa: E402
from sa.facts import Facts, names_tracker  # noqa: E402
from sa.loader import (  # noqa: E402
    AnchorError, FuncNode, U, Unit, ancestors, call_name, calls_in, contains_await, header_exprs, own_nodes,
    own_nodes_with_lambdas, parent, stmt_of,
)  # fmt: skip
from sa.report import AnalysisError, Ctx, Obligation  # noqa: E402

SVC = 'bubus/service.py'
MOD = 'bubus/models.py'
HLP = 'bubus/helpers.py'
AWAIT_CORO = 'BaseEvent.__await__.wait_for_handlers_to_complete_then_return_event'


class Registry:
    def __init__(self) -> None:
        self.obs: list[Obligation] = []

    def __call__(self, id: str, kind: str, sentence: str):
        def deco(fn):
            self.obs.append(Obligation(id, kind, sentence, fn))
            return fn

        return deco


def await_coro(c: Ctx) -> Unit:
    """The coroutine built by BaseEvent.__await__ (found structurally: the async def nested in __await__)."""
    outer = c.unit(MOD, 'BaseEvent.__await__')
    inner = [u for u in c.prog.nested(outer) if u.is_async]
    if len(inner) != 1:
        raise AnchorError(f'BaseEvent.__await__: expected exactly one nested coroutine, found {len(inner)}')
    c.units_touched.add(str(inner[0]))
    return inner[0]


def where(u: Unit, node: ast.AST | None = None) -> str:
    return f'{u.module}:{getattr(node, "orig_lineno", None) or getattr(node, "lineno", u.node.lineno)} {u.qualname}'


def is_name(e: ast.AST | None, name: str) -> bool:
    return isinstance(e, ast.Name) and e.id == name


def const_str(e: ast.AST | None) -> str | None:
    return e.value if isinstance(e, ast.Constant) and isinstance(e.value, str) else None


def walk_own(node: ast.AST):
    """ast.walk that does not descend into nested defs/lambdas."""
    stack = [node]
    while stack:
        n = stack.pop()
        yield n
        for ch in ast.iter_child_nodes(n):
            if isinstance(ch, FuncNode + (ast.Lambda, ast.ClassDef)):
                continue
            stack.append(ch)


def exc_is(e: Edge, *names: str) -> bool:
    return e.exc is not None and e.exc.name in names


# ------------------------------------------------------------------------------------------------ global lock helpers
TASKVARS = ('holds_global_lock', 'inside_handler_context', '_current_event_context', '_current_handler_id_context')


def lock_withs(c: Ctx, u: Unit) -> list[ast.AsyncWith]:
    """`async with <expr typed ReentrantLock>` statements in *u*."""
    out = []
    for n in own_nodes(u.node):
        if isinstance(n, ast.AsyncWith):
            for it in n.items:
                t = c.prog.infer(it.context_expr, u)
                if t is not None and t.kind == 'cls' and t.name == 'ReentrantLock':
                    out.append(n)
    return out


def lock_held_at(c: Ctx, u: Unit, node: ast.AST, _seen: set | None = None, _chain: list[str] | None = None) -> tuple[bool, list[str]]:
    """Is the global lock known to be held whenever *node* (inside unit *u*) executes?

    held = lexically inside `async with <ReentrantLock>` / dominated by a true `holds_global_lock.get()` test,
    or (interprocedurally) every call site of *u* is itself lock-held.  Returns (held, chain that is not covered).
    """
    seen = _seen if _seen is not None else set()
    chain = (_chain or []) + [u.qualname]
    for w in lock_withs(c, u):
        if q.lexically_in(node, w, 'body'):
            return True, []
    g = c.cfg(u)
    st = stmt_of(node) if not isinstance(node, ast.stmt) else node
    facts = Facts(lambda a: a == 'holds_global_lock.get()', cg=c.cg, unit=u, taskvars=TASKVARS)
    cfg_nodes = g.nodes_of(st)
    if cfg_nodes and all(q.guard_search(g, n, 'holds_global_lock.get()', facts) is None for n in cfg_nodes):
        return True, []
    if u.key in seen:
        return True, []  # recursion: decided by the other call sites
    seen.add(u.key)
    callers = c.cg.callers(u)
    if not callers:
        return False, chain
    for cu, call in callers:
        if u.is_async and not isinstance(parent(call), ast.Await):
            # coroutine object handed to create_task()/gather(): *u* is the entry of a new task, nothing is held there
            return False, chain + [f'<task spawned in {cu.qualname}>']
        ok, ch = lock_held_at(c, cu, call, seen, chain)
        if not ok:
            return False, ch
    return True, []


def eq_atom(a: str, b: str) -> str:
    """Canonical text of the fact atom for `a == b` (operands sorted, as sa.facts.cmp_atom does)."""
    l, r = sorted([a, b])
    return f'{l} == {r}'
