"""A small algebra of "tiers" for C13.2: what an eviction order written with comprehensions, concatenation and sorting contains, and in which order.

A *tier* is a run of events described by (the set of statuses its events can have, whether the run is sorted oldest-first, whether it holds EVERY history event of
those statuses).  A list expression evaluates to a sequence of tiers:

    self.event_history.values()                           -> [ALL statuses, unsorted, exhaustive]
    [e for e in S if <status test on e>]                  -> every tier of S narrowed to the statuses the test admits (order kept)
    [e for e in S if e.event_id not in {x.event_id for x in T}]   -> S minus the statuses of T (T must be exhaustive)
    A + B, [*A, *B]                                       -> concatenation
    sorted(S, key=created) / S.sort(key=created)          -> ONE tier, union of the statuses, sorted
    self.<property>                                       -> the value returned by the property's body, evaluated the same way
    list(S), S.copy(), S[:]                               -> S

The status test is evaluated over the three states an event can be in (pending / started / completed) with three-valued logic; the timestamps that C13.6 ties to the
status (`event_started_at`, `event_completed_at`) may be used instead of `event_status`.
Anything else evaluates to None (not understood), and the caller falls back to its other recognisers.
"""

from __future__ import annotations

import ast
from dataclasses import dataclass

from sa.loader import U, call_name

ALL = frozenset({'pending', 'started', 'completed'})
RANK = {'completed': 0, 'started': 1, 'pending': 2}
_UNK = object()

# what is known about an event in each state (None = the attribute is None; 'set' = not None and truthy; _UNK = either)
STATE = {
    'pending': {'event_status': 'pending', 'event_started_at': None, 'event_completed_at': None},
    'started': {'event_status': 'started', 'event_started_at': 'set', 'event_completed_at': None},
    'completed': {'event_status': 'completed', 'event_started_at': _UNK, 'event_completed_at': 'set'},
}


@dataclass(frozen=True)
class Tier:
    statuses: frozenset
    sorted: bool
    exhaustive: bool
    why: str = ''
    pair: bool = False  # elements are (event_id, event) pairs (from .items()) rather than events


def _event_of(e: ast.AST, var: str, pair: bool) -> bool:
    """e denotes the event of the element bound to *var*: the element itself, or its second component when elements are (id, event) pairs."""
    if pair:
        return isinstance(e, ast.Subscript) and isinstance(e.value, ast.Name) and e.value.id == var and isinstance(e.slice, ast.Constant) and e.slice.value == 1
    return isinstance(e, ast.Name) and e.id == var


def is_created_key(k: ast.AST | None, pair: bool = False) -> str:
    """'ts' for `lambda e: e.event_created_at.timestamp()`, 'naive' when datetimes are compared directly, '' otherwise."""
    if not isinstance(k, ast.Lambda) or len(k.args.args) != 1:
        return ''
    return _created_expr(k.body, k.args.args[0].arg, pair)


def _created_expr(b: ast.AST, var: str, pair: bool) -> str:
    if isinstance(b, ast.Call) and isinstance(b.func, ast.Attribute) and b.func.attr == 'timestamp' and not b.args:
        a = b.func.value
        if isinstance(a, ast.Attribute) and a.attr == 'event_created_at' and _event_of(a.value, var, pair):
            return 'ts'
    if isinstance(b, ast.Attribute) and b.attr == 'event_created_at' and _event_of(b.value, var, pair):
        return 'naive'
    return ''


class TierEval:
    def __init__(self, c, self_name: str, cls: str = 'EventBus'):
        self.c = c
        self.self_ = self_name
        self.cls = cls
        self.env: dict[str, list[Tier] | None] = {}
        self.idsets: dict[str, list[Tier] | None] = {}
        self.notes: list[str] = []
        self.naive_sort: ast.AST | None = None
        self._depth = 0
        self._pair = False  # while a predicate is evaluated: are the elements pairs?
        self.rank_dicts: dict[str, dict[str, int]] = {}

    # -- element predicates -------------------------------------------------------------------
    def admits(self, test: ast.AST, var: str, state: str):
        """Three-valued value of *test* for an event in *state*: True / False / _UNK; None when the test is not about the event's status at all."""
        st = STATE[state]

        def val(e: ast.AST):
            if isinstance(e, ast.Attribute) and _event_of(e.value, var, self._pair) and e.attr in st:
                return st[e.attr]
            if isinstance(e, ast.Constant):
                return ('const', e.value)
            return 'other'

        def ev(t: ast.AST):
            if isinstance(t, ast.BoolOp):
                vs = [ev(v) for v in t.values]
                if any(v is None for v in vs):
                    return None
                if isinstance(t.op, ast.And):
                    return False if any(v is False for v in vs) else (_UNK if any(v is _UNK for v in vs) else True)
                return True if any(v is True for v in vs) else (_UNK if any(v is _UNK for v in vs) else False)
            if isinstance(t, ast.UnaryOp) and isinstance(t.op, ast.Not):
                v = ev(t.operand)
                return v if v in (None, _UNK) else (not v)
            if isinstance(t, ast.Attribute):
                v = val(t)
                if v == 'other' or isinstance(v, tuple):
                    return None
                if t.attr == 'event_status':
                    return True
                return _UNK if v is _UNK else (v is not None)
            if isinstance(t, ast.Compare) and len(t.ops) == 1:
                a, b, op = val(t.left), val(t.comparators[0]), t.ops[0]
                if isinstance(op, (ast.In, ast.NotIn)) and isinstance(t.left, ast.Attribute) and a != 'other' and t.left.attr == 'event_status' and isinstance(t.comparators[0], (ast.Tuple, ast.List, ast.Set)):
                    lits = [x.value for x in t.comparators[0].elts if isinstance(x, ast.Constant)]
                    if len(lits) != len(t.comparators[0].elts):
                        return None
                    r = a in lits
                    return r if isinstance(op, ast.In) else (not r)
                if isinstance(op, (ast.In, ast.NotIn)) and isinstance(t.left, ast.Attribute) and _event_of(t.left.value, var, self._pair) and t.left.attr == 'event_id' \
                        and isinstance(t.comparators[0], ast.Name) and self.idsets.get(t.comparators[0].id):
                    tiers = self.idsets[t.comparators[0].id]
                    covered = frozenset().union(*[x.statuses for x in tiers])
                    if not all(x.exhaustive for x in tiers):
                        return None  # membership in a partial set says nothing definite about a status
                    r = state in covered
                    return r if isinstance(op, ast.In) else (not r)
                if a == 'other' and b == 'other':
                    return None
                if a == 'other' or b == 'other':
                    return None
                # one side is an attribute of the event, the other a literal
                (attr_v, lit) = (a, b) if isinstance(b, tuple) else (b, a) if isinstance(a, tuple) else (None, None)
                if lit is None:
                    return None
                lit = lit[1]
                if isinstance(op, (ast.Eq, ast.NotEq)) and isinstance(lit, str):
                    if attr_v is _UNK or not isinstance(attr_v, str) or attr_v == 'set':
                        return None
                    r = attr_v == lit
                    return r if isinstance(op, ast.Eq) else (not r)
                if isinstance(op, (ast.Is, ast.IsNot, ast.Eq, ast.NotEq)) and lit is None:
                    if attr_v is _UNK:
                        return _UNK
                    r = attr_v is None
                    return r if isinstance(op, (ast.Is, ast.Eq)) else (not r)
            return None

        return ev(test)

    def narrow(self, tiers: list[Tier], tests: list[ast.AST], var: str, pair: bool | None = None) -> list[Tier] | None:
        out = []
        for t in tiers:
            self._pair = t.pair if pair is None else pair
            keep = set()
            for s in t.statuses:
                vs = [self.admits(x, var, s) for x in tests]
                if any(v is None or v is _UNK for v in vs):
                    return None
                if all(vs):
                    keep.add(s)
            if keep:
                out.append(Tier(frozenset(keep), t.sorted, t.exhaustive, t.why, t.pair))
        self._pair = False
        return out

    # -- list expressions ---------------------------------------------------------------------
    def ev(self, e: ast.AST) -> list[Tier] | None:
        H = f'{self.self_}.event_history'
        txt = U(e)
        if txt in (f'{H}.values()', f'list({H}.values())'):
            return [Tier(ALL, False, True, 'the whole history in insertion order')]
        if txt in (f'{H}.items()', f'list({H}.items())'):
            return [Tier(ALL, False, True, 'the whole history in insertion order', True)]
        if isinstance(e, ast.Name):
            return self.env.get(e.id)
        if isinstance(e, ast.Attribute) and isinstance(e.value, ast.Name) and e.value.id == self.self_:
            return self.prop(e.attr)
        if isinstance(e, ast.BinOp) and isinstance(e.op, ast.Add):
            a, b = self.ev(e.left), self.ev(e.right)
            return None if a is None or b is None else a + b
        if isinstance(e, ast.List) and e.elts and all(isinstance(x, ast.Starred) for x in e.elts):
            parts = [self.ev(x.value) for x in e.elts]
            return None if any(p is None for p in parts) else [t for p in parts for t in p]
        if isinstance(e, ast.Call):
            nm = call_name(e)
            if nm in ('list', 'tuple') and isinstance(e.func, ast.Name) and len(e.args) == 1:
                return self.ev(e.args[0])
            if nm == 'copy' and isinstance(e.func, ast.Attribute) and not e.args:
                return self.ev(e.func.value)
            if nm == 'sorted' and isinstance(e.func, ast.Name) and e.args:
                return self.sort(self.ev(e.args[0]), e)
            if nm == 'chain' and e.args:
                parts = [self.ev(a) for a in e.args]
                return None if any(p is None for p in parts) else [t for p in parts for t in p]
        if isinstance(e, ast.Subscript) and isinstance(e.slice, ast.Slice) and e.slice.lower is None and e.slice.upper is None and e.slice.step is None:
            return self.ev(e.value)
        if isinstance(e, (ast.ListComp, ast.GeneratorExp)) and len(e.generators) == 1 and not e.generators[0].is_async:
            g = e.generators[0]
            src = self.ev(g.iter)
            if src is None:
                return None
            if isinstance(g.target, ast.Name):
                if not (isinstance(e.elt, ast.Name) and e.elt.id == g.target.id):
                    return None
                return self.narrow(src, list(g.ifs), g.target.id) if g.ifs else src
            # `[(i, ev) for i, ev in <pairs> if <test on ev>]`: same pairs, filtered
            if isinstance(g.target, ast.Tuple) and len(g.target.elts) == 2 and all(isinstance(x, ast.Name) for x in g.target.elts) and all(t.pair for t in src) \
                    and isinstance(e.elt, ast.Tuple) and [U(x) for x in e.elt.elts] == [x.id for x in g.target.elts]:
                return self.narrow(src, list(g.ifs), g.target.elts[1].id, pair=False) if g.ifs else src
            # `[ev for _, ev in <pairs> ...]`: the events of the pairs
            if isinstance(g.target, ast.Tuple) and len(g.target.elts) == 2 and all(isinstance(x, ast.Name) for x in g.target.elts) and all(t.pair for t in src) \
                    and isinstance(e.elt, ast.Name) and e.elt.id == g.target.elts[1].id:
                r = self.narrow(src, list(g.ifs), g.target.elts[1].id, pair=False) if g.ifs else src
                return None if r is None else [Tier(t.statuses, t.sorted, t.exhaustive, t.why, False) for t in r]
        return None

    def rank_of(self, b: ast.AST, var: str, pair: bool) -> dict[str, int] | None:
        """`D[<ev>.event_status]` / `D.get(<ev>.event_status)` with D a local bound to a literal {status: int}: the rank table."""
        d = key = None
        if isinstance(b, ast.Subscript) and isinstance(b.value, ast.Name):
            d, key = b.value.id, b.slice
        elif isinstance(b, ast.Call) and isinstance(b.func, ast.Attribute) and b.func.attr == 'get' and isinstance(b.func.value, ast.Name) and len(b.args) == 1:
            d, key = b.func.value.id, b.args[0]
        if d is None or d not in self.rank_dicts:
            return None
        if not (isinstance(key, ast.Attribute) and key.attr == 'event_status' and _event_of(key.value, var, pair)):
            return None
        return self.rank_dicts[d]

    def sort(self, tiers: list[Tier] | None, call: ast.Call) -> list[Tier] | None:
        if tiers is None:
            return None
        if not tiers:
            return []
        pair = tiers[0].pair
        k = next((kw.value for kw in call.keywords if kw.arg == 'key'), None)
        rev = next((kw.value for kw in call.keywords if kw.arg == 'reverse'), None)
        if rev is not None and not (isinstance(rev, ast.Constant) and rev.value is False):
            return None
        if not isinstance(k, ast.Lambda) or len(k.args.args) != 1:
            return None
        var = k.args.args[0].arg
        sts = frozenset().union(*[t.statuses for t in tiers])
        exh = all(t.exhaustive for t in tiers)
        kind = _created_expr(k.body, var, pair)
        if kind:
            if kind == 'naive':
                self.naive_sort = call
            return [Tier(sts, True, exh, 'sorted oldest-first as one run', pair)]
        # by status rank (a stable sort: within one rank the previous order survives), or by (rank, created)
        rank = self.rank_of(k.body, var, pair)
        then_created = ''
        if rank is None and isinstance(k.body, ast.Tuple) and len(k.body.elts) == 2:
            rank = self.rank_of(k.body.elts[0], var, pair)
            then_created = _created_expr(k.body.elts[1], var, pair)
            if not then_created:
                return None
            if then_created == 'naive':
                self.naive_sort = call
        if rank is None or not sts <= set(rank):
            return None
        was_sorted = bool(then_created) or (len(tiers) == 1 and tiers[0].sorted)
        out = []
        for r in sorted({rank[s_] for s_ in sts}):
            grp = frozenset(s_ for s_ in sts if rank[s_] == r)
            out.append(Tier(grp, was_sorted, exh, 'grouped by the rank table' + ('' if was_sorted else '; within a group the order is whatever it was before'), pair))
        return out

    def prop(self, name: str) -> list[Tier] | None:
        if self._depth > 3:
            return None
        try:
            u = self.c.unit('bubus/service.py', f'{self.cls}.{name}')
        except Exception:
            return None
        if 'property' not in [U(d) for d in u.node.decorator_list]:
            return None
        sub = TierEval(self.c, u.params()[0], self.cls)
        sub._depth = self._depth + 1
        r = sub.run(u.node)
        if sub.naive_sort is not None:
            self.naive_sort = sub.naive_sort
        return r

    # -- statements ---------------------------------------------------------------------------
    def run(self, fn: ast.AST) -> list[Tier] | None:
        """Evaluate the top-level statements of fn in order; the value of the first `return <list expr>` reached at top level is the result (None when there is none)."""
        for st in fn.body:
            if isinstance(st, (ast.Assign, ast.AnnAssign)) and st.value is not None:
                tgt = st.targets[0] if isinstance(st, ast.Assign) else st.target
                if isinstance(tgt, ast.Name):
                    v = st.value
                    if isinstance(v, ast.Dict) and v.keys and all(isinstance(k_, ast.Constant) and isinstance(k_.value, str) for k_ in v.keys) \
                            and all(isinstance(x, ast.Constant) and isinstance(x.value, (int, float)) and not isinstance(x.value, bool) for x in v.values):
                        self.rank_dicts[tgt.id] = {k_.value: x.value for k_, x in zip(v.keys, v.values)}
                        continue
                    if isinstance(v, ast.SetComp) and len(v.generators) == 1 and isinstance(v.generators[0].target, ast.Name) and U(v.elt) == f'{v.generators[0].target.id}.event_id':
                        g = v.generators[0]
                        src = self.ev(g.iter)
                        self.idsets[tgt.id] = (self.narrow(src, list(g.ifs), g.target.id) if g.ifs else src) if src is not None else None
                    else:
                        self.env[tgt.id] = self.ev(v)
            elif isinstance(st, ast.Expr) and isinstance(st.value, ast.Call) and call_name(st.value) == 'sort' and isinstance(st.value.func, ast.Attribute) and isinstance(st.value.func.value, ast.Name):
                nm = st.value.func.value.id
                self.env[nm] = self.sort(self.env.get(nm), st.value)
            elif isinstance(st, ast.Return) and st.value is not None:
                return self.ev(st.value)
        return None


def describe(tiers: list[Tier]) -> str:
    return ' + '.join('{' + ','.join(sorted(t.statuses, key=RANK.get)) + '}' + ('' if t.sorted else '(unsorted)') + ('' if t.exhaustive else '(partial)') for t in tiers)
