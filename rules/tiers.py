"""A small algebra of "tiers" for C13.2: what an eviction order written with comprehensions, concatenation and sorting contains, and in which order.

A *tier* is a run of events described by (the set of statuses its events can have, whether the run is sorted oldest-first, whether it holds EVERY history event of
those statuses).  A list expression evaluates to a sequence of tiers:

    self.event_history.values()                           -> [ALL statuses, unsorted, exhaustive]
    [e for e in S if <status test on e>]                  -> every tier of S narrowed to the statuses the test admits (order kept)
    [e for e in S if e.event_id not in {x.event_id for x in T}]   -> S minus the statuses of T (T must be exhaustive)
    A + B, [*A, *B]                                       -> concatenation
    sorted(S, key=created) / S.sort(key=created)          -> ONE tier, union of the statuses, sorted
    self.<property>                                       -> the value returned by the property's body, evaluated the same way
    list(S), S.copy(), S[:]                               -> S

The status test is evaluated over the three states an event can be in (pending / started / completed) with three-valued logic; the timestamps that C13.6 ties to the
status (`event_started_at`, `event_completed_at`) may be used instead of `event_status`.
Anything else evaluates to None (not understood), and the caller falls back to its other recognisers.
"""

from __future__ import annotations

import ast
from dataclasses import dataclass

from sa.loader import U, call_name

ALL = frozenset({'pending', 'started', 'completed'})
RANK = {'completed': 0, 'started': 1, 'pending': 2}
_UNK = object()

# what is known about an event in each state (None = the attribute is None; 'set' = not None and truthy; _UNK = either)
STATE = {
    'pending': {'event_status': 'pending', 'event_started_at': None, 'event_completed_at': None},
    'started': {'event_status': 'started', 'event_started_at': 'set', 'event_completed_at': None},
    'completed': {'event_status': 'completed', 'event_started_at': _UNK, 'event_completed_at': 'set'},
}


@dataclass(frozen=True)
class Tier:
    statuses: frozenset
    sorted: bool
    exhaustive: bool
    why: str = ''


def is_created_key(k: ast.AST | None) -> str:
    """'ts' for `lambda e: e.event_created_at.timestamp()` (also through a tuple element `x[1]`), 'naive' when datetimes are compared directly, '' otherwise."""
    if not isinstance(k, ast.Lambda):
        return ''
    b = U(k.body)
    if b.endswith('.event_created_at.timestamp()') and not isinstance(k.body, ast.Tuple):
        return 'ts'
    if b.endswith('.event_created_at') and not isinstance(k.body, ast.Tuple):
        return 'naive'
    return ''


class TierEval:
    def __init__(self, c, self_name: str, cls: str = 'EventBus'):
        self.c = c
        self.self_ = self_name
        self.cls = cls
        self.env: dict[str, list[Tier] | None] = {}
        self.idsets: dict[str, list[Tier] | None] = {}
        self.notes: list[str] = []
        self.naive_sort: ast.AST | None = None
        self._depth = 0

    # -- element predicates -------------------------------------------------------------------
    def admits(self, test: ast.AST, var: str, state: str):
        """Three-valued value of *test* for an event in *state*: True / False / _UNK; None when the test is not about the event's status at all."""
        st = STATE[state]

        def val(e: ast.AST):
            if isinstance(e, ast.Attribute) and isinstance(e.value, ast.Name) and e.value.id == var and e.attr in st:
                return st[e.attr]
            if isinstance(e, ast.Constant):
                return ('const', e.value)
            return 'other'

        def ev(t: ast.AST):
            if isinstance(t, ast.BoolOp):
                vs = [ev(v) for v in t.values]
                if any(v is None for v in vs):
                    return None
                if isinstance(t.op, ast.And):
                    return False if any(v is False for v in vs) else (_UNK if any(v is _UNK for v in vs) else True)
                return True if any(v is True for v in vs) else (_UNK if any(v is _UNK for v in vs) else False)
            if isinstance(t, ast.UnaryOp) and isinstance(t.op, ast.Not):
                v = ev(t.operand)
                return v if v in (None, _UNK) else (not v)
            if isinstance(t, ast.Attribute):
                v = val(t)
                if v == 'other' or isinstance(v, tuple):
                    return None
                if t.attr == 'event_status':
                    return True
                return _UNK if v is _UNK else (v is not None)
            if isinstance(t, ast.Compare) and len(t.ops) == 1:
                a, b, op = val(t.left), val(t.comparators[0]), t.ops[0]
                if isinstance(op, (ast.In, ast.NotIn)) and isinstance(t.left, ast.Attribute) and a != 'other' and t.left.attr == 'event_status' and isinstance(t.comparators[0], (ast.Tuple, ast.List, ast.Set)):
                    lits = [x.value for x in t.comparators[0].elts if isinstance(x, ast.Constant)]
                    if len(lits) != len(t.comparators[0].elts):
                        return None
                    r = a in lits
                    return r if isinstance(op, ast.In) else (not r)
                if isinstance(op, (ast.In, ast.NotIn)) and isinstance(t.left, ast.Attribute) and isinstance(t.left.value, ast.Name) and t.left.value.id == var and t.left.attr == 'event_id' \
                        and isinstance(t.comparators[0], ast.Name) and self.idsets.get(t.comparators[0].id):
                    tiers = self.idsets[t.comparators[0].id]
                    covered = frozenset().union(*[x.statuses for x in tiers])
                    if not all(x.exhaustive for x in tiers):
                        return None  # membership in a partial set says nothing definite about a status
                    r = state in covered
                    return r if isinstance(op, ast.In) else (not r)
                if a == 'other' and b == 'other':
                    return None
                if a == 'other' or b == 'other':
                    return None
                # one side is an attribute of the event, the other a literal
                (attr_v, lit) = (a, b) if isinstance(b, tuple) else (b, a) if isinstance(a, tuple) else (None, None)
                if lit is None:
                    return None
                lit = lit[1]
                if isinstance(op, (ast.Eq, ast.NotEq)) and isinstance(lit, str):
                    if attr_v is _UNK or not isinstance(attr_v, str) or attr_v == 'set':
                        return None
                    r = attr_v == lit
                    return r if isinstance(op, ast.Eq) else (not r)
                if isinstance(op, (ast.Is, ast.IsNot, ast.Eq, ast.NotEq)) and lit is None:
                    if attr_v is _UNK:
                        return _UNK
                    r = attr_v is None
                    return r if isinstance(op, (ast.Is, ast.Eq)) else (not r)
            return None

        return ev(test)

    def narrow(self, tiers: list[Tier], tests: list[ast.AST], var: str) -> list[Tier] | None:
        out = []
        for t in tiers:
            keep = set()
            for s in t.statuses:
                vs = [self.admits(x, var, s) for x in tests]
                if any(v is None or v is _UNK for v in vs):
                    return None
                if all(vs):
                    keep.add(s)
            if keep:
                out.append(Tier(frozenset(keep), t.sorted, t.exhaustive, t.why))
        return out

    # -- list expressions ---------------------------------------------------------------------
    def ev(self, e: ast.AST) -> list[Tier] | None:
        H = f'{self.self_}.event_history'
        txt = U(e)
        if txt in (f'{H}.values()', f'list({H}.values())'):
            return [Tier(ALL, False, True, 'the whole history in insertion order')]
        if isinstance(e, ast.Name):
            return self.env.get(e.id)
        if isinstance(e, ast.Attribute) and isinstance(e.value, ast.Name) and e.value.id == self.self_:
            return self.prop(e.attr)
        if isinstance(e, ast.BinOp) and isinstance(e.op, ast.Add):
            a, b = self.ev(e.left), self.ev(e.right)
            return None if a is None or b is None else a + b
        if isinstance(e, ast.List) and e.elts and all(isinstance(x, ast.Starred) for x in e.elts):
            parts = [self.ev(x.value) for x in e.elts]
            return None if any(p is None for p in parts) else [t for p in parts for t in p]
        if isinstance(e, ast.Call):
            nm = call_name(e)
            if nm in ('list', 'tuple') and isinstance(e.func, ast.Name) and len(e.args) == 1:
                return self.ev(e.args[0])
            if nm == 'copy' and isinstance(e.func, ast.Attribute) and not e.args:
                return self.ev(e.func.value)
            if nm == 'sorted' and isinstance(e.func, ast.Name) and e.args:
                return self.sort(self.ev(e.args[0]), e)
            if nm == 'chain' and e.args:
                parts = [self.ev(a) for a in e.args]
                return None if any(p is None for p in parts) else [t for p in parts for t in p]
        if isinstance(e, ast.Subscript) and isinstance(e.slice, ast.Slice) and e.slice.lower is None and e.slice.upper is None and e.slice.step is None:
            return self.ev(e.value)
        if isinstance(e, (ast.ListComp, ast.GeneratorExp)) and len(e.generators) == 1 and isinstance(e.generators[0].target, ast.Name) and not e.generators[0].is_async:
            g = e.generators[0]
            if not (isinstance(e.elt, ast.Name) and e.elt.id == g.target.id):
                return None
            src = self.ev(g.iter)
            if src is None:
                return None
            return self.narrow(src, list(g.ifs), g.target.id) if g.ifs else src
        return None

    def sort(self, tiers: list[Tier] | None, call: ast.Call) -> list[Tier] | None:
        if tiers is None:
            return None
        k = next((kw.value for kw in call.keywords if kw.arg == 'key'), None)
        rev = next((kw.value for kw in call.keywords if kw.arg == 'reverse'), None)
        kind = is_created_key(k)
        if not kind or (rev is not None and not (isinstance(rev, ast.Constant) and rev.value is False)):
            return None
        if kind == 'naive':
            self.naive_sort = call
        sts = frozenset().union(*[t.statuses for t in tiers]) if tiers else frozenset()
        return [Tier(sts, True, all(t.exhaustive for t in tiers), 'sorted oldest-first as one run')] if tiers else []

    def prop(self, name: str) -> list[Tier] | None:
        if self._depth > 3:
            return None
        try:
            u = self.c.unit('bubus/service.py', f'{self.cls}.{name}')
        except Exception:
            return None
        if 'property' not in [U(d) for d in u.node.decorator_list]:
            return None
        sub = TierEval(self.c, u.params()[0], self.cls)
        sub._depth = self._depth + 1
        r = sub.run(u.node)
        if sub.naive_sort is not None:
            self.naive_sort = sub.naive_sort
        return r

    # -- statements ---------------------------------------------------------------------------
    def run(self, fn: ast.AST) -> list[Tier] | None:
        """Evaluate the top-level statements of fn in order; the value of the first `return <list expr>` reached at top level is the result (None when there is none)."""
        for st in fn.body:
            if isinstance(st, (ast.Assign, ast.AnnAssign)) and st.value is not None:
                tgt = st.targets[0] if isinstance(st, ast.Assign) else st.target
                if isinstance(tgt, ast.Name):
                    v = st.value
                    if isinstance(v, ast.SetComp) and len(v.generators) == 1 and isinstance(v.generators[0].target, ast.Name) and U(v.elt) == f'{v.generators[0].target.id}.event_id':
                        g = v.generators[0]
                        src = self.ev(g.iter)
                        self.idsets[tgt.id] = (self.narrow(src, list(g.ifs), g.target.id) if g.ifs else src) if src is not None else None
                    else:
                        self.env[tgt.id] = self.ev(v)
            elif isinstance(st, ast.Expr) and isinstance(st.value, ast.Call) and call_name(st.value) == 'sort' and isinstance(st.value.func, ast.Attribute) and isinstance(st.value.func.value, ast.Name):
                nm = st.value.func.value.id
                self.env[nm] = self.sort(self.env.get(nm), st.value)
            elif isinstance(st, ast.Return) and st.value is not None:
                return self.ev(st.value)
        return None


def describe(tiers: list[Tier]) -> str:
    return ' + '.join('{' + ','.join(sorted(t.statuses, key=RANK.get)) + '}' + ('' if t.sorted else '(unsorted)') + ('' if t.exhaustive else '(partial)') for t in tiers)
