"""C12 — handler results are type-checked; accessor views are consistent: structural necessary conditions."""

from __future__ import annotations

import ast

from .common import *  # noqa: F401,F403
from .common import SVC, MOD, ANY_EXCEPTION, AnalysisError, Ctx, Facts, Registry, U, Unit, call_name, handler_type_names, own_nodes, own_nodes_with_lambdas, parent, q, where

ob = Registry()

WRAPPERS = ['event_results_by_handler_id', 'event_results_by_handler_name', 'event_result', 'event_results_list', 'event_results_flat_dict', 'event_results_flat_list']
FLAGS = ['timeout', 'include', 'raise_if_any', 'raise_if_none']
README_DEFAULTS = {'raise_if_any': True, 'raise_if_none': True}


def strip_cast(e: ast.AST) -> ast.AST:
    while isinstance(e, ast.Call) and call_name(e) == 'cast' and len(e.args) == 2:
        e = e.args[1]
    return e


def _faithful_adapter_memo(c: Ctx, name: str) -> bool:
    """A dict that memoises compiled adapters faithfully: everywhere in the library it is written only by `D[k] = TypeAdapter(k)` (the key IS the type the adapter is compiled
    for), possibly as part of a chained assignment, and never otherwise mutated."""
    stores = []
    for uu in c.prog.units.values():
        for n in own_nodes(uu.node):
            if isinstance(n, ast.Assign):
                for t in n.targets:
                    if isinstance(t, ast.Subscript) and isinstance(t.value, ast.Name) and t.value.id == name:
                        stores.append((t, n.value))
            elif isinstance(n, (ast.AugAssign, ast.Delete)) and name in U(n):
                return False
            elif isinstance(n, ast.Call) and isinstance(n.func, ast.Attribute) and isinstance(n.func.value, ast.Name) and n.func.value.id == name and n.func.attr in ('update', 'setdefault', 'pop', 'popitem', '__setitem__'):
                return False
    return bool(stores) and all(isinstance(v, ast.Call) and call_name(v) == 'TypeAdapter' and len(v.args) == 1 and not v.keywords and U(v.args[0]) == U(t.slice) for t, v in stores)


def _faithful_pair_memo(c: Ctx, name: str) -> bool:
    """A module-level dict written everywhere only by `D[k] = (k, A)` with A = TypeAdapter(k) (directly or a local bound once to it): an entry pairs a type object with the
    adapter compiled for that very object.  A reader that checks `entry[0] is t` before using `entry[1]` gets TypeAdapter(t), whatever the key is."""
    stores = []
    for uu in c.prog.units.values():
        defs_ = q.single_defs(uu)
        for n in own_nodes(uu.node):
            if isinstance(n, ast.Assign):
                for t in n.targets:
                    if isinstance(t, ast.Subscript) and isinstance(t.value, ast.Name) and t.value.id == name:
                        stores.append((uu, defs_, n.value))
            elif isinstance(n, (ast.AugAssign, ast.Delete)) and any(isinstance(x, ast.Name) and x.id == name for x in ast.walk(n)):
                return False
            elif isinstance(n, ast.Call) and isinstance(n.func, ast.Attribute) and isinstance(n.func.value, ast.Name) and n.func.value.id == name and n.func.attr in ('update', 'setdefault', '__setitem__'):
                return False
    if not stores:
        return False
    for uu, defs_, v in stores:
        if not (isinstance(v, ast.Tuple) and len(v.elts) == 2):
            return False
        a = v.elts[1]
        if isinstance(a, ast.Name) and a.id in defs_:
            a = defs_[a.id]
        if not (isinstance(a, ast.Call) and call_name(a) == 'TypeAdapter' and len(a.args) == 1 and not a.keywords and U(a.args[0]) == U(v.elts[0])):
            return False
    return True


def _adapter_factory_param(c: Ctx, fu: Unit) -> str | None:
    """A library function every return of which hands back an adapter compiled for its parameter p: `TypeAdapter(p)`, a local bound once to that, or `e[1]` of an entry `e` of a
    faithful pair memo under a test `e[0] is p` that dominates the return.  Returns p, or None."""
    ps = fu.params()
    if len(ps) != 1:
        return None
    p_ = ps[0]
    if any(isinstance(n, ast.Name) and n.id == p_ and isinstance(n.ctx, ast.Store) for n in own_nodes(fu.node)):
        return None
    g = c.cfg(fu)
    defs_ = q.single_defs(fu)
    rets = [n for n in g.live_nodes() if n.kind == 'return']
    if not rets:
        return None
    for rn in rets:
        v = rn.ast.value
        if isinstance(v, ast.Name) and v.id in defs_:
            v = defs_[v.id]
        if isinstance(v, ast.Call) and call_name(v) == 'TypeAdapter' and len(v.args) == 1 and not v.keywords and U(v.args[0]) == p_:
            continue
        if isinstance(v, ast.Subscript) and isinstance(v.slice, ast.Constant) and v.slice.value == 1 and isinstance(v.value, ast.Name):
            e = v.value.id
            src = defs_.get(e)
            memo = src.func.value.id if isinstance(src, ast.Call) and isinstance(src.func, ast.Attribute) and src.func.attr == 'get' and isinstance(src.func.value, ast.Name) else \
                src.value.id if isinstance(src, ast.Subscript) and isinstance(src.value, ast.Name) else None
            atom = f'{e}[0] is {p_}'
            facts = Facts(lambda a: a == atom, cg=c.cg, unit=fu)
            if memo is not None and _faithful_pair_memo(c, memo) and q.guard_search(g, rn, atom, facts) is None:
                continue
        return None
    return p_


def _adapter_types(c: Ctx, u: Unit, name: str, seen: frozenset = frozenset()) -> set[str]:
    """The type expressions the adapter held in local *name* can have been compiled for ('?' when a definition is not understood)."""
    if name in seen:
        return set()
    out: set[str] = set()
    defs = []
    for n in own_nodes(u.node):
        if isinstance(n, ast.Assign):
            if any(isinstance(t, ast.Name) and t.id == name for t in n.targets):
                defs.append(n.value)
        elif isinstance(n, ast.AnnAssign) and n.value is not None and isinstance(n.target, ast.Name) and n.target.id == name:
            defs.append(n.value)
    if not defs:
        return {'?'}
    for v in defs:
        if isinstance(v, ast.Constant) and v.value is None:
            continue  # "not looked up yet / not in the memo": a later binding supplies the adapter
        if isinstance(v, ast.Call) and call_name(v) == 'TypeAdapter' and len(v.args) == 1:
            out.add(U(v.args[0]))
        elif isinstance(v, ast.Name):
            out |= _adapter_types(c, u, v.id, seen | {name})
        elif isinstance(v, ast.Call) and isinstance(v.func, ast.Attribute) and v.func.attr == 'get' and isinstance(v.func.value, ast.Name) and len(v.args) == 1 and _faithful_adapter_memo(c, v.func.value.id):
            out.add(U(v.args[0]))  # the memo's key is the type
        elif isinstance(v, ast.Subscript) and isinstance(v.value, ast.Name) and _faithful_adapter_memo(c, v.value.id):
            out.add(U(v.slice))
        elif isinstance(v, ast.Subscript) and isinstance(v.slice, ast.Constant) and v.slice.value == 1 and isinstance(v.value, ast.Name):
            # `entry[1]` of an entry of a faithful pair memo, taken under `entry[0] is T`: the adapter compiled for T
            e_ = v.value.id
            srcs = [n.value for n in own_nodes(u.node) if isinstance(n, ast.Assign) and len(n.targets) == 1 and isinstance(n.targets[0], ast.Name) and n.targets[0].id == e_]
            memo = None
            if len(srcs) == 1:
                s0 = srcs[0]
                memo = s0.func.value.id if isinstance(s0, ast.Call) and isinstance(s0.func, ast.Attribute) and s0.func.attr == 'get' and isinstance(s0.func.value, ast.Name) else \
                    s0.value.id if isinstance(s0, ast.Subscript) and isinstance(s0.value, ast.Name) else None
            asg = next((n for n in own_nodes(u.node) if isinstance(n, ast.Assign) and n.value is v), None)
            ty = None
            if memo is not None and _faithful_pair_memo(c, memo) and asg is not None:
                for anc in q.ancestors_of(asg):
                    if isinstance(anc, ast.If) and q.lexically_in(asg, anc, 'body'):
                        for cj in (anc.test.values if isinstance(anc.test, ast.BoolOp) and isinstance(anc.test.op, ast.And) else [anc.test]):
                            if isinstance(cj, ast.Compare) and len(cj.ops) == 1 and isinstance(cj.ops[0], ast.Is) and U(cj.left) == f'{e_}[0]':
                                ty = U(cj.comparators[0])
            out.add(ty or '?')
        else:
            out.add('?')
    return out


@ob('C12.1', 'PATH', 'in EventResult.update, with a declared result_type and a non-None, non-BaseEvent result, self.result is assigned only from the value returned by '
    'model_validate / TypeAdapter(result_type).validate_python; any exception in that region yields result=None, status=error and an error; unvalidated assignment only '
    'when no type is declared, the result is None, or it is a forwarded event')
def c12_1(c: Ctx) -> None:
    u = c.unit(MOD, 'EventResult.update')
    g = c.cfg(u)
    self_ = u.params()[0]
    ws = [w for w in c.cg.writes[u.key] if w.attr == 'result' and w.how == 'assign' and w.target == f'{self_}.result']
    c.floor(len(ws), 3, 'assignments to self.result in EventResult.update')
    # the local holding the raw value
    raw_defs = [n for n in own_nodes(u.node) if isinstance(n, (ast.Assign, ast.AnnAssign)) and n.value is not None and U(n.value).replace('"', "'") == "kwargs['result']"]
    if not raw_defs:
        raise AnalysisError("EventResult.update: no `result = kwargs['result']`")
    raw = U(raw_defs[0].targets[0] if isinstance(raw_defs[0], ast.Assign) else raw_defs[0].target)
    validated_locals: dict[str, list[ast.AST]] = {}
    for n in own_nodes(u.node):
        if isinstance(n, ast.Assign) and isinstance(n.targets[0], ast.Name) and isinstance(n.value, ast.Call) and call_name(n.value) in ('model_validate', 'validate_python', 'validate_json'):
            validated_locals.setdefault(n.targets[0].id, []).append(n)
    # every branch test of the function may be remembered as a (compound) fact; the guard is decided by propositional entailment
    tests = {U(n.test) for n in own_nodes(u.node) if isinstance(n, ast.If)}
    fwd = f'isinstance({raw}, BaseEvent)'
    tracked = set(tests) | {fwd, f'{self_}.result_type', raw}
    facts = Facts(lambda a: a in tracked, cg=c.cg, unit=u, ignore_writes={'status', 'result', 'error', 'started_at', 'completed_at'})
    raw_guard = f'{fwd} or {self_}.result_type is None or {raw} is None'
    n_valid = 0

    def valid_call(dv: ast.AST) -> bool:
        if not (isinstance(dv, ast.Call) and call_name(dv) in ('model_validate', 'validate_python') and dv.args and U(dv.args[0]) == raw):
            return False
        if call_name(dv) == 'model_validate':
            return U(dv.func.value) == f'{self_}.result_type'
        recv = dv.func.value
        if isinstance(recv, ast.Call) and call_name(recv) == 'TypeAdapter' and len(recv.args) == 1 and not recv.keywords:
            return U(recv.args[0]) == f'{self_}.result_type'  # TypeAdapter(self.result_type).validate_python(raw), written in one expression
        if isinstance(recv, ast.Call) and len(recv.args) == 1 and not recv.keywords:
            fu = c.an.fm.resolve_call(recv, u)
            if isinstance(fu, Unit) and _adapter_factory_param(c, fu) is not None:
                return U(recv.args[0]) == f'{self_}.result_type'  # <adapter factory>(self.result_type).validate_python(raw)
        return _adapter_types(c, u, U(recv)) == {f'{self_}.result_type'}

    def valid_expr(e: ast.AST) -> bool:
        e = strip_cast(e)
        if isinstance(e, ast.IfExp):
            return valid_expr(e.body) and valid_expr(e.orelse)
        return valid_call(e)

    for w in ws:
        v = strip_cast(w.node.value)
        st = q.stmt_of(w.node)
        if isinstance(v, ast.Name) and v.id in validated_locals:
            # every definition of the local is a validation call on the raw value with the declared type
            good = True
            for d in [n for n in own_nodes(u.node) if isinstance(n, (ast.Assign, ast.AnnAssign)) and any(isinstance(t, ast.Name) and t.id == v.id for t in (n.targets if isinstance(n, ast.Assign) else [n.target]))]:
                dv = d.value
                if not (isinstance(dv, ast.Call) and call_name(dv) in ('model_validate', 'validate_python') and dv.args and U(dv.args[0]) == raw):
                    good = False
                elif call_name(dv) == 'model_validate' and U(dv.func.value) != f'{self_}.result_type':
                    good = False
                elif call_name(dv) == 'validate_python':
                    if _adapter_types(c, u, U(dv.func.value)) != {f'{self_}.result_type'}:
                        good = False
            if good:
                n_valid += 1
                c.ok(where(u, st), f'self.result <- {v.id} (returned by validation of `{raw}` against self.result_type)')
            else:
                c.fail(u, f'self.result <- {v.id}, which is not always the validated value', 'a value that did not pass validation can be stored as a typed result', node=st)
        elif valid_expr(v):
            n_valid += 1
            c.ok(where(u, st), f'self.result <- {U(v)[:70]} (the value returned by validation of `{raw}` against self.result_type, on either arm)')
        elif isinstance(v, ast.Constant) and v.value is None:
            c.ok(where(u, st), 'self.result <- None')
        elif isinstance(v, ast.Name) and v.id == raw:
            for n in g.nodes_of(st):
                p = q.guard_search(g, n, raw_guard, facts)
                if p is None:
                    c.ok(where(u, st), f'raw value stored only when no type is declared, it is None, or it is a forwarded event')
                else:
                    c.fail(u, f'unvalidated `{self_}.result = {U(w.node.value)[:40]}` reachable with a declared type and a plain value', 'a non-conforming return value is stored as a completed result', node=st, witness=c.path(g.entry, p))
        else:
            c.fail(u, f'self.result assigned from {U(w.node.value)[:60]}', 'result stored from a value the analysis cannot relate to validation', node=st)
    if n_valid == 0:
        c.fail(u, 'no assignment of a validated value to self.result', 'declared result types are not enforced')
    # raw_defs alias when the raw value arrives through a folded helper parameter

    # the exception arm
    val_calls = [n for n in own_nodes(u.node) if isinstance(n, ast.Call) and call_name(n) in ('model_validate', 'validate_python', 'TypeAdapter')]
    # the declared type alone decides how strict the check is: no validation-mode argument (strict=, from_attributes=, context=) is passed along
    def harmless_config(k: ast.keyword) -> bool:
        # `config=ConfigDict(arbitrary_types_allowed=True)` (directly or through a module constant): lets pydantic build an isinstance() schema for classes it knows nothing
        # about; it does not change how any type that has a schema is validated
        if k.arg != 'config':
            return False
        v = k.value
        if isinstance(v, ast.Name):
            mi = c.prog.modules.get(u.module)
            defs = [st_.value for st_ in (mi.tree.body if mi else []) if isinstance(st_, (ast.Assign, ast.AnnAssign)) and st_.value is not None and U(st_.targets[0] if isinstance(st_, ast.Assign) else st_.target) == v.id]
            v = defs[0] if len(defs) == 1 else v
        return isinstance(v, ast.Call) and U(v.func).split('.')[-1] == 'ConfigDict' and not v.args and {kk.arg for kk in v.keywords} <= {'arbitrary_types_allowed'}

    for vc in val_calls:
        # (library fact: TypeAdapter(T, config=..) raises PydanticUserError for a T that carries its own config — BaseModel, dataclass, TypedDict — so an adapter-level config is
        #  only usable as a fallback, after the plain TypeAdapter(T) failed to generate a schema)
        for k in [k for k in vc.keywords if harmless_config(k)]:
            arm = next((a for a in q.ancestors_of(vc) if isinstance(a, ast.ExceptHandler)), None)
            tr = parent(arm) if arm is not None else None
            fallback = arm is not None and 'PydanticSchemaGenerationError' in U(arm.type) and isinstance(tr, ast.Try) \
                and any(isinstance(x, ast.Call) and call_name(x) == 'TypeAdapter' and not x.keywords and U(x.args[0]) == U(vc.args[0]) for b in tr.body for x in ast.walk(b))
            if not fallback:
                c.fail(u, f'{call_name(vc)}(.., config=..) is not a fallback after the plain adapter failed', 'an adapter-level config is refused by pydantic for declared types that carry their own config '
                       '(dataclasses, TypedDicts, BaseModels): every value of such a type, conforming or not, ends as an error result with no value', node=vc)
        extra = [k.arg or '**' for k in vc.keywords if not harmless_config(k)] + ([U(a)[:20] for a in vc.args[1:]])
        if extra:
            c.fail(u, f'{call_name(vc)}(...) is called with extra arguments {extra}', 'a validation-mode argument overrides what the declared type asks for (an explicit strict=False switches a StrictInt / '
                   'ConfigDict(strict=True) type to lax coercion): a non-conforming value is recorded as a completed result', node=vc)
    H = c.an.fm.h
    # per validation call: the outermost try that contains it and catches Exception (a narrower try nested inside — a retry with other options — does not matter)
    tries = {}
    for vc in val_calls:
        enclosing = [t for t in q.ancestors_of(vc) if isinstance(t, ast.Try) and (q.lexically_in(vc, t, 'body') or any(any(z is vc for z in ast.walk(b)) for h_ in t.handlers for b in h_.body) and False)]
        catching = [t for t in enclosing if any(H.match(ANY_EXCEPTION, handler_type_names(h)) == 'yes' for h in t.handlers)]
        if catching:
            tries[id(catching[-1])] = catching[-1]
        elif enclosing:
            tries[id(enclosing[-1])] = enclosing[-1]
    if not tries:
        c.fail(u, 'validation calls are not inside a try', 'a validation error propagates into execute_handler instead of producing an error result')
    for t in tries.values():
        arms = [h for h in t.handlers if H.match(ANY_EXCEPTION, handler_type_names(h)) == 'yes']
        if not arms:
            c.fail(u, 'the try around validation does not catch Exception', 'some validation errors propagate instead of producing an error result', node=t)
            continue
        arm = arms[0]
        sets = {U(s.targets[0]): s for b in arm.body for s in ast.walk(b) if isinstance(s, ast.Assign)}
        need = {f'{self_}.result': lambda v: isinstance(v, ast.Constant) and v.value is None, f'{self_}.status': lambda v: isinstance(v, ast.Constant) and v.value == 'error', f'{self_}.error': lambda v: True}
        miss = [k for k, f in need.items() if k not in sets or not f(sets[k].value)]
        if not miss and not any(isinstance(x, (ast.Raise, ast.Return)) for b in arm.body for x in ast.walk(b)):
            c.ok(where(u, arm), 'validation failure -> result=None, status=error, error set')
        else:
            c.fail(u, f'validation-failure arm does not set {miss or "the error state on all paths"}', 'a non-conforming value does not end as an error result with no value', node=arm)


@ob('C12.2', 'DOM', 'issubclass() on the declared result type (annotated Any: may be int | None, Literal[..]) is guarded by isinstance(.., type), and the validation-error '
    'message does not dereference attributes a non-class type lacks')
def c12_2(c: Ctx) -> None:
    u = c.unit(MOD, 'EventResult.update')
    g = c.cfg(u)
    self_ = u.params()[0]
    subs = [n for n in own_nodes(u.node) if isinstance(n, ast.Call) and isinstance(n.func, ast.Name) and n.func.id == 'issubclass' and n.args and U(n.args[0]) == f'{self_}.result_type']
    for call in subs:
        guard = f'isinstance({U(call.args[0])}, type)'
        p_ = parent(call)
        inline = isinstance(p_, ast.BoolOp) and isinstance(p_.op, ast.And) and any(U(v) == guard for v in p_.values[: p_.values.index(call)])
        if inline:
            c.ok(where(u, call), f'`{U(call)[:50]}` short-circuited by {guard}')
            continue
        facts = Facts(lambda a: a == guard, cg=c.cg, unit=u, ignore_writes={'status', 'result', 'error'})
        st = q.stmt_of(call)
        bad = [p for n in g.nodes_of(st) if (p := q.guard_search(g, n, guard, facts)) is not None]
        if not bad:
            c.ok(where(u, call), f'`{U(call)[:50]}` dominated by {guard}')
        else:
            c.fail(u, f'{U(call)[:60]} not guarded by {guard}', 'for result types that are not classes (int | None, Optional[str], Literal[...]) issubclass raises TypeError and every non-None return value is recorded as an error', node=call, witness=c.path(g.entry, bad[0]))
    if not subs:
        c.ok(where(u), 'no issubclass() on the declared result type')
    for arm in [n for n in own_nodes(u.node) if isinstance(n, ast.ExceptHandler)]:
        for x in [x for b in arm.body for x in ast.walk(b)]:
            if isinstance(x, ast.Attribute) and U(x.value) == f'{self_}.result_type' and x.attr.startswith('__'):
                c.fail(u, f'except arm dereferences {U(x)}', 'building the validation-error message raises AttributeError for result types without that attribute: the original validation outcome is lost', node=x)
    c.ok(where(u), 'validation-error arm does not dereference dunder attributes of the declared type')


FRESH_CALLS = {'list', 'dict', 'set', 'sorted', 'tuple', 'copy', 'deepcopy', 'defaultdict', 'OrderedDict'}
VIEW_MUTATORS = {'append', 'extend', 'update', 'insert', 'pop', 'remove', 'clear', 'setdefault', 'sort', 'reverse', 'add', 'discard', 'popitem', '__setitem__'}


def _fresh(v: ast.AST) -> bool:
    if isinstance(v, (ast.List, ast.Dict, ast.Set, ast.ListComp, ast.DictComp, ast.SetComp, ast.Tuple)):
        return True
    if isinstance(v, ast.Call):
        f = v.func
        nm = f.id if isinstance(f, ast.Name) else f.attr if isinstance(f, ast.Attribute) else ''
        return nm in FRESH_CALLS
    return False


def impure_view_writes(c: Ctx, u: Unit) -> list[tuple[ast.AST, str]]:
    """Mutations inside an accessor that can reach a recorded result: a mutator call / subscript store / attribute store whose receiver is not a
    container created in this function (every binding of the local must be a literal, a comprehension or list()/dict()/set()/sorted()/copy())."""
    out: list[tuple[ast.AST, str]] = []
    defs: dict[str, list[ast.AST]] = {}
    for n in own_nodes(u.node):
        if isinstance(n, (ast.Assign, ast.AnnAssign)) and n.value is not None:
            for t in (n.targets if isinstance(n, ast.Assign) else [n.target]):
                if isinstance(t, ast.Name):
                    defs.setdefault(t.id, []).append(n.value)
        elif isinstance(n, (ast.For, ast.comprehension)):
            for x in ast.walk(n.target):
                if isinstance(x, ast.Name):
                    defs.setdefault(x.id, []).append(n.iter)  # loop variables alias elements of what is iterated

    def fresh_name(nm: str) -> bool:
        ds = [d for d in defs.get(nm, []) if not (isinstance(d, ast.Constant) and d.value is None)]
        return bool(ds) and all(_fresh(d) for d in ds)

    inplace_fns = {'iadd', 'iconcat', 'ior', 'iand', 'isub', 'imul', 'ixor', 'setitem', 'delitem'}
    for n in own_nodes(u.node):
        # an in-place operator / mutator passed as a function value (reduce(operator.iadd, lists), map(list.extend, ...)): it mutates its first operand,
        # which for reduce() without a fresh initial value is the first element of the sequence — a recorded result
        if isinstance(n, (ast.Attribute, ast.Name)) and not (isinstance(parent(n), ast.Call) and parent(n).func is n):
            nm = n.attr if isinstance(n, ast.Attribute) else n.id
            recv_ok = isinstance(n, ast.Name) or U(n.value) in ('operator', 'list', 'dict', 'set', 'op')
            if recv_ok and ((nm in inplace_fns) or (isinstance(n, ast.Attribute) and U(n.value) in ('list', 'dict', 'set') and nm in VIEW_MUTATORS)) and isinstance(getattr(n, 'ctx', None), ast.Load):
                call = parent(n)
                init_fresh = isinstance(call, ast.Call) and call_name(call) == 'reduce' and len(call.args) >= 3 and _fresh(call.args[2])
                if isinstance(n, ast.Name) and not c.prog.module(u.module).imports.get(n.id, '').startswith('operator'):
                    continue  # a local that merely happens to be called iadd / setitem
                if not init_fresh:
                    out.append((n, f'`{U(call if isinstance(call, ast.Call) else n)[:70]}` applies the in-place operation {nm} to elements of the results (no fresh accumulator)'))
    for n in own_nodes(u.node):
        if isinstance(n, ast.Call) and isinstance(n.func, ast.Attribute) and n.func.attr in VIEW_MUTATORS:
            r = n.func.value
            if isinstance(r, ast.Name):
                if not fresh_name(r.id):
                    out.append((n, f'`{U(n)[:60]}` mutates `{r.id}`, which may alias a recorded result ({[U(d)[:30] for d in defs.get(r.id, [])]})'))
            elif isinstance(r, (ast.Attribute, ast.Subscript)) and not (isinstance(r, ast.Attribute) and isinstance(r.value, ast.Name) and r.value.id in ('logger',)):
                out.append((n, f'`{U(n)[:60]}` mutates {U(r)[:40]}'))
        elif isinstance(n, (ast.Assign, ast.AugAssign)):
            for t in (n.targets if isinstance(n, ast.Assign) else [n.target]):
                if isinstance(t, ast.Subscript) and isinstance(t.value, ast.Name) and not fresh_name(t.value.id):
                    out.append((n, f'`{U(n)[:60]}` writes into `{t.value.id}`, which may alias a recorded result'))
                elif isinstance(t, ast.Attribute) and not (isinstance(t.value, ast.Name) and t.value.id in (u.params()[0],)) :
                    out.append((n, f'`{U(n)[:60]}` assigns an attribute of {U(t.value)[:30]}'))
    return out


@ob('C12.3', 'SIB', 'each of the six accessor wrappers calls event_results_filtered exactly once, forwards timeout / include / raise_if_any / raise_if_none unchanged (the flat_* '
    'wrappers conjoin an isinstance test to include), and builds its value by iterating the returned dict in order (no sorting / set / reversal)')
def c12_3(c: Ctx) -> None:
    filt = c.unit(MOD, 'BaseEvent.event_results_filtered')
    for name in WRAPPERS:
        u = c.unit(MOD, f'BaseEvent.{name}')
        calls = [call for cu, call in c.cg.callers(filt) if cu.key == u.key or (cu.outer is not None and cu.outer.key == u.key)]
        if not calls and name == 'event_result':
            # event_result() as "the first element of event_results_list()": the same single view, one hop further (event_results_list is checked in its own right)
            lst = c.unit(MOD, 'BaseEvent.event_results_list')
            calls = [call for cu, call in c.cg.callers(lst) if cu.key == u.key]
        if len(calls) != 1 or not isinstance(parent(calls[0]), ast.Await):
            c.fail(u, f'{len(calls)} calls of event_results_filtered', f'{name} is not a single view over event_results_filtered')
            continue
        call = calls[0]
        ps = u.params()
        bad = []
        single_defs: dict[str, list[ast.AST]] = {}
        for n in own_nodes(u.node):
            if isinstance(n, (ast.Assign, ast.AnnAssign)) and n.value is not None:
                for t in (n.targets if isinstance(n, ast.Assign) else [n.target]):
                    if isinstance(t, ast.Name):
                        single_defs.setdefault(t.id, []).append(n.value)
        for f in FLAGS:
            v = q.kw(call, f)
            if v is None and not call.keywords and len(call.args) == len(FLAGS):
                v = call.args[FLAGS.index(f)]  # the four flags passed by position, in the callee's order
            if isinstance(v, ast.Name) and v.id not in ps and len(single_defs.get(v.id, [])) == 1:
                v = single_defs[v.id][0]  # a local bound once: what is forwarded is its value
            if f not in ps:
                bad.append(f'{f}: wrapper has no such parameter')
            elif v is None:
                bad.append(f'{f}: not forwarded')
            elif f == 'include' and isinstance(v, ast.Lambda):
                body = v.body
                arg = v.args.args[0].arg if v.args.args else ''
                conj = body.values if isinstance(body, ast.BoolOp) and isinstance(body.op, ast.And) else []
                has_inc = any(U(x) == f'include({arg})' for x in conj)
                has_isinst = any(isinstance(x, ast.Call) and call_name(x) == 'isinstance' and U(x.args[0]) == f'{arg}.result' for x in conj)
                if not (has_inc and has_isinst and len(conj) == 2 and name.startswith('event_results_flat')):
                    bad.append(f'include: forwarded as {U(v)[:60]}')
            elif U(v) != f:
                bad.append(f'{f}: forwarded as {U(v)[:40]}')
        inc_v = q.kw(call, 'include')
        if isinstance(inc_v, ast.Name) and inc_v.id not in ps and len(single_defs.get(inc_v.id, [])) == 1:
            inc_v = single_defs[inc_v.id][0]
        sp = shape_param_filter(filt.node)
        shape_kw = q.kw(call, sp[1]) if sp is not None else None
        want_cls = 'dict' if name.endswith('flat_dict') else 'list' if name.endswith('flat_list') else None
        by_param = sp is not None and want_cls is not None and shape_kw is not None and U(shape_kw) == want_cls  # the callee conjoins the shape test itself (C12.4 checks how)
        if sp is not None and shape_kw is not None and not by_param and not (isinstance(shape_kw, ast.Constant) and shape_kw.value is None):
            bad.append(f'{sp[1]}={U(shape_kw)[:30]}: results are narrowed to a class this accessor does not promise')
        if name.startswith('event_results_flat') and not isinstance(inc_v, ast.Lambda) and not by_param:
            bad.append('include: the dict/list shape test is not conjoined to the include filter (raise_if_none would be judged over results of the wrong shape)')
        if bad:
            c.fail(u, f'flag forwarding: {"; ".join(bad)}', f'{name} does not honour its flags exactly: ' + '; '.join(bad), node=call)
        else:
            c.ok(where(u, call), f'{name}: timeout/include/raise_if_any/raise_if_none forwarded unchanged')
        reorder = [n for n in own_nodes_with_lambdas(u.node) if isinstance(n, ast.Call) and isinstance(n.func, ast.Name) and n.func.id in ('sorted', 'reversed', 'set', 'frozenset', 'shuffle', 'sample')]
        reorder += [n for n in own_nodes_with_lambdas(u.node) if isinstance(n, ast.Call) and call_name(n) in ('sort', 'reverse', 'shuffle') and isinstance(n.func, ast.Attribute)]
        if reorder:
            c.fail(u, f'reorders results: {U(reorder[0])[:60]}', f'{name} does not return values in handler order', node=reorder[0])
        # the value is built from the returned dict
        st = q.stmt_of(call)
        rv = st.targets[0].id if isinstance(st, ast.Assign) and isinstance(st.targets[0], ast.Name) else None
        # plain order-preserving copies of the returned dict stand for it: x = dict(rv) / rv.copy() / rv
        views = {rv} if rv else set()
        grew = True
        while grew:
            grew = False
            for nm_, ds in single_defs.items():
                if nm_ in views or len(ds) != 1:
                    continue
                d_ = ds[0]
                src_ = d_.args[0] if isinstance(d_, ast.Call) and U(d_.func) == 'dict' and len(d_.args) == 1 and not d_.keywords else d_.func.value if isinstance(d_, ast.Call) and isinstance(d_.func, ast.Attribute) and d_.func.attr == 'copy' and not d_.args else d_
                if isinstance(src_, ast.Name) and src_.id in views:
                    views.add(nm_)
                    grew = True
        iters = [n for n in own_nodes_with_lambdas(u.node) if isinstance(n, ast.Call) and call_name(n) in ('values', 'items') and isinstance(n.func, ast.Attribute) and U(n.func.value) in views]
        if name == 'event_result' and rv and not iters and call_name(call) == 'event_results_list':
            iters = [call]  # the list returned by event_results_list() is already the values in handler order
        filt_ifs = [g_ for n in own_nodes_with_lambdas(u.node) if isinstance(n, (ast.ListComp, ast.DictComp, ast.GeneratorExp, ast.SetComp)) for g_ in n.generators if g_.ifs]
        if rv and iters and not filt_ifs and not any(isinstance(n, ast.SetComp) for n in own_nodes_with_lambdas(u.node)):
            c.ok(where(u), f'{name}: value built by iterating {rv}.{call_name(iters[0])}() in order, nothing filtered')
        else:
            c.fail(u, f'{name}: value not built by plain iteration of the filtered results', f'{name} drops, invents or reorders values', node=st)
        # the merge loops of the views drop nothing except empty containers
        for lp in [n for n in own_nodes(u.node) if isinstance(n, ast.For)]:
            var = lp.target.id if isinstance(lp.target, ast.Name) else None
            for st_ in ast.walk(lp):
                if isinstance(st_, ast.If) and any(isinstance(b, (ast.Continue, ast.Break)) for b in st_.body):
                    if not (var and U(st_.test) == f'not {var}.result'):
                        c.fail(u, f'{name}: merge loop skips results under `{U(st_.test)[:60]}`', f'{name} silently drops results that passed the filter', node=st_)
        impure = impure_view_writes(c, u)
        for node_, why_ in impure:
            c.fail(u, f'{name}: {why_}', f'{name} is not a pure view: calling it mutates a recorded handler result (results of a completed event change; every further call changes them again)', node=node_)
        if not impure:
            c.ok(where(u), f'{name}: mutates only containers it created itself')
        idx = [n for n in own_nodes(u.node) if isinstance(n, ast.Subscript) and isinstance(n.slice, ast.Constant) and isinstance(n.slice.value, int)]
        if name == 'event_result':
            firsts = [n for n in own_nodes(u.node) if isinstance(n, ast.Call) and isinstance(n.func, ast.Name) and n.func.id == 'next' and n.args and isinstance(n.args[0], ast.Call)
                      and isinstance(n.args[0].func, ast.Name) and n.args[0].func.id == 'iter' and len(n.args[0].args) == 1 and not n.keywords]
            if idx and all(n.slice.value == 0 for n in idx):
                c.ok(where(u, idx[0]), 'event_result returns the first included result')
            elif not idx and len(firsts) == 1 and isinstance(firsts[0].args[0].args[0], ast.Call) and call_name(firsts[0].args[0].args[0]) == 'values' and U(firsts[0].args[0].args[0].func.value) in views:
                c.ok(where(u, firsts[0]), 'event_result returns the first included result (next(iter(<results>.values()), ..): insertion order is handler order)')
            else:
                c.fail(u, f'event_result indexes {[U(n)[:30] for n in idx]}', 'event_result does not return the first result in handler order')
        d = {a.arg: dv for a, dv in zip(u.node.args.args[-len(u.node.args.defaults):], u.node.args.defaults)} if u.node.args.defaults else {}
        for f, want in README_DEFAULTS.items():
            if f in d and isinstance(d[f], ast.Constant) and d[f].value != want:
                c.note(f'observation (not an obligation): {name} defaults {f}={d[f].value}, README tables say {want}')


SHAPE_PARAM: dict[int, tuple[str, str]] = {}  # id(program) -> (local filter name, optional class parameter) of event_results_filtered, when it has one


def shape_param_filter(fn: ast.AST) -> tuple[str, str] | None:
    """event_results_filtered may take an optional class (default None) that narrows the include filter to results whose value is an instance of it:

        L = include
        if P is not None:
            def L(r): return isinstance(r.result, P) and include(r)          (or  L = lambda r: ...)

    With P None the filter is `include` itself; with a class it is the conjunction the flat_* wrappers used to build themselves.  Returns (L, P) or None."""
    a = fn.args
    names = [x.arg for x in a.posonlyargs + a.args]
    defaults = dict(zip(names[len(names) - len(a.defaults):], a.defaults)) if a.defaults else {}
    defaults.update({k.arg: d for k, d in zip(a.kwonlyargs, a.kw_defaults) if d is not None})
    for st in fn.body:
        if not (isinstance(st, ast.If) and isinstance(st.test, ast.Compare) and len(st.test.ops) == 1 and isinstance(st.test.ops[0], ast.IsNot) and isinstance(st.test.left, ast.Name)
                and isinstance(st.test.comparators[0], ast.Constant) and st.test.comparators[0].value is None and not st.orelse and len(st.body) == 1):
            continue
        P = st.test.left.id
        if not (P in defaults and isinstance(defaults[P], ast.Constant) and defaults[P].value is None):
            continue
        d = st.body[0]
        L = arg = body = None
        if isinstance(d, ast.FunctionDef) and len(d.args.args) == 1 and not d.args.defaults:
            b = [x for x in d.body if not (isinstance(x, ast.Expr) and isinstance(x.value, ast.Constant))]
            if len(b) == 1 and isinstance(b[0], ast.Return) and b[0].value is not None:
                L, arg, body = d.name, d.args.args[0].arg, b[0].value
        elif isinstance(d, ast.Assign) and len(d.targets) == 1 and isinstance(d.targets[0], ast.Name) and isinstance(d.value, ast.Lambda) and len(d.value.args.args) == 1:
            L, arg, body = d.targets[0].id, d.value.args.args[0].arg, d.value.body
        if L is None:
            continue
        conj = body.values if isinstance(body, ast.BoolOp) and isinstance(body.op, ast.And) else []
        has_inc = any(U(x) == f'include({arg})' for x in conj)
        has_shape = any(isinstance(x, ast.Call) and call_name(x) == 'isinstance' and len(x.args) == 2 and U(x.args[0]) == f'{arg}.result' and U(x.args[1]) == P for x in conj)
        if not (len(conj) == 2 and has_inc and has_shape):
            continue
        # every other binding of L in the function is `L = include`
        others = [n for n in own_nodes(fn) if isinstance(n, (ast.Assign, ast.AnnAssign)) and n is not d and n.value is not None
                  and any(isinstance(t, ast.Name) and t.id == L for t in (n.targets if isinstance(n, ast.Assign) else [n.target]))]
        if others and all(U(n.value) == 'include' for n in others) and not any(isinstance(n, ast.Name) and n.id == P and isinstance(n.ctx, ast.Store) for n in own_nodes(fn)):
            return L, P
    return None


@ob('C12.4', 'SHAPE', 'event_results_filtered: the included results are an order-preserving comprehension over all results filtered by include only; raise_if_none raises '
    'exactly when that set is empty; the returned dict is that set')
def c12_4(c: Ctx) -> None:
    u = c.unit(MOD, 'BaseEvent.event_results_filtered')
    fn = q.comp_view(u.node)  # accumulate-in-a-loop written as the equivalent comprehension
    comps = {}
    for n in own_nodes(fn):
        if isinstance(n, (ast.Assign, ast.AnnAssign)) and isinstance(n.value, ast.DictComp):
            tgt = n.targets[0] if isinstance(n, ast.Assign) else n.target
            if isinstance(tgt, ast.Name):
                comps[tgt.id] = n.value
    sp = shape_param_filter(u.node)
    SHAPE_PARAM.pop(id(c.prog), None)
    if sp is not None:
        SHAPE_PARAM[id(c.prog)] = sp
        c.ok(where(u), f'optional `{sp[1]}` (default None) narrows the filter to results whose value is an instance of it: `{sp[0]}` is include itself when it is None')

        class _AsInclude(ast.NodeTransformer):  # the rest of the function is read with `L(r)` spelled `include(r)`
            def visit_Call(self, node):  # noqa: N802
                self.generic_visit(node)
                if isinstance(node.func, ast.Name) and node.func.id == sp[0]:
                    node.func = ast.copy_location(ast.Name(id='include', ctx=ast.Load()), node.func)
                return node

        for k_ in list(comps):
            comps[k_] = _AsInclude().visit(comps[k_])
    inc = [(k, v) for k, v in comps.items() if any('include(' in U(i) for g_ in v.generators for i in g_.ifs)]
    if len(inc) != 1:
        c.fail(u, f'{len(inc)} comprehensions filtered by include()', 'the include filter is not applied exactly once')
        return
    name, comp = inc[0]
    gen = comp.generators[0]
    src_ok = len(comp.generators) == 1 and isinstance(gen.iter, ast.Call) and call_name(gen.iter) == 'items'
    src = U(gen.iter.func.value) if src_ok else ''
    # source must be all results (self.event_results or an unfiltered copy of it)
    plain_copies = {U(n.targets[0] if isinstance(n, ast.Assign) else n.target) for n in own_nodes(fn) if isinstance(n, (ast.Assign, ast.AnnAssign)) and n.value is not None
                    and ((isinstance(n.value, ast.Call) and U(n.value.func) == 'dict' and len(n.value.args) == 1 and U(n.value.args[0]).endswith('.event_results'))
                         or (isinstance(n.value, ast.Call) and U(n.value.func).endswith('.event_results.copy'))
                         or (isinstance(n.value, ast.Attribute) and n.value.attr == 'event_results'))}  # (a plain alias: nothing suspends or writes between it and the comprehensions)
    full = src.endswith('.event_results') or src in plain_copies or (src in comps and not comps[src].generators[0].ifs and U(comps[src].generators[0].iter).endswith('.event_results.items()')
                                              and U(comps[src].key) == U(comps[src].generators[0].target.elts[0]) and U(comps[src].value) == U(comps[src].generators[0].target.elts[1]))
    ident = isinstance(gen.target, ast.Tuple) and U(comp.key) == U(gen.target.elts[0]) and U(comp.value) == U(gen.target.elts[1])
    only_inc = len(gen.ifs) == 1 and U(gen.ifs[0]) == f'include({U(gen.target.elts[1])})' if isinstance(gen.target, ast.Tuple) else False
    if src_ok and full and ident and only_inc:
        c.ok(where(u, comp), f'{name} = {{k: r for k, r in <all results>.items() if include(r)}} (order preserved)')
    else:
        c.fail(u, f'{name} = {U(comp)[:90]}', 'the included set is not "all results, in order, filtered by include only"', node=comp)
    none_ifs = [n for n in own_nodes(fn) if isinstance(n, ast.If) and 'raise_if_none' in U(n.test)]
    good = len(none_ifs) == 1 and isinstance(none_ifs[0].test, ast.BoolOp) and isinstance(none_ifs[0].test.op, ast.And) and {U(v) for v in none_ifs[0].test.values} == {'raise_if_none', f'not {name}'} \
        and any(isinstance(s, ast.Raise) for s in none_ifs[0].body)
    if good:
        c.ok(where(u, none_ifs[0]), f'raises exactly when raise_if_none and not {name}')
    else:
        c.fail(u, f'raise_if_none test is {[U(n.test)[:60] for n in none_ifs]}', 'raise_if_none does not raise exactly when no result is included')
    rets = [n for n in own_nodes(fn) if isinstance(n, ast.Return) and n.value is not None]
    for r in rets:
        rv = U(r.value)
        chain_ok = rv == name or (rv in comps and not comps[rv].generators[0].ifs and U(comps[rv].generators[0].iter) == f'{name}.items()'
                                  and U(comps[rv].key) == U(comps[rv].generators[0].target.elts[0]) and U(comps[rv].value) == U(comps[rv].generators[0].target.elts[1]))
        if chain_ok:
            c.ok(where(u, r), f'returns the included set ({rv})')
        else:
            c.fail(u, f'returns {rv[:60]}', 'the accessor core does not return exactly the included results', node=r)



@ob('C12.5', 'ORD', 'the declared result type of an event is resolved per class: an event_result_type set explicitly in the class definition is consulted before the class-level '
    'cache is read (the cache attribute is inherited by subclasses, so reading it first would validate a subclass against its parent\'s type)')
def c12_5(c: Ctx) -> None:
    u = c.unit(MOD, 'BaseEvent._set_event_result_type_from_generic_arg')
    g = c.cfg(u)
    cache_reads = [n for n in g.live_nodes() if n.kind in ('if', 'stmt', 'return') and any(isinstance(x, ast.Attribute) and x.attr == '_event_result_type_cache' and isinstance(x.ctx, ast.Load) for h in q.node_exprs(n) for x in ast.walk(h))]
    if not cache_reads:
        c.ok(where(u), 'no class-level cache of the result type is read')
        return
    explicit = [n for n in g.live_nodes() if n.kind in ('if', 'stmt') and any(isinstance(x, (ast.Subscript, ast.Call, ast.Compare)) and 'model_fields' in U(x) and 'event_result_type' in U(x) for h in q.node_exprs(n) for x in ast.walk(h))]
    if not explicit:
        c.fail(u, 'the class-level result-type cache is read but an explicit event_result_type of the class is never consulted', "an event class that re-declares event_result_type is validated against an inherited cached type")
        return
    eid = {n.id for n in explicit}
    from sa.cfg import search

    for cr in cache_reads:
        p = search([(g.entry, ())], is_target=lambda n, d: n is cr, is_barrier=lambda n, d: n.id in eid, edge_ok=lambda n, e, d: None if e.is_exc else d)
        if p is None:
            c.ok(where(u, cr.ast), 'the cache is read only after the explicit class-level declaration was consulted')
        else:
            c.fail(u, 'the inherited class-level cache is read before the explicit event_result_type of the class is consulted', "a subclass that re-declares event_result_type is validated against its parent's cached type when the parent was instantiated first: conforming values become errors, non-conforming ones complete", node=cr.ast, witness=c.path(g.entry, p))
    # the explicit declaration, when present, decides (returns) before the cache / generic extraction
    wr = [w for w in c.cg.writes.get(u.key, []) if w.attr == '_event_result_type_cache']
    for w in wr:
        if U(w.base) != u.params()[0]:
            c.fail(u, f'cache written on {U(w.base)} instead of the class being instantiated', 'the result type cache is shared between unrelated classes', node=w.node)


def _isinstance_override(o, k=None):
    return UNKNOWN


@ob('C12.6', 'SHAPE', 'the default `include` filter of the accessors keeps exactly the documented results ("only non-None, non-exception results"): a completed result whose value '
    'is falsy but not None (0, False, \'\', [], {}) is kept; None, exception values, errored / unfinished results and forwarded events are dropped')
def c12_6(c: Ctx) -> None:
    from sa.absint import AbsInt, Obj, Rec

    filt = c.unit(MOD, 'BaseEvent.event_results_filtered')
    # the default of the `include` parameter
    a = filt.node.args
    names = [x.arg for x in a.posonlyargs + a.args]
    dflt = dict(zip(names[len(names) - len(a.defaults):], a.defaults)).get('include')
    if not isinstance(dflt, ast.Name):
        raise AnalysisError('event_results_filtered: the default of `include` is not a named function')
    u = c.unit(MOD, f'BaseEvent.{dflt.id}')
    p0 = u.params()[0]

    class Exc:
        pass

    def isinst(o, k=None):
        return UNKNOWN

    cases = [
        ('completed, result 0', Rec(status='completed', result=0, error=None), True),
        ('completed, result False', Rec(status='completed', result=False, error=None), True),
        ("completed, result ''", Rec(status='completed', result='', error=None), True),
        ('completed, result []', Rec(status='completed', result=[], error=None), True),
        ("completed, result 'value'", Rec(status='completed', result='value', error=None), True),
        ('completed, result None', Rec(status='completed', result=None, error=None), False),
        ('completed, result is an exception object', Rec(status='completed', result=Obj('ValueError', 'e'), error=None), False),
        ('completed, result is a forwarded event', Rec(status='completed', result=Obj('BaseEvent', 'ev'), error=None), False),
        ('error', Rec(status='error', result=None, error=Obj('ValueError', 'e')), False),
        ('started', Rec(status='started', result=None, error=None), False),
    ]
    exc_like = {'ValueError': ('BaseException', 'Exception', 'ValueError'), 'BaseEvent': ('BaseEvent',)}

    def isinstance_model(call_node):
        return None

    for desc, rec, want in cases:
        def _isinstance(o, k=None, _node=None):
            return UNKNOWN

        ai = AbsInt(calls={'bool': lambda v: UNKNOWN if v is UNKNOWN else (True if isinstance(v, Obj) else bool(v))})
        # isinstance over the abstract values: plain python values are instances of neither BaseException nor BaseEvent; Obj values by their class
        orig_call = ai.call

        def call(cn, env, orig_call=orig_call, ai=ai):
            if isinstance(cn.func, ast.Name) and cn.func.id == 'isinstance' and len(cn.args) == 2:
                v = ai.ev(cn.args[0], env)
                ks = cn.args[1].elts if isinstance(cn.args[1], ast.Tuple) else [cn.args[1]]
                kn = [U(k).split('.')[-1] for k in ks]
                if v is UNKNOWN:
                    return UNKNOWN
                if isinstance(v, Obj):
                    return any(k in exc_like.get(v.cls, (v.cls,)) for k in kn)
                return False
            return orig_call(cn, env)

        ai.call = call  # type: ignore[method-assign]
        ai.run(u.node.body, {p0: rec})
        if ai.undecided or len(ai.returns) != 1 or ai.returns[0] is UNKNOWN:
            raise AnalysisError(f'{u}: undecided for a result that is {desc}')
        got = ai.truth(ai.returns[0])
        if got == want:
            c.ok(where(u), f'{desc} -> {"kept" if got else "dropped"}')
        else:
            c.fail(u, f'{desc} -> {"kept" if got else "dropped"}', f'the default include filter {"keeps" if got else "drops"} a result that is {desc}: the accessors '
                   + ('return a value that is not a handler return value' if got else 'silently omit a recorded, conforming handler result (and raise_if_none may fire although a value was returned)'))


@ob('C12.7', 'SHAPE', 'raise_if_any raises the error of the first failing result in handler order: the failing results are an order-preserving selection of all results, and the raised value '
    'is the error of its first element (evaluated on a two-error example)')
def c12_7(c: Ctx) -> None:
    from sa.absint import UNKNOWN as UNK, AbsInt, Obj, Rec

    u = c.unit(MOD, 'BaseEvent.event_results_filtered')
    fn = q.comp_view(u.node)
    arms = [n for n in own_nodes(fn) if isinstance(n, ast.If) and any(isinstance(x, ast.Name) and x.id == 'raise_if_any' for x in ast.walk(n.test)) and any(isinstance(x, ast.Raise) for b in n.body for x in ast.walk(b))]
    if len(arms) != 1:
        c.fail(u, f'{len(arms)} raise_if_any arms', 'raise_if_any does not raise the recorded error')
        return
    arm = arms[0]
    # statements of the function from the first binding of a results dict up to and including the arm, evaluated on: three results in handler order, the 2nd and 3rd failed
    self_ = u.params()[0]
    e2, e3 = Obj('ValueError', 'error-of-second-handler'), Obj('KeyError', 'error-of-third-handler')
    results = {'h1': Rec(status='completed', result='ok', error=None), 'h2': Rec(status='error', result=None, error=e2), 'h3': Rec(status='error', result=None, error=e3)}
    blk = q.block_of(arm) or []
    idx = next((i for i, st in enumerate(blk) if st is arm), None)
    if idx is None or blk is not fn.body:
        raise AnalysisError('event_results_filtered: the raise_if_any arm is not a top-level statement of the function')
    first = next((i for i, st in enumerate(blk) if isinstance(st, (ast.Assign, ast.AnnAssign)) and isinstance(st.value, (ast.DictComp, ast.Call, ast.Dict, ast.Attribute)) and f'{self_}.event_results' in U(st.value)), None)
    if first is None or first > idx:
        raise AnalysisError('event_results_filtered: no binding of the recorded results before the raise_if_any arm')
    ai = AbsInt(program=c.prog, module=MOD)
    orig_call, orig_ev = ai.call, ai.ev

    def call(cn, env):
        if isinstance(cn.func, ast.Name) and cn.func.id == 'isinstance' and len(cn.args) == 2:
            v = ai.ev(cn.args[0], env)
            if v is UNK:
                return UNK
            return isinstance(v, Obj) and v.cls in ('ValueError', 'KeyError') and 'Exception' in U(cn.args[1])
        if isinstance(cn.func, ast.Name) and cn.func.id == 'dict' and len(cn.args) == 1 and not cn.keywords:
            v = ai.ev(cn.args[0], env)
            return dict(v) if type(v) is dict else UNK
        return orig_call(cn, env)

    def ev(e, env):
        if isinstance(e, ast.DictComp) and len(e.generators) == 1:
            proxy = ast.ListComp(elt=ast.Tuple(elts=[e.key, e.value], ctx=ast.Load()), generators=e.generators)
            items = orig_ev(proxy, env)
            if items is UNK or any(k is UNK for k, _ in items):
                return UNK
            return dict(items)
        return orig_ev(e, env)

    ai.call, ai.ev = call, ev  # type: ignore[method-assign]
    env = {self_: Rec(event_results=results), 'raise_if_any': True, 'raise_if_none': False, 'include': UNK}
    ai.run(blk[first:idx + 1], env)
    vals = ai.raised_values
    if not vals:
        c.fail(u, 'with raise_if_any and two failed results nothing is raised', 'raise_if_any does not raise although handlers failed', node=arm)
    elif any(v is e3 or v == e3 for v in vals):
        c.fail(u, 'raise_if_any raises the error of a later failing handler, not of the first', 'with several failing handlers the accessor raises a different error than the one of the first failing handler in '
               'handler order: callers that handle the documented first error see another one', node=arm)
    elif any(v is e2 or v == e2 for v in vals):
        c.ok(where(u, arm), 'on (ok, error, error) raise_if_any raises the error of the first failing handler')
    else:
        raise AnalysisError(f'event_results_filtered: the value raised under raise_if_any could not be evaluated ({len(vals)} raise statements reached, none decided)')


OBLIGATIONS = ob.obs
