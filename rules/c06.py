"""C06 — cross-bus mutual exclusion of event processing: structural necessary conditions."""

from __future__ import annotations

import ast

from .common import *  # noqa: F401,F403
from .common import (
    SVC, MOD, TASKVARS, AnalysisError, Ctx, Facts, Registry, U, Unit, await_coro, call_name, eq_atom, lock_held_at, lock_withs, own_nodes,
    own_nodes_with_lambdas, parent, q, where,
)  # fmt: skip
from .c01 import exec_handler_sites, handler_invocations

ob = Registry()


@ob('C06.1', 'LOCKSET', 'every process_event call runs with the one global lock held (inside `async with _get_global_lock()` or under a true holds_global_lock.get()); '
    'the lock expression resolves to the module-level singleton accessor; no other ReentrantLock is ever constructed')
def c06_1(c: Ctx) -> None:
    pe = c.unit(SVC, 'EventBus.process_event')
    sites = c.cg.callers(pe)
    c.floor(len(sites), 1, 'process_event call sites (step, inline loop)')
    for u, call in sites:
        held, chain = lock_held_at(c, u, call)
        if not held and call.args and isinstance(call.func, ast.Attribute):
            # processing an event nobody on this bus listens to runs no handler: it needs no exclusion.  "Nobody listens" = both registry lookups (its type, '*') are empty,
            # tested in this function with nothing in between that suspends or registers
            recv, evx = U(call.func.value), U(call.args[0])
            l1, l2 = f'{recv}.handlers.get({evx}.event_type)', f"{recv}.handlers.get('*')"
            gq = c.cfg(u)
            fq = Facts(lambda a: a in (l1, l2) or a.isidentifier(), cg=c.cg, unit=u, ignore_writes=set(getattr(c.prog, 'memos', {}) or {}))
            nodes_ = gq.nodes_of(q.stmt_of(call))
            if nodes_ and all(q.guard_search(gq, n_, f'not {l1} and not {l2}', fq) is None for n_ in nodes_):
                c.ok(where(u, call), f'`{U(call)[:60]}` runs without the lock only for an event no handler of this bus listens to (no handler runs)')
                continue
        if held:
            c.ok(where(u, call), f'`{U(call)[:60]}` executes with the global lock held')
            # ... and ends within the hold: the coroutine is awaited in place (or through wait_for, which cancels it and waits for it to finish).  Handed to shield / create_task /
            # ensure_future / gather it lives on as a task of its own when the holder is cancelled: the holder leaves the `async with`, the lock is free, and the handlers still run
            par = parent(call)
            via = None
            if isinstance(par, ast.Call) and call in par.args:
                via = call_name(par)
                par = parent(par)
            if isinstance(par, ast.Await) and via in (None, 'wait_for'):
                c.ok(where(u, call), 'the processing coroutine is awaited in place: it cannot outlive the hold of the lock')
            else:
                c.fail(u, f'{U(call)[:60]} is not awaited in place (handed to {via or U(par)[:30]})', 'the processing of an event is detached from the hold of the global lock: when the holder is cancelled (stop(), a '
                       'timeout around step) the lock is released while the handlers of this event are still running, and another bus starts processing at the same time', node=call)
        else:
            c.fail(u, f'{U(call)[:80]} reached without the global lock (call chain {" <- ".join(chain)})', 'an event is processed without the cross-bus processing lock: handlers of two buses can overlap', node=call)
    # singleton
    acc = c.unit(SVC, '_get_global_lock')
    mi = c.prog.module(SVC)
    rets = [n for n in own_nodes(acc.node) if isinstance(n, ast.Return)]
    gnames = {U(r.value) for r in rets if r.value is not None}
    ctor_sites = []
    for u in c.prog.units.values():
        for n in own_nodes_with_lambdas(u.node):
            if isinstance(n, ast.Call) and isinstance(n.func, ast.Name) and n.func.id == 'ReentrantLock':
                ctor_sites.append((u, n))
    for n in ast.walk(mi.tree):
        if isinstance(n, ast.Call) and isinstance(n.func, ast.Name) and n.func.id == 'ReentrantLock' and c.prog.unit_of(n) is None:
            ctor_sites.append((None, n))
    good = len(gnames) == 1 and next(iter(gnames)) in mi.globals_assign or (len(gnames) == 1 and next(iter(gnames)) in mi.globals_ann)
    if good:
        gname = next(iter(gnames))
        c.ok(where(acc), f'_get_global_lock returns the module-level `{gname}`')
        for u, n in ctor_sites:
            st = q.stmt_of(n)
            ok_site = u is not None and u.key == acc.key and isinstance(st, ast.Assign) and U(st.targets[0]) == gname
            if ok_site:
                guard = q.enclosing(st, (ast.If,))
                ok_site = guard is not None and U(guard.test) == f'{gname} is None'
            if ok_site:
                c.ok(where(acc, n), 'ReentrantLock() constructed once, under `is None`')
            else:
                c.fail(u if u is not None else 'bubus/service.py <module>', f'constructs another ReentrantLock: {q.stmt_text(st, 80)}', 'more than one processing lock exists: buses locking different objects do not exclude each other', node=n)
    else:
        c.fail(acc, f'_get_global_lock returns {sorted(gnames)}', 'the lock accessor does not return a single module-level lock object')
    for u, _ in sites:
        for w in lock_withs(c, u):
            ce = q.deref(u, w.items[0].context_expr)  # (the lock may be looked up into a local first, e.g. to log that it is contended)
            if isinstance(ce, ast.Call) and isinstance(ce.func, ast.Name) and ce.func.id == acc.name:
                c.ok(where(u, w), f'`async with {U(ce)}` uses the singleton accessor')
            else:
                c.fail(u, f'async with {U(ce)[:60]} is not the singleton accessor', 'processing is guarded by a lock other than the global one', node=w)


def flag_writes(c: Ctx, name: str):
    return [w for w in c.cg.all_writes(name) if w.base is None or U(w.base) == name]


@ob('C06.2', 'WMW/ORD', 'holds_global_lock is written only by ReentrantLock (and reset to False at the start of the run loop); in __aenter__ set(True) follows the '
    'semaphore acquisition with no await in between; in __aexit__ release() is preceded by set(False), under flag-true and depth==0, with no await in between')
def c06_2(c: Ctx) -> None:
    ws = [w for w in c.cg.all_writes('holds_global_lock') if w.target == 'holds_global_lock']
    c.floor(len(ws), 2, 'writes of holds_global_lock')
    rl = c.unit(SVC, 'EventBus._run_loop')
    prep = runloop_context_preparers(c)
    for w in ws:
        if w.unit.cls == 'ReentrantLock':
            c.ok(w.where() + ' ' + w.unit.qualname, f'holds_global_lock.{w.how}(...) inside ReentrantLock')
        elif (w.unit.key == rl.key or w.unit.key in prep) and isinstance(w.node, ast.Call) and w.how == 'set' and len(w.node.args) == 1 and isinstance(w.node.args[0], ast.Constant) and w.node.args[0].value is False:
            c.ok(w.where() + ' ' + w.unit.qualname, 'run loop resets holds_global_lock to False (does not claim ownership)')
        else:
            c.fail(w.unit, f'writes holds_global_lock: {U(w.node)[:80]}', f'lock ownership flag written outside ReentrantLock (in {w.unit.qualname}): code can claim the lock without holding it', node=w.node)
    ae = c.unit(SVC, 'ReentrantLock.__aenter__')
    g = c.cfg(ae)
    sets_true = [n for n in g.live_nodes() if any(call_name(x) == 'set' and U(x.func.value) == 'holds_global_lock' and x.args and isinstance(x.args[0], ast.Constant) and x.args[0].value is True for x in q.node_calls(n))]
    acq = [n for n in g.live_nodes() if any(call_name(x) == 'acquire' for x in q.node_calls(n))]
    c.floor(len(sets_true), 1, 'holds_global_lock.set(True) in __aenter__')
    from sa.cfg import search

    for sn in sets_true:
        aid = {n.id for n in acq}
        p = search([(g.entry, ())], is_target=lambda n, d: n is sn, is_barrier=lambda n, d: n.id in aid)
        if p is None and acq:
            c.ok(where(ae, sn.ast), 'set(True) only after the semaphore was acquired')
        else:
            c.fail(ae, 'holds_global_lock.set(True) reachable before semaphore.acquire()', 'a context claims lock ownership before it has the lock', node=sn.ast, witness=c.path(g.entry, p) if p else [])
        for an_ in acq:
            p2 = search([(an_, ())], is_target=lambda n, d: q.node_has_await(n) and n is not an_, is_barrier=lambda n, d: n is sn,
                        edge_ok=lambda n, e, d: None if e.is_exc else d)
            if p2 is None:
                c.ok(where(ae, an_.ast), 'no suspension between acquire and set(True)')
            else:
                c.fail(ae, 'await between semaphore.acquire() and holds_global_lock.set(True)', 'the lock is held while the flag says otherwise across a suspension', node=an_.ast, witness=c.path(an_, p2))
    ax = c.unit(SVC, 'ReentrantLock.__aexit__')
    gx = c.cfg(ax)
    rel = [n for n in gx.live_nodes() if any(call_name(x) == 'release' for x in q.node_calls(n))]
    sets_false = [n for n in gx.live_nodes() if any(call_name(x) == 'set' and U(x.func.value) == 'holds_global_lock' and x.args and isinstance(x.args[0], ast.Constant) and x.args[0].value is False for x in q.node_calls(n))]
    c.floor(len(rel), 1, 'semaphore release in __aexit__')
    if any(q.node_has_await(n) for n in gx.live_nodes()):
        c.fail(ax, '__aexit__ suspends', 'lock release is not atomic with clearing the ownership flag')
    self_ = ax.params()[0]
    depth_atom = eq_atom(f'{self_}._depth', '0')
    facts = Facts(lambda a: a in ('holds_global_lock.get()', depth_atom), cg=c.cg, unit=ax, taskvars=TASKVARS)
    for rn in rel:
        sid = {n.id for n in sets_false}
        p = search([(gx.entry, ())], is_target=lambda n, d: n is rn, is_barrier=lambda n, d: n.id in sid)
        after = None
        if p is not None and sets_false:
            # __aexit__ does not suspend (checked above): clearing the flag right after the release is the same atomic step as clearing it right before
            after = search([(rn, ())], is_target=lambda n, d: n.kind == 'exit', is_barrier=lambda n, d: n.id in sid, edge_ok=lambda n, e, d: None if e.is_exc else d)
        if p is None and sets_false:
            c.ok(where(ax, rn.ast), 'release() only after holds_global_lock.set(False)')
        elif sets_false and after is None and not any(q.node_has_await(n) for n in gx.live_nodes()):
            c.ok(where(ax, rn.ast), 'release() is followed by holds_global_lock.set(False) on every path, without a suspension in between')
        else:
            c.fail(ax, 'semaphore.release() reachable without holds_global_lock.set(False) first', 'the lock is released while this context still believes it holds it', node=rn.ast)
        for sf in sets_false:
            p3 = q.guard_search(gx, sf, f'holds_global_lock.get() and {self_}._depth == 0', facts)
            if p3 is None:
                c.ok(where(ax, sf.ast), 'flag cleared / lock released only by the owner at depth 0')
            else:
                c.fail(ax, 'release path not guarded by holds_global_lock.get() and _depth == 0', 'the lock can be released by a context that does not own it, or while still re-entered', node=sf.ast, witness=c.path(gx.entry, p3))


LIB_WAITERS = {'get', 'join', 'wait', 'sleep'}


# loop.call_later(delay, callback, *args) & co.: the callback runs later, in a copy of the context of whoever scheduled it
SCHEDULERS = ('call_later', 'call_soon', 'call_at', 'call_soon_threadsafe', 'add_done_callback', 'run_in_executor')


def task_sites(c: Ctx) -> list[tuple[Unit, ast.Call]]:
    out = []
    for u in c.prog.units.values():
        if u.module not in (SVC, MOD):
            continue
        for n in own_nodes_with_lambdas(u.node):
            if isinstance(n, ast.Call) and call_name(n) in ('create_task', 'ensure_future', 'gather', 'run_coroutine_threadsafe', 'TaskGroup', 'start_soon') + SCHEDULERS:
                out.append((u, n))
    return sorted(out, key=lambda x: (x[0].module, x[1].lineno))


@ob('C06.3', 'CTX', 'every task-creation site is classified: the long-lived run-loop task must not inherit lock ownership (explicit context= or a reset of '
    'holds_global_lock before its first await); handler tasks inherit and are cancelled-and-awaited before execute_handler exits; handler-executor tasks exist only '
    'on parallel buses; monitor / queue.get / join / wait tasks never dispatch or process events')
def c06_3(c: Ctx) -> None:
    sites = task_sites(c)
    c.floor(len(sites), 5, 'task-creation sites in service.py/models.py')
    rl = c.unit(SVC, 'EventBus._run_loop')
    eh = c.unit(SVC, 'EventBus.execute_handler')
    pe_like = {c.unit(SVC, n).key for n in ('EventBus.process_event', 'EventBus.dispatch', 'EventBus.step', 'EventBus.execute_handler', 'EventBus._execute_handlers')}
    inv = {id(call) for _, call in handler_invocations(c)}
    from .c01 import HANDLER_WRAPPERS, exec_handler_sites

    exec_handler_sites(c)  # discovers nested wrappers of execute_handler (coroutines that await it exactly once on every path)
    handler_wrappers = HANDLER_WRAPPERS.get(id(c.prog), {})
    for u, call in sites:
        if call_name(call) == 'gather':
            payloads = [a for a in call.args if not isinstance(a, ast.Starred)]  # *tasks: already classified where they were created
            if not payloads:
                c.ok(where(u, call), 'gather(*tasks) awaits tasks classified at their creation sites')
                continue
        elif call_name(call) in SCHEDULERS:
            # the scheduled callback: first callable argument (after the delay / executor)
            pos = 1 if call_name(call) in ('call_later', 'call_at', 'run_in_executor') else 0
            cb = call.args[pos] if len(call.args) > pos else None
            target = None
            if isinstance(cb, ast.Name):
                target = next((v for v in c.prog.nested(u) if v.name == cb.id), None) or c.prog.resolve_name_callee(cb.id, u)
            elif isinstance(cb, ast.Attribute):
                ty = c.prog.infer(cb.value, u)
                if ty is not None and ty.kind == 'cls':
                    target = c.prog.method(ty.name, cb.attr)
            if q.kw(call, 'context') is not None and isinstance(q.kw(call, 'context'), ast.Call) and U(q.kw(call, 'context').func).split('.')[-1] == 'Context':
                c.ok(where(u, call), f'{call_name(call)}(...) with a fresh Context(): inherits nothing')
                continue
            if isinstance(target, Unit):
                reach = c.cg.reach([target])
                hit = sorted(k[1] for k in reach if k in pe_like)
                if hit:
                    c.fail(u, f'{call_name(call)}({U(cb)[:40]}) schedules code that reaches {hit}', f'a callback scheduled with {call_name(call)} runs in a copy of the scheduling context: scheduled from inside a handler it keeps '
                           f'holds_global_lock / inside_handler_context / the current event of a handler that has long finished, and then dispatches or processes events ({hit}) under that identity', node=call)
                else:
                    c.ok(where(u, call), f'{call_name(call)}({U(cb)[:40]}) schedules code that never dispatches or processes events', reach=len(reach))
            elif isinstance(cb, ast.Lambda) or cb is None:
                inner = [x for x in ast.walk(cb)] if cb is not None else []
                if any(isinstance(x, ast.Call) and call_name(x) in ('dispatch', 'process_event', 'step') for x in inner):
                    c.fail(u, f'{call_name(call)}(<lambda that dispatches / processes events>)', 'a scheduled callback inheriting a handler context dispatches or processes events', node=call)
                else:
                    c.ok(where(u, call), f'{call_name(call)}({U(cb)[:40] if cb is not None else ""}): no bus code')
            else:
                c.ok(where(u, call), f'{call_name(call)}({U(cb)[:40]}): library callback (future / loop method), runs no bus code')
            continue
        elif call_name(call) == 'TaskGroup' and not call.args:
            c.ok(where(u, call), 'TaskGroup(): its tasks are classified at their create_task sites')
            continue
        else:
            payloads = call.args[:1]
        if not payloads or not all(isinstance(p, ast.Call) for p in payloads):
            c.fail(u, f'task created from a non-call payload: {U(call)[:80]}', 'a task-creation site the analysis cannot classify', node=call)
            continue
        for pl in payloads:
            r = c.an.fm.resolve_call(pl, u)
            if isinstance(r, Unit) and r.key == rl.key:
                check_runloop_task(c, u, call, rl)
            elif id(pl) in inv or r == 'opaque':
                check_handler_task(c, u, call, pl)
            elif isinstance(r, Unit) and (r.key == eh.key or r.name in handler_wrappers):
                g = c.cfg(u)
                facts = Facts(lambda a: a == f'{u.params()[0]}.parallel_handlers', cg=c.cg, unit=u)
                st = q.stmt_of(call)
                bad = [p for n in g.nodes_of(st) if (p := q.guard_search(g, n, f'{u.params()[0]}.parallel_handlers', facts)) is not None]
                has_ctx = q.kw(call, 'context') is not None
                if not bad:
                    c.ok(where(u, call), 'handler-executor tasks only under self.parallel_handlers' + (' (explicit context=)' if has_ctx else ''))
                elif call_name(call) == 'create_task' and serial_task_discipline(c, u, g, call, [s_ for _u, s_ in sites if _u.key == u.key and isinstance(s_, ast.Call) and call_name(s_) == 'create_task'
                                                                                                 and s_.args and isinstance(s_.args[0], ast.Call) and isinstance(c.an.fm.resolve_call(s_.args[0], u), Unit)
                                                                                                 and (c.an.fm.resolve_call(s_.args[0], u).key == eh.key or c.an.fm.resolve_call(s_.args[0], u).name in handler_wrappers)],
                                                                              f'{u.params()[0]}.parallel_handlers') is None:
                    c.ok(where(u, call), 'without parallel_handlers each handler-executor task is awaited to completion before the next one is created (one at a time)')
                else:
                    c.fail(u, f'execute_handler task created without parallel_handlers guard', 'handlers overlap on a bus that did not ask for parallel handlers', node=call, witness=c.path(g.entry, bad[0]))
            elif isinstance(r, Unit):
                reach = c.cg.reach([r])
                hit = sorted(k[1] for k in reach if k in pe_like)
                if hit:
                    c.fail(u, f'task {U(pl)[:60]} can reach {hit}', f'a background task inheriting lock ownership can process/dispatch events ({hit}) outside the lock discipline', node=call)
                else:
                    c.ok(where(u, call), f'task `{U(pl)[:50]}` never dispatches or processes events', reach=len(reach))
            elif call_name(pl) in LIB_WAITERS and isinstance(pl.func, ast.Attribute):
                c.ok(where(u, call), f'task `{U(pl)[:50]}` is a library waiter (queue/event), runs no bus code')
            else:
                c.fail(u, f'unclassified task payload {U(pl)[:70]}', 'a task-creation site whose payload the analysis cannot classify (may inherit lock ownership)', node=call)


def runloop_context_preparers(c: Ctx) -> set:
    """Functions whose only use is `<ctx>.run(f)` on a copied context that is then handed to the run-loop task (`create_task(self._run_loop(), context=<ctx>)`): they run
    in the context the run loop starts in, before it starts.  Writing constants (False / None) to the handler context variables there is the same as resetting them at the start of
    the run loop.  Returns the unit keys."""
    rl = c.unit(SVC, 'EventBus._run_loop')
    out = set()
    for u, call in c.cg.callers(rl):
        par = parent(call)
        if not (isinstance(par, ast.Call) and call_name(par) == 'create_task'):
            continue
        ctx = q.kw(par, 'context')
        if not isinstance(ctx, ast.Name):
            continue
        defs = [n for n in own_nodes(u.node) if isinstance(n, ast.Assign) and U(n.targets[0]) == ctx.id]
        if not defs or not all(isinstance(d.value, ast.Call) and U(d.value.func) in ('contextvars.copy_context', 'copy_context') for d in defs):
            continue
        for r in [n for n in own_nodes(u.node) if isinstance(n, ast.Call) and call_name(n) == 'run' and isinstance(n.func, ast.Attribute) and U(n.func.value) == ctx.id and len(n.args) == 1 and isinstance(n.args[0], ast.Name)]:
            fn = c.prog.resolve_name_callee(r.args[0].id, u)
            if fn is None:
                continue
            # referenced nowhere else
            refs = [x for uu in c.prog.units.values() for x in own_nodes(uu.node) if isinstance(x, ast.Name) and x.id == fn.node.name and isinstance(x.ctx, ast.Load)]
            if all(x is r.args[0] for x in refs):
                out.add(fn.key)
    return out


def _resets_lock_flag(c: Ctx, fn: Unit) -> bool:
    return any(isinstance(x, ast.Call) and call_name(x) == 'set' and isinstance(x.func, ast.Attribute) and U(x.func.value) == 'holds_global_lock' and x.args
               and isinstance(x.args[0], ast.Constant) and x.args[0].value is False for x in own_nodes(fn.node))


def check_runloop_task(c: Ctx, u: Unit, call: ast.Call, rl: Unit) -> None:
    """The run-loop task must start without lock ownership: a fresh Context(), a prepared copy in which holds_global_lock was
    reset, or a reset at the start of the run loop before its first await / step."""
    ctx = q.kw(call, 'context')
    if ctx is not None:
        if isinstance(ctx, ast.Call) and U(ctx.func) in ('contextvars.Context', 'Context') and not ctx.args:
            c.ok(where(u, call), 'run-loop task created in a fresh, empty Context()')
            return
        if isinstance(ctx, ast.Name):
            defs = [n for n in own_nodes(u.node) if isinstance(n, ast.Assign) and U(n.targets[0]) == ctx.id]
            runs = [n for n in own_nodes(u.node) if isinstance(n, ast.Call) and call_name(n) == 'run' and isinstance(n.func, ast.Attribute) and U(n.func.value) == ctx.id and n.args and n.lineno < call.lineno]
            if defs and all(isinstance(d.value, ast.Call) and U(d.value.func) in ('contextvars.Context', 'Context') for d in defs):
                c.ok(where(u, call), 'run-loop task created in a fresh, empty Context()')
                return
            for r in runs:
                fn = c.prog.resolve_name_callee(U(r.args[0]), u) if isinstance(r.args[0], ast.Name) else None
                if fn is not None and _resets_lock_flag(c, fn):
                    c.ok(where(u, call), f'run-loop task created in a copied context prepared by {fn.name}(), which resets holds_global_lock')
                    return
        # an explicit context that still carries the creator's lock flag: fall through to the reset-in-run-loop check
    g = c.cfg(rl)
    resets = [n for n in g.live_nodes() if any(call_name(x) == 'set' and U(x.func.value) == 'holds_global_lock' and x.args and isinstance(x.args[0], ast.Constant) and x.args[0].value is False for x in q.node_calls(n))]
    from sa.cfg import search

    rid = {n.id for n in resets}
    p = search([(g.entry, ())], is_target=lambda n, d: q.node_has_await(n) or any(call_name(x) in ('step', 'process_event') for x in q.node_calls(n)), is_barrier=lambda n, d: n.id in rid)
    if p is None and resets:
        c.ok(where(u, call), 'run-loop task inherits the creator context but resets holds_global_lock before its first await')
    else:
        how = f'explicit context={U(ctx)[:40]} in which holds_global_lock is not reset' if ctx is not None else 'inherits the creator context'
        c.fail(u, f'run-loop task can start with lock ownership ({how}): {U(call)[:70]}', 'a bus first used inside a handler inherits "I hold the lock" and is exempt from the global lock for life: its handlers overlap other buses\'', node=call,
               witness=c.path(g.entry, p) if p else [])


def check_handler_task(c: Ctx, u: Unit, call: ast.Call, pl: ast.Call) -> None:
    g = c.cfg(u)
    st = q.stmt_of(call)
    if not (isinstance(st, ast.Assign) and isinstance(st.targets[0], ast.Name)):
        c.fail(u, f'handler task not bound: {q.stmt_text(st, 80)}', 'a handler task that nobody cancels or awaits can outlive lock ownership', node=call)
        return
    t = st.targets[0].id

    def is_cleanup(n) -> bool:
        if n.kind != 'if':
            return False
        test = n.ast.test
        conj = {U(x) for x in (test.values if isinstance(test, ast.BoolOp) and isinstance(test.op, ast.And) else [test])}
        # cancel whenever the task exists and is not done: no other condition may suppress the cancellation
        if f'not {t}.done()' not in conj or not conj <= {t, f'{t} is not None', f'not {t}.done()'}:
            return False
        return any(isinstance(x, ast.Call) and call_name(x) == 'cancel' and U(x.func.value) == t for b in n.ast.body for x in ast.walk(b))

    bad = None
    for n in g.nodes_of(st):
        p = q.pair_search(g, n, is_cleanup)
        if p is not None:
            bad = (n, p)
    if bad is None:
        c.ok(where(u, call), f'handler task `{t}` is cancelled-if-not-done on every exit of {u.name} (cannot outlive lock ownership)')
    else:
        c.fail(u, f'handler task {t} not cancelled on some exit', 'a handler task can keep running after execute_handler returned, overlapping the next event', node=call, witness=c.path(bad[0], bad[1]))
    # the task is *joined*: awaited by a construct that only returns/raises once the task has finished
    # (`await task`, `await asyncio.wait_for(task, ..)` — wait_for cancels the task on timeout and waits for that to complete;
    #  `asyncio.wait({task}, timeout=..)` merely stops waiting and is not a join)
    def is_join(a: ast.Await) -> bool:
        v = a.value
        if isinstance(v, ast.Name) and v.id == t:
            return True
        return isinstance(v, ast.Call) and U(v.func) in ('asyncio.wait_for', 'wait_for', 'asyncio.shield') and bool(v.args) and U(v.args[0]) == t

    aw = [n for n in own_nodes(u.node) if isinstance(n, ast.Await) and t in {x.id for x in ast.walk(n.value) if isinstance(x, ast.Name)}]
    fin_awaits = [n for n in aw if any(isinstance(a, ast.Try) and q.lexically_in(n, a, 'finalbody') for a in q.ancestors_of(n))]
    main_awaits = [n for n in aw if n not in fin_awaits]
    for grp, what in ((main_awaits, 'the await on the handler task'), (fin_awaits, 'the cleanup await after cancel()')):
        if not grp:
            c.fail(u, f'{what} is missing', 'the handler task is never waited for: it keeps running after execute_handler returned, overlapping the next event', node=call)
        for n in grp:
            if is_join(n):
                c.ok(where(u, n), f'{what} joins the task: `{U(n)[:70]}`')
            else:
                c.fail(u, f'{what} does not join the task: {U(n)[:70]}', 'execute_handler can return while the (cancelled / timed-out) handler coroutine is still running: the lock is released and the next event\'s handler overlaps it', node=n)


@ob('C06.4', 'DOM', 'handlers of one event run as concurrent tasks only under self.parallel_handlers (a task that is awaited to completion before the next one is created is not concurrent)')
def c06_4(c: Ctx) -> None:
    u, sites = exec_handler_sites(c)
    g = c.cfg(u)
    n_task = 0
    for call in sites:
        if isinstance(parent(call), ast.Await):
            continue
        n_task += 1
        facts = Facts(lambda a: a == f'{u.params()[0]}.parallel_handlers', cg=c.cg, unit=u)
        st = q.stmt_of(call)
        spawns = [parent(x) for x in sites if isinstance(parent(x), ast.Call) and call_name(parent(x)) == 'create_task']
        for n in g.nodes_of(st):
            p = q.guard_search(g, n, f'{u.params()[0]}.parallel_handlers', facts)
            if p is None:
                c.ok(where(u, call), 'concurrent handler execution only when self.parallel_handlers')
            elif isinstance(parent(call), ast.Call) and call_name(parent(call)) == 'create_task' and serial_task_discipline(c, u, g, parent(call), spawns, f'{u.params()[0]}.parallel_handlers') is None:
                c.ok(where(u, call), 'without parallel_handlers each handler task is awaited to completion before the next one is created: no two handlers of the event overlap')
            else:
                c.fail(u, 'concurrent handler execution without parallel_handlers guard', 'handlers of one event overlap on a bus created with parallel_handlers=False', node=call, witness=c.path(g.entry, p))
    if n_task == 0:
        c.ok(where(u), 'no concurrent handler execution path at all')



@ob('C06.5', 'ESC', 'on a parallel_handlers bus every handler task is awaited to completion before _execute_handlers returns — also when a sibling handler raised — so the '
    'processing lock is never released while a handler of the event is still running (same construct as C01.4 / C11.1)')
def c06_5(c: Ctx) -> None:
    from .c01 import check_handler_site

    u, sites = exec_handler_sites(c)
    g = c.cfg(u)
    n = 0
    for call in sites:
        if isinstance(parent(call), ast.Await):
            continue
        n += 1
        check_handler_site(c, u, g, call)
    if n == 0:
        c.ok(where(u), 'no concurrent handler execution path at all')


@ob('C06.6', 'PAIR', 'whoever gives the global lock away in the middle of a hold (releases its semaphore anywhere but in __aexit__) has it back on every exit, including a cancellation that '
    'arrives while it is waiting to get it back: otherwise the enclosing `async with` releases a lock it no longer holds, under another bus\'s running handler')
def c06_6(c: Ctx) -> None:
    from sa.cfg import search

    n_sites = 0
    for u in c.prog.units.values():
        if u.module not in (SVC, MOD) or (u.cls == 'ReentrantLock' and u.name == '__aexit__'):
            continue
        g = None
        for call in [x for x in own_nodes(u.node) if isinstance(x, ast.Call) and call_name(x) == 'release' and isinstance(x.func, ast.Attribute)]:
            recv = call.func.value
            t = c.prog.infer(recv, u)
            is_sem = (t is not None and 'Semaphore' in str(t)) or 'semaphore' in U(recv).lower()
            if not is_sem or u.cls != 'ReentrantLock' and '_get_global_lock' not in U(recv) and 'global' not in U(recv).lower():
                continue
            n_sites += 1
            g = g or c.cfg(u)
            acq = {n.id for n in g.live_nodes() if any(call_name(x) == 'acquire' and U(x.func.value) == U(recv) for x in q.node_calls(n) if isinstance(x.func, ast.Attribute))}
            bad = None
            for rn in g.nodes_of(q.stmt_of(call)):
                # a path from the release to an exit on which no acquire() *completed* (leaving the acquire statement by an exception - cancellation - is not having the lock)
                bad = bad or search([(e.dst, ()) for e in rn.succ if not e.is_exc], is_target=lambda n, d: n.kind in ('exit', 'raise_exit'),
                                    edge_ok=lambda n, e, d: None if (n.id in acq and not e.is_exc) else d)
            if bad is None and acq:
                c.ok(where(u, call), f'{u.qualname}: after `{U(call)}` every exit has passed a completed `{U(recv)}.acquire()`')
            else:
                how = next((s_.via for s_ in (bad or []) if s_.via.startswith('raises')), 'normal path')
                c.fail(u, f'{U(call)} in {u.qualname} is not followed by a completed acquire() on an exit via {how}', 'the lock is given away in the middle of a hold and not taken back on every exit (a cancellation '
                       'while waiting to re-acquire leaves without it): the enclosing `async with` then releases a lock this context does not hold, and two buses\' handlers run at once', node=call,
                       witness=c.path(g.nodes_of(q.stmt_of(call))[0], bad) if bad else [])
    if n_sites == 0:
        c.ok('bubus/service.py', 'the global lock\'s semaphore is released in ReentrantLock.__aexit__ only (never lent out in the middle of a hold)')


@ob('C06.7', 'COHERENCE', 'a memo that decides whether an event needs the lock is kept coherent with the handler registry (same obligation as C01.13): a stale "nobody listens" runs an event without the lock although a handler, registered in the meantime, does run for it')
def c06_7(c: Ctx) -> None:
    from .c01 import check_memo_coherence

    check_memo_coherence(c)


@ob('C06.8', 'TYPESTATE', 'the re-entrance counter of the global lock counts the holds: +1 on every re-entrant __aenter__, set to 1 (or +1) by the acquiring __aenter__, -1 on every '
    'owning __aexit__, and written nowhere else — a counter that forgets an outer hold lets the first inner exit release the lock while the outer holder is still inside')
def c06_8(c: Ctx) -> None:
    check_depth_counter(c)


def check_depth_counter(c: Ctx) -> None:
    from sa.loops import lin

    ae, ax = c.unit(SVC, 'ReentrantLock.__aenter__'), c.unit(SVC, 'ReentrantLock.__aexit__')
    init = c.unit(SVC, 'ReentrantLock.__init__')
    ws = [w for w in c.cg.all_writes('_depth') if w.unit.cls == 'ReentrantLock' or (w.base is not None and c.prog.infer(w.base, w.unit) == 'ReentrantLock')]
    c.floor(len(ws), 4, 'writes of ReentrantLock._depth')

    def delta(w) -> tuple[str, int] | None:
        """('set', k) for `_depth = k`, ('add', k) for `_depth += k` / `_depth = _depth + k`."""
        n = w.node
        if isinstance(n, ast.AnnAssign) and n.value is not None:
            n = ast.Assign(targets=[n.target], value=n.value)
        tgt = U(n.target) if isinstance(n, ast.AugAssign) else (U(n.targets[0]) if isinstance(n, ast.Assign) and len(n.targets) == 1 else None)
        if tgt is None:
            return None
        if isinstance(n, ast.AugAssign):
            l = lin(n.value, {})
            if l is not None and set(l) <= {1} and isinstance(n.op, (ast.Add, ast.Sub)):
                k = l.get(1, 0)
                return ('add', k if isinstance(n.op, ast.Add) else -k)
            return None
        l = lin(n.value, {})
        if l is None:
            return None
        if set(l) <= {1}:
            return ('set', l.get(1, 0))
        if set(l) <= {1, tgt} and l.get(tgt) == 1:
            return ('add', l.get(1, 0))
        return None

    for w in ws:
        d = delta(w)
        u = w.unit
        if u.key == init.key:
            if d == ('set', 0):
                c.ok(where(u, w.node), 'a new lock starts at depth 0')
            else:
                c.fail(u, f'initial depth: {U(w.node)}', 'the counter does not start at 0: the first exit does not release the lock (or releases it twice)', node=w.node)
            continue
        if u.key not in (ae.key, ax.key):
            c.fail(u, f'writes the re-entrance counter: {U(w.node)[:60]}', f'the re-entrance counter of the global lock is changed outside __aenter__/__aexit__ (in {u.qualname})', node=w.node)
            continue
        g = c.cfg(u)
        facts = Facts(lambda a: a == 'holds_global_lock.get()', cg=c.cg, unit=u, taskvars=TASKVARS)
        nodes = g.nodes_of(q.stmt_of(w.node))
        owner = all(q.guard_search(g, n, 'holds_global_lock.get()', facts) is None for n in nodes)
        stranger = all(q.guard_search(g, n, 'not holds_global_lock.get()', facts) is None for n in nodes)
        if u.key == ae.key:
            if owner and d == ('add', 1):
                c.ok(where(u, w.node), 're-entrant __aenter__ (flag already true): depth + 1')
            elif owner:
                c.fail(u, f're-entrant __aenter__ writes the counter as {U(w.node)}', 'a re-entrant hold is not counted on top of the holds already there: the first inner exit brings the counter to 0 and releases the lock while the '
                       'outer holder is still inside — another bus starts processing in the middle of it', node=w.node)
            elif d in (('set', 1), ('add', 1)):
                c.ok(where(u, w.node), 'acquiring __aenter__: depth becomes 1')
            else:
                c.fail(u, f'acquiring __aenter__ writes the counter as {U(w.node)}', 'the first hold is not counted as one: its exit does not release the lock (or a re-entered hold releases it early)', node=w.node)
        else:
            if d == ('add', -1) and (owner or not stranger):
                c.ok(where(u, w.node), 'owning __aexit__: depth - 1')
            else:
                c.fail(u, f'__aexit__ writes the counter as {U(w.node)}', 'an exit does not give back exactly the one hold it ends: the lock is released early or never', node=w.node)
    # every normal return of __aenter__ has counted its hold; every owning __aexit__ has given one back
    from sa.cfg import search

    for u, what in ((ae, 'enter'), (ax, 'exit')):
        g = c.cfg(u)
        wn = {n.id for w in ws if w.unit.key == u.key for n in g.nodes_of(q.stmt_of(w.node))}
        facts = Facts(lambda a: a == 'holds_global_lock.get()', cg=c.cg, unit=u, taskvars=TASKVARS)
        env0 = {} if what == 'enter' else {'holds_global_lock.get()': 'T'}
        p = q.reach_search(g, [(g.entry, dict(env0))], lambda n, d: n.kind == 'exit', lambda n, d: n.id in wn, facts, lambda e: False)
        if p is None:
            c.ok(where(u), f'every normal return of __a{what}__' + (' counts its hold' if what == 'enter' else ' by an owner gives one hold back'))
        else:
            c.fail(u, f'__a{what}__ returns without touching the counter', 'a hold is entered (or ended) without being counted: the counter and the number of holders disagree, and the lock is released while one of them is still inside',
                   witness=c.path(g.entry, p))


OBLIGATIONS = ob.obs
