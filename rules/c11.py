"""C11 — handler errors are isolated: structural necessary conditions."""

from __future__ import annotations

import ast

from .common import *  # noqa: F401,F403
from .common import SVC, MOD, AnalysisError, Ctx, Facts, Registry, U, Unit, call_name, handler_type_names, own_nodes, parent, q, where
from .c01 import check_handler_loop, exec_handler_sites, own_nodes_list
from .c03 import c03_2
from .c10 import handler_task_var

ob = Registry()


@ob('C11.1', 'ESC', 'every Exception-class error that execute_handler can raise is caught by the per-handler try in both branches of _execute_handlers, whose handler '
    'bodies continue the loop; no Exception-class error of handler origin escapes _execute_handlers into process_event')
def c11_1(c: Ctx) -> None:
    u, sites = exec_handler_sites(c)
    c.floor(len(sites), 2, 'execute_handler call sites')
    g = c.cfg(u)
    eh = c.unit(SVC, 'EventBus.execute_handler')
    H = c.an.fm.h
    esc = sorted(str(t) for t in c.an.escapes(eh) if H.is_sub(t.name, 'Exception') or (not t.exact and H.is_sub('Exception', t.name)))
    c.note(f'Exception-class escape set of execute_handler: {esc}')
    from .c01 import check_handler_site

    for call in sites:
        check_handler_site(c, u, g, call)
    pe = c.unit(SVC, 'EventBus.process_event')
    gp = c.cfg(pe)
    for n in gp.live_nodes():
        if q.node_calls(n, '_execute_handlers'):
            bad = [e for e in n.succ if e.is_exc and (H.is_sub(e.exc.name, 'Exception') or (not e.exc.exact and H.is_sub('Exception', e.exc.name)))]
            if not bad:
                c.ok(where(pe, n.ast), 'no Exception-class error reaches process_event from _execute_handlers')
            for e in bad:
                c.fail(pe, f'{e.exc} escapes _execute_handlers into process_event', 'a handler error propagates into the run loop: the event is not completed and later handlers are skipped', node=n.ast)


@ob('C11.2', 'FLOW', 'in the `except Exception as e` arm of execute_handler the recorded error is the caught exception object itself, and the arm re-raises it')
def c11_2(c: Ctx) -> None:
    from .c10 import typed_arm_entries, typed_search

    u = c.unit(SVC, 'EventBus.execute_handler')
    g = c.cfg(u)
    H = c.an.fm.h
    # an ordinary exception of the handler: the open-ended Exception type raised by the opaque handler call
    entries = typed_arm_entries(c, u, lambda t: t.name == 'Exception' and not t.exact)
    c.floor(len(entries), 1, 'ways an ordinary handler exception enters an except arm of execute_handler')

    def is_upd(n):
        return any(call_name(x) == 'event_result_update' and q.kw(x, 'error') is not None for x in q.node_calls(n))

    for arm, en, env0, facts in entries:
        env0 = dict(env0)
        # "ordinary": neither a timeout nor a cancellation (those have entries of their own)
        for x in ast.walk(arm):
            if isinstance(x, ast.Call) and isinstance(x.func, ast.Name) and x.func.id == 'isinstance' and len(x.args) == 2 and arm.name and U(x.args[0]) == arm.name and U(x) not in env0:
                kinds = [H.canon(U(k)) for k in (x.args[1].elts if isinstance(x.args[1], ast.Tuple) else [x.args[1]])]
                if all(k in ('TimeoutError', 'CancelledError') for k in kinds):
                    env0[U(x)] = 'F'
        inside = {id(x) for b in arm.body for x in ast.walk(b)}
        # the recorded error is the caught object (directly, or through a local that copies it)
        copies = {arm.name} | {(n.targets[0].id if isinstance(n, ast.Assign) else n.target.id) for n in own_nodes(u.node)
                               if isinstance(n, (ast.Assign, ast.AnnAssign)) and n.value is not None and isinstance(n.value, ast.Name) and n.value.id == arm.name
                               and isinstance((n.targets[0] if isinstance(n, ast.Assign) else n.target), ast.Name)}
        copies |= {(n.targets[0].id if isinstance(n, ast.Assign) else n.target.id) for n in own_nodes(u.node)
                   if isinstance(n, (ast.Assign, ast.AnnAssign)) and n.value is not None and isinstance(n.value, ast.Name) and n.value.id in copies
                   and isinstance((n.targets[0] if isinstance(n, ast.Assign) else n.target), ast.Name)}
        ups = []
        for n in g.live_nodes():
            if n.ast is not None and id(n.ast) in inside and is_upd(n) and typed_search(g, en, env0, lambda m, d, n=n: m is n, lambda m, d: False, facts) is not None:
                ups += [x for x in q.node_calls(n) if call_name(x) == 'event_result_update' and q.kw(x, 'error') is not None]
        if ups and arm.name and all(U(q.kw(x, 'error')) in copies for x in ups):
            c.ok(where(u, arm), f'records error={U(q.kw(ups[0], "error"))} (the caught exception object)')
        else:
            c.fail(u, f'an ordinary handler exception is recorded as {[U(q.kw(x, "error"))[:40] for x in ups] or "no error"}', 'the recorded error is not the original exception object', node=arm)
        # the error is recorded on every path through the arm: nothing that may raise precedes the update
        p = typed_search(g, en, env0, lambda n, d: n.ast is None or id(n.ast) not in inside, lambda n, d: is_upd(n), facts)
        if p is None:
            c.ok(where(u, arm), f'[{en.exc}] the error result is recorded before anything in the arm can raise')
        else:
            how = next((s_.via for s_ in p if s_.via.startswith('raises')), 'normal path')
            c.fail(u, f'the arm can be left before the error is recorded ({how} at `{p[max(0, len(p) - 2)].node.text(60)}`)', "the handler's exception is never captured as its error result: the result stays 'started' and the event never completes", node=arm, witness=c.path(en, p))
        # ... and the caught exception itself propagates to _execute_handlers: no normal way out of the arm
        norm = typed_search(g, en, env0, lambda n, d: (n.ast is None or id(n.ast) not in inside) and n.kind not in ('raise_exit', 'reraise', 'except'), lambda n, d: False, facts, exc_ok=lambda e: False)
        if norm is None:
            c.ok(where(u, arm), 'an ordinary handler exception leaves the arm only by being raised')
        else:
            c.fail(u, 'the arm can complete normally after an ordinary handler exception', 'a handler error is not propagated to _execute_handlers as itself', node=arm, witness=c.path(en, norm))
        typed = [n for n in g.live_nodes() if n.kind == 'raise' and n.ast is not None and id(n.ast) in inside and n.ast.exc is not None and not (isinstance(n.ast.exc, ast.Name) and n.ast.exc.id in copies)
                 and typed_search(g, en, env0, lambda m, d, n=n: m is n, lambda m, d: False, facts) is not None]
        if not typed:
            c.ok(where(u, arm), 'what is raised is the caught exception object (bare `raise` / `raise e`)')
        for n in typed:
            c.fail(u, f'an ordinary handler exception is re-raised as `{q.stmt_text(n.ast, 60)}`', 'a handler error is not propagated to _execute_handlers as itself', node=n.ast)


@ob('C11.3', 'SHAPE/ESC', 'awaiting an event raises no handler error (same obligation as C03.2)')
def c11_3(c: Ctx) -> None:
    c03_2(c)


@ob('C11.4', 'DOM/FLOW', 'in event_results_filtered the only raise of a handler error is `raise <original error object>` under `raise_if_any and <error results>`; the '
    'raised object is result.error (or the result when it is an exception), never a wrapper')
def c11_4(c: Ctx) -> None:
    u = c.unit(MOD, 'BaseEvent.event_results_filtered')
    g = c.cfg(u)
    raises = [n for n in g.live_nodes() if n.kind == 'raise']
    c.floor(len(raises), 2, 'raise statements in event_results_filtered')
    err_defs = {}
    for n in own_nodes(u.node):
        if isinstance(n, ast.Assign) and isinstance(n.targets[0], ast.Name):
            err_defs.setdefault(n.targets[0].id, []).append(n.value)
    n_orig = 0
    for rn in raises:
        e = rn.ast.exc
        if isinstance(e, ast.Name) and e.id in err_defs:
            n_orig += 1
            vals = err_defs[e.id]
            good = all(isinstance(v, ast.BoolOp) and isinstance(v.op, ast.Or) and isinstance(v.values[0], ast.Attribute) and v.values[0].attr == 'error' for v in vals)
            if good:
                c.ok(where(u, rn.ast), f'raises `{e.id}` = {U(vals[0])[:60]} (the recorded exception object)')
            else:
                c.fail(u, f'raised object {e.id} = {U(vals[0])[:60]}', 'the accessor raises something other than the recorded exception object', node=rn.ast)
            # guard: raise_if_any and <error dict>
            guard_if = None
            for a in q.ancestors_of(rn.ast):
                if isinstance(a, ast.If) and 'raise_if_any' in U(a.test):
                    guard_if = a
            if guard_if is None:
                c.fail(u, f'`raise {e.id}` not under a raise_if_any test', 'a handler error is raised although raise_if_any is false', node=rn.ast)
                continue
            names = sorted({x.id for x in ast.walk(guard_if.test) if isinstance(x, ast.Name)})
            facts = Facts(lambda a: a in names, cg=c.cg, unit=u)
            p = q.guard_search(g, rn, U(guard_if.test), facts) if isinstance(guard_if.test, ast.BoolOp) and isinstance(guard_if.test.op, ast.And) else None
            flag_ok = isinstance(guard_if.test, ast.BoolOp) and isinstance(guard_if.test.op, ast.And) and any(U(v) == 'raise_if_any' for v in guard_if.test.values)
            if p is None and flag_ok:
                c.ok(where(u, rn.ast), f'raised only under `{U(guard_if.test)}`')
            else:
                c.fail(u, f'`raise {e.id}` not dominated by `raise_if_any and <errors>`: guard is `{U(guard_if.test)[:60]}`', 'a handler error is raised although raise_if_any is false (or not raised although it is true)', node=rn.ast, witness=c.path(g.entry, p) if p else [])
        elif isinstance(e, ast.Call) and U(e.func) in ('ValueError',):
            c.ok(where(u, rn.ast), 'raise ValueError(...) is the raise_if_none arm (C12.4)')
        elif isinstance(e, ast.Call) and U(e.func) == 'Exception' and err_defs:
            # fallback wrapper: allowed only where the error value is known not to be an exception object
            en = sorted(err_defs)[0]
            atoms = {f'isinstance({x}, BaseException)' for x in err_defs}
            f3 = Facts(lambda a: a in atoms, cg=c.cg, unit=u)
            okf = any(q.guard_search(g, rn, f'not isinstance({x}, BaseException)', f3) is None for x in err_defs)
            if okf:
                c.ok(where(u, rn.ast), 'fallback wrapper only for non-exception error values (reached only when isinstance(error, BaseException) is false)')
            else:
                c.fail(u, f'wrapper raised where the error may be an exception object: {q.stmt_text(rn.ast, 70)}', 'the accessor raises a wrapper instead of the original handler error', node=rn.ast)
        else:
            c.fail(u, f'unexpected raise: {q.stmt_text(rn.ast, 80)}', 'the accessor raises something other than the original handler error / the raise_if_none ValueError', node=rn.ast)
    if n_orig == 0:
        c.fail(u, 'no `raise <original error>`', 'raise_if_any=True no longer raises the recorded handler error')
    # error_results must be every result with an error (or exception result)
    er = [n for n in own_nodes(q.comp_view(u.node)) if isinstance(n, (ast.Assign, ast.AnnAssign)) and isinstance((n.targets[0] if isinstance(n, ast.Assign) else n.target), ast.Name)
          and (n.targets[0] if isinstance(n, ast.Assign) else n.target).id == 'error_results']
    for n in er:
        v = n.value
        if isinstance(v, ast.DictComp) and len(v.generators) == 1 and len(v.generators[0].ifs) == 1 and '.error' in U(v.generators[0].ifs[0]):
            c.ok(where(u, n), f'error set = results with `{U(v.generators[0].ifs[0])[:70]}`')
        else:
            c.fail(u, f'error_results = {U(v)[:70]}', 'the set of error results is not "every result that has an error"', node=n)
    # awaiting each result must not leak handler errors
    for lp in [n for n in own_nodes(u.node) if isinstance(n, ast.For) and any(isinstance(x, ast.Await) for x in ast.walk(n))]:
        tries = [t for t in ast.walk(lp) if isinstance(t, ast.Try)]
        caught = tries and all(any(h.type is not None and U(h.type) in ('Exception', 'BaseException') and not any(isinstance(x, ast.Raise) for x in ast.walk(h)) for h in t.handlers) for t in tries)
        if caught:
            c.ok(where(u, lp), 'errors surfacing while awaiting individual results are swallowed (decided by raise_if_any below)')
        else:
            c.fail(u, 'awaiting individual results can raise handler errors', 'a handler error propagates from the accessor regardless of raise_if_any', node=lp)


@ob('C11.5', 'DOM', 'EventResult.update converts an exception object returned as a result into an error result before the result arm runs')
def c11_5(c: Ctx) -> None:
    u = c.unit(MOD, 'EventResult.update')
    g = c.cfg(u)
    kw_ = u.node.args.kwarg.arg if u.node.args.kwarg else 'kwargs'

    def is_result_value(e: ast.AST | None) -> bool:
        # kwargs['result'] / kwargs.get('result') / a local bound once to one of them (None when absent: not an exception either way)
        e = q.deref(u, e)
        if isinstance(e, ast.Subscript):
            return U(e.value) == kw_ and isinstance(e.slice, ast.Constant) and e.slice.value == 'result'
        if isinstance(e, ast.Call) and call_name(e) == 'get' and isinstance(e.func, ast.Attribute) and U(e.func.value) == kw_:
            return bool(e.args) and isinstance(e.args[0], ast.Constant) and e.args[0].value == 'result' and (len(e.args) == 1 or (isinstance(e.args[1], ast.Constant) and e.args[1].value is None))
        return False

    def is_conv_test(t: ast.AST) -> bool:
        return any(isinstance(x, ast.Call) and call_name(x) == 'isinstance' and len(x.args) == 2 and 'BaseException' in U(x.args[1]) and is_result_value(x.args[0]) for x in ast.walk(t))

    conv = [n for n in g.live_nodes() if n.kind == 'if' and is_conv_test(n.ast.test)]
    arms = [n for n in g.live_nodes() if n.kind == 'if' and U(n.ast.test).replace('"', "'") == "'result' in kwargs"]
    if not conv:
        c.fail(u, 'no conversion of exception-valued results', 'a handler that returns an exception object gets a completed result holding the exception')
        return
    if not any(g.nodes_of(b) for b in conv[0].ast.body):
        c.fail(u, 'the exception-result conversion is dead code', 'a handler that returns an exception object gets a completed result holding the exception', node=conv[0].ast)
        return
    c.floor(len(arms), 1, "`if 'result' in kwargs` arm")
    from sa.cfg import search

    cid = {n.id for n in conv}
    for a in arms:
        p = search([(g.entry, ())], is_target=lambda n, d: n is a, is_barrier=lambda n, d: n.id in cid)
        if p is None:
            c.ok(where(u, a.ast), 'the result arm is reached only after the exception-result conversion test')
        else:
            c.fail(u, 'result arm reachable before the exception-result conversion', 'an exception returned by a handler is stored as a completed result', node=a.ast, witness=c.path(g.entry, p))
    body = conv[0].ast.body
    sets = {U(s.targets[0]).replace('"', "'"): ("kwargs['result']" if is_result_value(s.value) else U(s.value).replace('"', "'")) for s in body if isinstance(s, ast.Assign)}
    want = {"kwargs['error']": "kwargs['result']", "kwargs['status']": "'error'", "kwargs['result']": 'None'}
    order = [U(s.targets[0]).replace('"', "'") for s in body if isinstance(s, ast.Assign)]
    if all(sets.get(k) == v for k, v in want.items()) and order.index("kwargs['error']") < order.index("kwargs['result']"):
        c.ok(where(u, conv[0].ast), 'conversion: error <- result, status <- error, result <- None (in that order)')
    else:
        c.fail(u, f'conversion body is {sets}', 'the exception-result conversion does not produce (error=exc, status=error, result=None)', node=conv[0].ast)


@ob('C11.6', 'ESC', 'an `except CancelledError` arm that guards the await on a task created in the same function and re-raises must first discriminate the origin of the '
    'cancellation (handler task ended cancelled by itself vs. the caller being cancelled); otherwise a handler-originated CancelledError is taken by '
    '_execute_handlers / _run_loop for their own cancellation')
def c11_6(c: Ctx) -> None:
    u = c.unit(SVC, 'EventBus.execute_handler')
    t, _ = handler_task_var(c, u)
    if t is None:
        c.ok(where(u), 'no handler task: the question of whose cancellation it is does not arise in this form')
        return
    arms = []
    for n in own_nodes(u.node):
        if isinstance(n, ast.ExceptHandler) and n.type is not None and 'CancelledError' in U(n.type):
            tr = parent(n)
            if isinstance(tr, ast.Try) and any(isinstance(x, ast.Await) and t in U(x.value) for b in tr.body for x in ast.walk(b)) and not any(isinstance(x, ast.Try) and q.lexically_in(n, x, 'finalbody') for x in q.ancestors_of(n)):
                arms.append(n)
    if not arms:
        c.ok(where(u), 'no `except CancelledError` arm around the handler-task await')
        return
    for arm in arms:
        reraises = any(isinstance(x, ast.Raise) for b in arm.body for x in ast.walk(b))
        discriminates = any(isinstance(x, ast.Call) and call_name(x) in ('cancelled', 'cancelling', 'done', 'uncancel', 'current_task') for b in arm.body for x in ast.walk(b))
        if not reraises:
            c.ok(where(u, arm), 'CancelledError arm does not propagate')
        elif discriminates:
            c.ok(where(u, arm), 'CancelledError arm inspects the task state before re-raising')
        else:
            c.fail(u, 'except CancelledError arm re-raises without discriminating handler-task origin', 'a handler whose awaited sub-task was cancelled makes execute_handler raise CancelledError; _execute_handlers does not contain it and _run_loop treats it as its own cancellation: the bus stops processing, later handlers and events never run',
                   node=arm, witness=[f'{where(u, arm)}: except {U(arm.type)} ... raise', f'awaited task `{t}` is created in this function; its own cancellation is indistinguishable from the caller being cancelled'])


@ob('C11.7', 'DOM', 'a recorded handler error is final: a handler whose result ended in `error` is never run again for the same event (a second forwarding route, a re-dispatch), so the '
    'captured error cannot be overwritten by a later success (same obligation as C01.5: the already-handled filter and the already-started guard cover the `error` status)')
def c11_7(c: Ctx) -> None:
    from .c01 import c01_5

    c01_5(c)


@ob('C11.8', 'DOM', 'a handler error stays with its handler: only a handler *timeout* cancels the pending results of the child events it was waiting on; an ordinary exception (or an interruption '
    'from above) leaves them alone (same obligation as C10.2) — otherwise an unrelated failure of one handler turns handlers of in-flight child events into errors and they never run')
def c11_8(c: Ctx) -> None:
    from .c10 import c10_2

    c10_2(c)


@ob('C11.9', 'ESC', 'nothing in execute_handler dereferences a local that can be None without a None test on the way (the helper tasks are bound to None where they are not '
    'created): an AttributeError raised inside an except arm or in finally takes the place of the error that was about to be recorded — the result stays "started" and the '
    'event never completes')
def c11_9(c: Ctx) -> None:
    u = c.unit(SVC, 'EventBus.execute_handler')
    g = c.cfg(u)
    maybe_none = set()
    for n in own_nodes(u.node):
        if isinstance(n, (ast.Assign, ast.AnnAssign)) and n.value is not None and isinstance(n.value, ast.Constant) and n.value.value is None:
            for t in (n.targets if isinstance(n, ast.Assign) else [n.target]):
                if isinstance(t, ast.Name):
                    maybe_none.add(t.id)
    if not maybe_none:
        c.ok(where(u), 'no local of execute_handler is ever bound to None')
        return
    facts = Facts(lambda a: a in maybe_none, rhs_value=lambda v: 'NN' if isinstance(v, ast.Call) and call_name(v) in ('create_task', 'ensure_future') else None, cg=c.cg, unit=u)
    n_sites = 0
    for n in g.live_nodes():
        if n.ast is None or n.kind not in ('stmt', 'return', 'if', 'while'):
            continue
        exprs = q.node_exprs(n)
        for x in [y for e_ in exprs for y in ast.walk(e_)]:
            if isinstance(x, ast.Attribute) and isinstance(x.value, ast.Name) and x.value.id in maybe_none and isinstance(x.ctx, ast.Load):
                # `X is not None and X.attr` / `X and X.attr` inside one test is guarded by the short circuit
                par = parent(x)
                guarded_inline = False
                while par is not None and not isinstance(par, ast.stmt):
                    if isinstance(par, ast.BoolOp) and isinstance(par.op, ast.And):
                        idx = next((i for i, v in enumerate(par.values) if any(z is x for z in ast.walk(v))), 0)
                        if any(U(v) in (x.value.id, f'{x.value.id} is not None') for v in par.values[:idx]):
                            guarded_inline = True
                    par = parent(par)
                if guarded_inline:
                    continue
                n_sites += 1
                p = q.guard_search(g, n, f'{x.value.id} is not None', facts)
                if p is None:
                    c.ok(where(u, n.ast), f'`{U(x)}` only where {x.value.id} is known not to be None')
                else:
                    c.fail(u, f'`{U(x)[:50]}` reachable with {x.value.id} possibly None', f'{x.value.id} can be None here: the AttributeError replaces whatever was being handled (in an except arm: the handler\'s '
                           'error is never recorded, its result stays "started", the event never completes)', node=n.ast, witness=c.path(g.entry, p))
    if n_sites == 0:
        c.ok(where(u), f'{sorted(maybe_none)} are never dereferenced')


OBLIGATIONS = ob.obs
