"""C17 — write-ahead log has one faithful line per processed event: structural necessary conditions."""

from __future__ import annotations

import ast

from .common import *  # noqa: F401,F403
from .common import SVC, MOD, AnalysisError, Ctx, Facts, Registry, U, Unit, call_name, own_nodes, parent, q, where

ob = Registry()

WAL = '_default_wal_handler'


@ob('C17.1', 'ORD/TYPESTATE', 'every processed event gets exactly one WAL call, after its handlers ran: process_event calls the WAL handler exactly once on every normal path after '
    '_execute_handlers returned — or, when a boolean parameter (default: write) lets a caller take the write over, writes none then and every caller that switches it off awaits the WAL '
    'handler for that event itself on every normal path after the call')
def c17_1(c: Ctx) -> None:
    u = c.unit(SVC, 'EventBus.process_event')
    g = c.cfg(u)
    ev = u.params()[1]
    wal = [n for n in g.live_nodes() if q.node_calls(n, WAL)]
    eh = [n for n in g.live_nodes() if q.node_calls(n, '_execute_handlers')]
    if not wal:
        c.fail(u, 'process_event never calls the WAL handler', 'processed events are not logged')
        return
    for n in wal:
        call = q.node_calls(n, WAL)[0]
        if call.args and U(call.args[0]) == ev and q.node_has_await(n):
            c.ok(where(u, n.ast), f'awaits {WAL}({ev})')
        else:
            c.fail(u, f'WAL call is {U(call)[:60]}', 'the WAL line is not written (not awaited) or is written for another event', node=n.ast)
    from sa.cfg import search

    def transfer(n, d):
        if n in wal:
            d['#wal'] = '2+' if d.get('#wal') == '1' else '1'
        return d

    # the write may be delegated to the caller through a boolean parameter (`write_wal=False`: "I will write the line myself"): process_event is then judged per value of
    # that parameter, and every call site that switches the write off must perform it itself afterwards
    flagp = None
    for n in wal:
        gi = q.enclosing(n.ast, (ast.If,))
        if gi is not None and isinstance(gi.test, ast.Name) and gi.test.id in u.params() and q.lexically_in(n.ast, gi, 'body'):
            flagp = gi.test.id
    fl = Facts(lambda a: a == flagp, cg=c.cg, unit=u) if flagp else None

    def ek(n, e, d):
        if e.is_exc:
            return None
        return fl.edge_ok(n, e, d) if fl is not None else d

    def tr(n, d):
        d = fl.transfer(n, d) if fl is not None else d
        return transfer(n, d)

    env_on = {flagp: 'T'} if flagp else {}
    p = search([(g.entry, tuple(sorted(env_on.items())))], is_target=lambda n, d: n.kind == 'exit' and d.get('#wal') != '1', transfer=tr, edge_ok=ek)
    if p is None and flagp:
        # with the flag off: no line here, and every caller that passes it off writes the line itself on every normal path after the call
        p_off = search([(g.entry, ((flagp, 'F'),))], is_target=lambda n, d: n.kind == 'exit' and d.get('#wal') is not None, transfer=tr, edge_ok=ek)
        if p_off is not None:
            c.fail(u, f'a WAL line is written although {flagp} is false', 'the event gets two WAL lines (one here, one from the caller that asked to write it itself)', witness=c.path(g.entry, p_off))
        dflt = {a.arg: d_ for a, d_ in zip(u.node.args.args[-len(u.node.args.defaults):], u.node.args.defaults)}.get(flagp) if u.node.args.defaults else None
        if not (isinstance(dflt, ast.Constant) and dflt.value is True):
            c.fail(u, f'{flagp} does not default to True', 'callers that do not know about the switch write no WAL line')
        for cu, ccall in c.cg.callers(u):
            kv = q.kw(ccall, flagp)
            if kv is None or (isinstance(kv, ast.Constant) and kv.value is True):
                continue
            gg = c.cfg(cu)
            ev_arg = U(ccall.args[0]) if ccall.args else ''
            ok_all = True
            for cn in gg.nodes_of(q.stmt_of(ccall)):
                pp = q.pair_search(gg, cn, lambda x: any(x_.args and U(x_.args[0]) == ev_arg for x_ in q.node_calls(x, WAL)) and q.node_has_await(x), exc_ok=lambda e: False)
                if pp is not None:
                    ok_all = False
                    c.fail(cu, f'{cu.name} passes {flagp}={U(kv)} and does not write the line itself on some path', 'a processed event gets 0 WAL lines instead of exactly one', node=ccall, witness=c.path(cn, pp))
            if ok_all:
                c.ok(where(cu, ccall), f'{cu.name} passes {flagp}={U(kv)} and awaits {WAL}({ev_arg}) itself on every normal path afterwards')
    if p is None:
        c.ok(where(u), 'every normal path through process_event writes exactly one WAL line' + (f' (with {flagp} true)' if flagp else ''))
    else:
        cnt = dict(p[-1].env).get('#wal', '0')
        c.fail(u, f'normal path with {cnt} WAL calls', f'a processed event gets {cnt} WAL lines instead of exactly one', witness=c.path(g.entry, p))
    eid = {n.id for n in eh}
    for n in wal:
        p = search([(g.entry, ())], is_target=lambda x, d: x is n, is_barrier=lambda x, d: x.id in eid)
        if p is None and eh:
            c.ok(where(u, n.ast), 'the WAL line is written only after the handlers ran')
        else:
            c.fail(u, 'WAL call reachable before _execute_handlers', 'the WAL line is written before the event\'s handlers finished', node=n.ast, witness=c.path(g.entry, p) if p else [])


@ob('C17.2', 'SHAPE', "the WAL handler opens self.wal_path in append mode and performs exactly one write of event.model_dump_json() (compact, no indent) + '\\n'")
def c17_2(c: Ctx) -> None:
    u = c.unit(SVC, f'EventBus.{WAL}')
    self_, ev = u.params()[0], u.params()[1]
    opens = [n for n in own_nodes(u.node) if isinstance(n, ast.Call) and call_name(n) in ('open_file', 'open') and n.args and U(n.args[0]) == f'{self_}.wal_path']
    if len(opens) != 1:
        c.fail(u, f'{len(opens)} opens of self.wal_path', 'the WAL file is not opened exactly once per event')
    for o in opens:
        mode = q.kw(o, 'mode') or (o.args[1] if len(o.args) > 1 else None)
        if isinstance(mode, ast.Constant) and mode.value in ('a', 'at', 'a+'):
            c.ok(where(u, o), f'WAL opened in append mode {mode.value!r}')
        else:
            c.fail(u, f'WAL opened with mode {U(mode) if mode is not None else "default (r)"}', 'earlier WAL lines are truncated/overwritten', node=o)
    writes = [n for n in own_nodes(u.node) if isinstance(n, ast.Call) and call_name(n) in ('write', 'writelines')]
    if len(writes) != 1 or q.enclosing(writes[0], (ast.For, ast.While, ast.AsyncFor)) is not None:
        c.fail(u, f'{len(writes)} write calls (or a write in a loop)', 'an event does not produce exactly one WAL line')
        return
    w = writes[0]
    arg = q.deref(u, w.args[0]) if w.args else None  # the line may be put together in a local first
    dumps = {}
    for n in own_nodes(u.node):
        if isinstance(n, ast.Assign) and isinstance(n.targets[0], ast.Name) and isinstance(n.value, ast.Call) and call_name(n.value) == 'model_dump_json':
            dumps[n.targets[0].id] = n.value
        elif isinstance(n, ast.AnnAssign) and isinstance(n.target, ast.Name) and isinstance(n.value, ast.Call) and call_name(n.value) == 'model_dump_json':
            dumps[n.target.id] = n.value
    ok = isinstance(arg, ast.BinOp) and isinstance(arg.op, ast.Add) and isinstance(arg.right, ast.Constant) and arg.right.value == '\n'
    dump_call = None
    if ok:
        left = arg.left
        dump_call = dumps.get(left.id) if isinstance(left, ast.Name) else (left if isinstance(left, ast.Call) and call_name(left) == 'model_dump_json' else None)
        ok = dump_call is not None
    if not ok and isinstance(arg, ast.JoinedStr):
        parts = arg.values
        if len(parts) == 2 and isinstance(parts[1], ast.Constant) and parts[1].value == '\n' and isinstance(parts[0], ast.FormattedValue):
            v = parts[0].value
            dump_call = dumps.get(v.id) if isinstance(v, ast.Name) else (v if isinstance(v, ast.Call) and call_name(v) == 'model_dump_json' else None)
            ok = dump_call is not None
    if ok:
        c.ok(where(u, w), "writes <json> + '\\n' (one line per event)")
    else:
        c.fail(u, f'write argument is {U(arg)[:70] if arg is not None else "?"}', 'the WAL entry is not exactly the event JSON followed by a newline', node=w)
        return
    if U(dump_call.func.value) == ev and not dump_call.args and not [k for k in dump_call.keywords if k.arg in ('indent', 'include', 'exclude', 'exclude_none', 'exclude_unset', 'exclude_defaults', 'by_alias')]:
        c.ok(where(u, dump_call), f'{ev}.model_dump_json() with default options (compact, complete)')
    else:
        c.fail(u, f'JSON produced by {U(dump_call)[:70]}', 'the WAL line is not a self-contained single-line dump of the processed event', node=dump_call)
    if q.node_has_await is not None and not isinstance(parent(w), ast.Await) and call_name(opens[0]) == 'open_file' if opens else False:
        c.fail(u, 'async file write is not awaited', 'the WAL line is never written', node=w)


@ob('C17.3', 'ESC', 'no Exception-class error escapes the WAL handler (a failing write is logged, never affects event processing)')
def c17_3(c: Ctx) -> None:
    u = c.unit(SVC, f'EventBus.{WAL}')
    H = c.an.fm.h
    esc = [t for t in c.an.escapes(u) if H.is_sub(t.name, 'Exception') or (not t.exact and H.is_sub('Exception', t.name))]
    g = c.cfg(u)
    risky = [n for n in g.live_nodes() if any(e.is_exc for e in n.succ) and n.kind in ('stmt', 'with', 'withexit')]
    if not esc:
        c.ok(where(u), f'all I/O and serialisation errors are contained ({len(risky)} raising statements, none escapes)', raising_statements=len(risky))
    for t in esc:
        src = next((n for n in g.live_nodes() for e in n.succ if e.is_exc and e.exc == t and e.dst.kind == 'raise_exit'), None)
        c.fail(u, f'{t} escapes the WAL handler' + (f' from `{src.text(60)}`' if src is not None else ''), 'a failing WAL write propagates into process_event: the event is never marked complete and the run loop logs an error', node=src.ast if src is not None else None)
    # errors are reported
    arms = [n for n in own_nodes(u.node) if isinstance(n, ast.ExceptHandler)]
    if arms and all(any(isinstance(x, ast.Call) and U(x.func).startswith('logger.') for b in a.body for x in ast.walk(b)) for a in arms):
        c.ok(where(u, arms[0]), 'a failing write is reported through the logger')
        # ... at a level the library's own default configuration lets through
        order = {'debug': 10, 'info': 20, 'warning': 30, 'warn': 30, 'error': 40, 'exception': 40, 'critical': 50, 'fatal': 50}
        default = None
        for mod in (SVC, MOD):
            mi = c.prog.module(mod)
            for x in ast.walk(mi.tree):
                if isinstance(x, ast.Call) and call_name(x) == 'setLevel' and isinstance(x.func, ast.Attribute) and U(x.func.value) == 'logger' and x.args:
                    lv = x.args[0]
                    if isinstance(lv, ast.Name):
                        d = c.prog.module(MOD).globals_assign.get(lv.id) or mi.globals_assign.get(lv.id)
                        for y in ast.walk(d) if d is not None else []:
                            if isinstance(y, ast.Call) and call_name(y) == 'getenv' and len(y.args) >= 2 and isinstance(y.args[1], ast.Constant):
                                default = str(y.args[1].value).lower()
                    elif isinstance(lv, ast.Attribute):
                        default = lv.attr.lower()
                    elif isinstance(lv, ast.Constant):
                        default = str(lv.value).lower()
        if default is not None and default in order:
            for a in arms:
                levels = [x.func.attr for b in a.body for x in ast.walk(b) if isinstance(x, ast.Call) and isinstance(x.func, ast.Attribute) and U(x.func.value) == 'logger' and x.func.attr in order]
                if levels and max(order[l] for l in levels) >= order[default]:
                    c.ok(where(u, a), f'reported with logger.{max(levels, key=lambda l: order[l])}, which the default level {default.upper()} lets through')
                elif levels:
                    c.fail(u, f'WAL failure reported with logger.{levels[0]} while the library sets its logger to {default.upper()} by default', 'with the default configuration the report of a failing WAL write is '
                           'filtered out by the logger level: the write fails silently', node=a)
    else:
        c.fail(u, 'WAL failure is not logged', 'a failing WAL write is silently ignored')


@ob('C17.4', 'SHAPE', "of BaseEvent's declared fields only event_results is excluded from serialisation; the completion signal is a private attribute; extra fields are allowed "
    '(so id, type, parent, path and payload are all in the dump)')
def c17_4(c: Ctx) -> None:
    ci = c.prog.cls('BaseEvent')
    excluded = []
    fields = []
    for st in ci.node.body:
        if isinstance(st, ast.AnnAssign) and isinstance(st.target, ast.Name) and not U(st.annotation).startswith('ClassVar'):
            nm = st.target.id
            v = st.value
            if isinstance(v, ast.Call) and call_name(v) == 'PrivateAttr':
                continue
            if nm.startswith('_'):
                continue
            fields.append(nm)
            if isinstance(v, ast.Call) and call_name(v) == 'Field':
                ex = q.kw(v, 'exclude')
                if ex is not None and not (isinstance(ex, ast.Constant) and ex.value in (False, None)):
                    excluded.append(nm)
    c.floor(len(fields), 8, 'declared BaseEvent fields')
    if excluded == ['event_results']:
        c.ok(f'{ci.module}:{ci.node.lineno} BaseEvent', f'{len(fields)} declared fields; only event_results is excluded from dumps')
    else:
        c.fail('bubus/models.py BaseEvent', f'excluded fields: {excluded}', f'fields {sorted(set(excluded) - {"event_results"}) or "event_results (no longer excluded)"} change what a WAL line contains: it no longer validates back into the same event')
    for need in ('event_id', 'event_type', 'event_parent_id', 'event_path'):
        if need not in fields:
            c.fail('bubus/models.py BaseEvent', f'field {need} is not a declared (serialised) field', f'{need} is missing from WAL lines')
    sig = [st for st in ci.node.body if isinstance(st, ast.AnnAssign) and isinstance(st.target, ast.Name) and st.target.id == '_event_completed_signal']
    if sig and isinstance(sig[0].value, ast.Call) and call_name(sig[0].value) == 'PrivateAttr':
        c.ok(f'{ci.module}:{sig[0].lineno} BaseEvent', 'completion signal is a PrivateAttr (never serialised)')
    else:
        c.fail('bubus/models.py BaseEvent', '_event_completed_signal is not a PrivateAttr', 'the asyncio.Event would be part of the model: serialisation fails or leaks')
    cfgs = [st for st in ci.node.body if isinstance(st, ast.Assign) and U(st.targets[0]) == 'model_config' and isinstance(st.value, ast.Call)]
    extra = q.kw(cfgs[0].value, 'extra') if cfgs else None
    if isinstance(extra, ast.Constant) and extra.value == 'allow':
        c.ok(f'{ci.module}:{cfgs[0].lineno} BaseEvent', "model_config extra='allow' (payload fields survive a round trip through the base class)")
    else:
        c.fail('bubus/models.py BaseEvent', f'model_config extra={U(extra) if extra is not None else "default"}', 'payload fields are dropped/rejected when a WAL line is validated back')
    if cfgs:
        kws = {k.arg: k.value for k in cfgs[0].value.keywords if k.arg}
        for k, v in kws.items():
            if k.startswith('ser_json_'):
                twin = 'val_json_' + k[len('ser_json_'):]
                if twin not in kws or U(kws[twin]) != U(v):
                    c.fail('bubus/models.py BaseEvent', f'model_config {k}={U(v)} without {twin}={U(v)}', f'the JSON written to the WAL encodes some payload values ({k}) in a form that validation does not decode back: a line validates into a different payload')
            elif k in ('json_encoders', 'use_enum_values', 'ser_json_inf_nan', 'populate_by_name', 'alias_generator', 'coerce_numbers_to_str', 'str_strip_whitespace', 'str_to_lower', 'str_to_upper', 'hide_input_in_errors'):
                if k in ('json_encoders', 'alias_generator', 'coerce_numbers_to_str', 'str_strip_whitespace', 'str_to_lower', 'str_to_upper'):
                    c.fail('bubus/models.py BaseEvent', f'model_config {k}={U(v)[:40]}', f'{k} changes how payload values are written / read back: WAL lines no longer round-trip to the same payload')
        c.ok(f'{ci.module}:{cfgs[0].lineno} BaseEvent', f'model_config keys {sorted(kws)}: no one-sided serialisation option')
    sers = [m for m in ci.methods.values() if any('field_serializer' in U(d) for d in m.node.decorator_list)]
    ser_fields = sorted({a.value for m in sers for d in m.node.decorator_list if isinstance(d, ast.Call) for a in d.args if isinstance(a, ast.Constant)})
    if set(ser_fields) <= {'event_result_type'}:
        c.ok(f'{ci.module} BaseEvent', f'custom serializers only for {ser_fields}')
    else:
        c.fail('bubus/models.py BaseEvent', f'custom serializers for {ser_fields}', 'a custom serializer changes how id/type/parent/path/payload appear in the WAL')



@ob('C17.5', 'MPT', 'whenever a WAL path is configured, every non-failing path through the WAL handler performs the write: the only condition that may skip it is `not self.wal_path`')
def c17_5(c: Ctx) -> None:
    u = c.unit(SVC, f'EventBus.{WAL}')
    g = c.cfg(u)
    self_ = u.params()[0]
    writes = {n.id for n in g.live_nodes() if any(call_name(x) in ('write', 'writelines') for x in q.node_calls(n))}
    c.floor(len(writes), 1, 'write statement in the WAL handler')
    from sa.cfg import search

    def allowed_skip(n, e) -> bool:
        return n.kind == 'if' and e.label == 'true' and U(n.ast.test) in (f'not {self_}.wal_path', f'{self_}.wal_path is None')

    p = search([(g.entry, ())], is_target=lambda n, d: n.kind == 'exit', is_barrier=lambda n, d: n.id in writes, edge_ok=lambda n, e, d: None if (e.is_exc or allowed_skip(n, e)) else d)
    if p is None:
        c.ok(where(u), 'every non-failing path with a WAL path configured writes the line')
    else:
        cond = next((s_.node.text(80) for s_ in reversed(p) if s_.node.kind == 'if'), 'unconditionally')
        c.fail(u, f'the WAL handler can return without writing although a WAL path is set (`{cond}`)', 'some processed events get no WAL line (e.g. a parent that completes later through its children)', witness=c.path(g.entry, p))


def check_opaque_results_before_completion(c: Ctx) -> None:
    """FM-handler, the part about *values*: what a handler returned is an arbitrary object; its implicit protocol methods (__bool__, __str__, __eq__, __len__)
    may raise (numpy arrays and pandas frames raise on truth tests).  On the stretch of process_event between the handlers and the WAL append / completion mark,
    outside any try that contains the failure, such a value must stay opaque."""
    pe = c.unit(SVC, 'EventBus.process_event')
    g = c.cfg(pe)
    eh_nodes = [n for n in g.live_nodes() if q.node_calls(n, '_execute_handlers')]
    if not eh_nodes:
        raise AnchorError('process_event: no call of _execute_handlers')
    after = {id(n.ast) for n in g.live_nodes() if n.ast is not None and getattr(n.ast, 'lineno', 0) > eh_nodes[0].ast.lineno}
    units = [(pe, [x for x in own_nodes(pe.node) if isinstance(x, ast.stmt) and id(x) in after])]
    for call, r in c.cg.edges.get(pe.key, []):
        if isinstance(r, Unit) and getattr(call, 'lineno', 0) > eh_nodes[0].ast.lineno and r.name.startswith('_default_') and r.module == SVC:
            units.append((r, list(r.node.body)))
    n_checked = 0
    for u, stmts in units:
        ev = u.params()[1] if len(u.params()) > 1 else 'event'
        tainted = {f'{ev}.event_results'}
        loopvars: set[str] = set()
        for st in stmts:
            for x in ast.walk(st):
                if isinstance(x, (ast.For, ast.comprehension)) and 'event_results' in U(x.iter):
                    loopvars |= {t.id for t in ast.walk(x.target) if isinstance(t, ast.Name)}
        for st in stmts:
            protected = any(isinstance(a, ast.Try) and q.lexically_in(st, a, 'body') and any(h.type is None or U(h.type) in ('Exception', 'BaseException') for h in a.handlers) for a in q.ancestors_of(st))
            for x in ast.walk(st):
                opaque_use = None
                if isinstance(x, ast.FormattedValue) or (isinstance(x, ast.Call) and isinstance(x.func, ast.Name) and x.func.id in ('str', 'repr', 'bool', 'len', 'format', 'sorted', 'min', 'max')):
                    inner = x.value if isinstance(x, ast.FormattedValue) else (x.args[0] if x.args else None)
                    if inner is not None:
                        names = {t.id for t in ast.walk(inner) if isinstance(t, ast.Name)}
                        if (names & loopvars) or '.result' in U(inner) + ' ' or 'event_results.values()' in U(inner) or U(inner).endswith('event_results'):
                            opaque_use = x
                if opaque_use is not None:
                    n_checked += 1
                    if protected:
                        c.ok(where(u, opaque_use), f'`{U(opaque_use)[:50]}` formats handler-provided values inside a try that contains any failure')
                    else:
                        c.fail(u, f'`{U(opaque_use)[:60]}` applies str()/bool()/format to handler-provided values before the event is logged to the WAL and marked complete',
                               'a handler may return any object; one whose __bool__ / __str__ raises (a numpy array, a DataFrame) makes this statement raise: process_event aborts after the handlers finished, the WAL '
                               'line is never written and the event never completes', node=opaque_use)
    if n_checked == 0:
        c.ok(where(pe), f'between the handlers and the completion mark, process_event and its hooks ({", ".join(u.name for u, _ in units[1:]) or "none"}) never format or truth-test handler-provided values')


@ob('C17.6', 'EFFECT', 'between the end of the handlers and the WAL append, handler-provided values stay opaque: process_event and the hooks it awaits there (_default_log_handler, '
    '_default_wal_handler) do not format, truth-test or compare event results outside a try that contains the failure (a returned object may raise from __bool__ / __str__)')
def c17_6(c: Ctx) -> None:
    check_opaque_results_before_completion(c)


@ob('C17.7', 'ESC', 'the WAL line is written only after every handler task of the event has finished, also when a sibling failed or timed out (same obligation as C03.7 / C01.4): otherwise '
    'the line is a snapshot of an event whose handlers are still changing it, and no later line corrects it')
def c17_7(c: Ctx) -> None:
    from .c03 import c03_7

    c03_7(c)


@ob('C17.8', 'WMC', 'the WAL file has one writer and it only appends: apart from the constructor that stores it, `wal_path` is used by _default_wal_handler alone, which opens it in append '
    'mode — nothing in the library reads, rewrites, truncates, rotates or replaces the file (a concurrent rewrite loses the lines appended while it runs)')
def c17_8(c: Ctx) -> None:
    wal = c.unit(SVC, f'EventBus.{WAL}')
    init = c.unit(SVC, 'EventBus.__init__')
    n_uses = 0
    for u in c.prog.units.values():
        if u.module not in (SVC, MOD):
            continue
        uses = [x for x in own_nodes(u.node) if isinstance(x, ast.Attribute) and x.attr == 'wal_path']
        for x in uses:
            n_uses += 1
            if u.key == wal.key:
                continue
            p = parent(x)
            if u.key == init.key and isinstance(x.ctx, ast.Store):
                continue
            # a bare read (truth test, logging, repr) is harmless; calling a method on it / passing it to a function that can touch the file is not
            touches = (isinstance(p, ast.Attribute) and isinstance(parent(p), ast.Call) and parent(p).func is p) or (isinstance(p, ast.Call) and x in p.args) or isinstance(x.ctx, (ast.Store, ast.Del)) \
                or (isinstance(p, ast.Attribute) and p.attr in ('parent',))
            if touches:
                c.fail(u, f'{u.qualname} uses wal_path: {q.stmt_text(q.stmt_of(x), 70)}', f'the WAL file is touched outside the WAL handler (in {u.qualname}): reading and rewriting it, or re-pointing the path, while events '
                       'are being processed loses or misplaces the lines appended meanwhile', node=x)
    opens = [x for x in own_nodes(wal.node) if isinstance(x, ast.Call) and call_name(x) in ('open_file', 'open')]
    c.floor(len(opens), 1, 'open calls in the WAL handler')
    for o in opens:
        mode = q.kw(o, 'mode') or (o.args[1] if len(o.args) > 1 else None)
        if isinstance(mode, ast.Constant) and isinstance(mode.value, str) and mode.value.startswith('a'):
            c.ok(where(wal, o), f'the WAL file is opened in append mode ({mode.value!r})')
        else:
            c.fail(wal, f'WAL opened with mode {U(mode) if mode is not None else "<default: read>"}', 'the WAL is not appended to: earlier lines are overwritten / nothing is written', node=o)
    if n_uses == 0:
        raise AnalysisError('no use of wal_path found')


OBLIGATIONS = ob.obs
