"""C08 — completion is stable: a completed event never changes again: structural necessary conditions."""

from __future__ import annotations

import ast

from .common import *  # noqa: F401,F403
from .common import SVC, MOD, AnalysisError, Ctx, Facts, Registry, U, Unit, call_name, eq_atom, own_nodes, own_nodes_with_lambdas, parent, q, where
from .c03 import MARK

ob = Registry()

RESULT_FIELDS = ('status', 'result', 'error', 'completed_at', 'started_at')


def update_calls(c: Ctx, u: Unit) -> list[ast.Call]:
    return [n for n in own_nodes(u.node) if isinstance(n, ast.Call) and call_name(n) == 'event_result_update']


def kwconst(call: ast.Call, name: str):
    v = q.kw(call, name)
    return v.value if isinstance(v, ast.Constant) else None


def is_terminal_update(call: ast.Call) -> bool:
    if call_name(call) == 'event_result_update':
        return q.kw(call, 'result') is not None or q.kw(call, 'error') is not None or kwconst(call, 'status') in ('completed', 'error')
    if call_name(call) == 'update':
        return q.kw(call, 'result') is not None or q.kw(call, 'error') is not None or kwconst(call, 'status') in ('completed', 'error')
    return False


def _fresh_selection(c: Ctx, u: Unit, g, call: ast.Call, recv: str) -> bool:
    """The update runs in a loop over what `_get_applicable_handlers(<the same event>)` returned, selected in this function with no suspension point before the update."""
    lp = q.enclosing(call, (ast.For,))
    if lp is None:
        return False
    it = lp.iter
    if isinstance(it, ast.Call) and isinstance(it.func, ast.Attribute) and it.func.attr in ('items', 'values', 'keys') and not it.args:
        it = it.func.value
    src = q.deref(u, it)
    if not (isinstance(src, ast.Call) and call_name(src) == '_get_applicable_handlers' and src.args and U(src.args[0]) == recv):
        return False
    h = q.kw(call, 'handler')
    names = {x.id for x in ast.walk(lp.target) if isinstance(x, ast.Name)}
    if not (isinstance(h, ast.Name) and h.id in names):
        return False
    from sa.cfg import search

    sel = [n for n in g.live_nodes() if any(x is src for x in q.node_calls(n))]
    upd = set(g.nodes_of(q.stmt_of(call)))
    if not sel:
        return False
    p = search([(sel[0], ())], is_target=lambda n, d: q.node_has_await(n), is_barrier=lambda n, d: False, edge_ok=lambda n, e, d: None if e.is_exc else d)
    if p is None:
        return True
    # a suspension is reachable from the selection: fine only if no update is reachable from that suspension (the pre-creation loop has ended by then)
    aw = [n for n in g.live_nodes() if q.node_has_await(n)]
    for a in aw:
        if search([(sel[0], ())], is_target=lambda n, d: n is a, is_barrier=lambda n, d: False, edge_ok=lambda n, e, d: None if e.is_exc else d) is None:
            continue
        if search([(a, ())], is_target=lambda n, d: n in upd, is_barrier=lambda n, d: n is sel[0], edge_ok=lambda n, e, d: None if e.is_exc else d) is not None:
            return False
    return True


@ob('C08.1', 'DOM', "a result is (re)written to 'pending' only when the event has no result for that handler yet; pending child results are cancelled only if they are "
    "still 'pending' (never overwrite a started/terminal result)")
def c08_1(c: Ctx) -> None:
    n_pending = 0
    for u in c.prog.units.values():
        if u.module not in (SVC, MOD):
            continue
        for call in update_calls(c, u):
            if kwconst(call, 'status') != 'pending':
                continue
            n_pending += 1
            g = c.cfg(u)
            h = q.kw(call, 'handler')
            recv = U(call.func.value) if isinstance(call.func, ast.Attribute) else ''
            # the membership test on the same event's results
            tests = [n.ast.test for n in g.live_nodes() if n.kind == 'if' and isinstance(n.ast.test, ast.Compare) and isinstance(n.ast.test.ops[0], (ast.In, ast.NotIn))
                     and U(n.ast.test.comparators[0]) == f'{recv}.event_results']
            if not tests and _fresh_selection(c, u, g, call, recv):
                c.ok(where(u, call), "status='pending' written only for handlers that _get_applicable_handlers has just selected for this event: the selection leaves out every handler that "
                     'already has a result (C08.7 / C01.5 evaluate that over the result states), and nothing suspends in between')
                continue
            if not tests:
                c.fail(u, f"status='pending' update without a `not in {recv}.event_results` test", "an existing (started/terminal) result can be reset to 'pending': a completed event regresses", node=call)
                continue
            atom = f'{U(tests[0].left)} in {recv}.event_results'
            facts = Facts(lambda a: a == atom, cg=c.cg, unit=u)
            st = q.stmt_of(call)
            for n in g.nodes_of(st):
                p = q.guard_search(g, n, f'{U(tests[0].left)} not in {recv}.event_results', facts)
                if p is None:
                    c.ok(where(u, call), "status='pending' written only when no result exists for the handler")
                else:
                    c.fail(u, f"status='pending' update not guarded by `not in {recv}.event_results`", "an existing (started/terminal) result can be reset to 'pending': a completed event regresses", node=call, witness=c.path(g.entry, p))
    if n_pending == 0:
        c.ok('bubus/service.py, bubus/models.py', "no status='pending' update anywhere")
    cu = c.unit(MOD, 'BaseEvent.event_cancel_pending_child_processing')
    g = c.cfg(cu)
    ups = [n for n in own_nodes(cu.node) if isinstance(n, ast.Call) and call_name(n) == 'update' and isinstance(n.func, ast.Attribute)]
    c.floor(len(ups), 1, 'result.update(...) in event_cancel_pending_child_processing')
    for call in ups:
        r = U(call.func.value)
        atom = eq_atom(f'{r}.status', "'pending'")
        facts = Facts(lambda a: a == atom, cg=c.cg, unit=cu)
        from .c10 import update_only_on_collected_pending

        if update_only_on_collected_pending(cu, call):
            c.ok(where(cu, call), f"{r}.update(error=…) only for results that were 'pending' when they were collected (nothing suspends in between)")
            continue
        for n in g.nodes_of(q.stmt_of(call)):
            p = q.guard_search(g, n, f"{r}.status == 'pending'", facts)
            if p is None:
                c.ok(where(cu, call), f"{r}.update(error=…) only under {r}.status == 'pending'")
            else:
                c.fail(cu, f"{r}.update(...) not guarded by {r}.status == 'pending'", 'cancelling child processing overwrites results that already started or finished: completed children change', node=call, witness=c.path(g.entry, p))


@ob('C08.2', 'WMW/TYPESTATE', 'EventResult.status/result/error/completed_at/started_at are assigned only inside EventResult.update (completed_at once); per activation of '
    "execute_handler, after the 'started' update every path to any exit (return, handler exception, timeout, cancellation) performs exactly one terminal update; outside "
    'execute_handler a terminal update happens only on a result tested to be pending')
def c08_2(c: Ctx) -> None:
    upd = c.unit(MOD, 'EventResult.update')
    n_w = 0
    for attr in RESULT_FIELDS:
        for w in c.cg.all_writes(attr):
            if w.unit.module not in (SVC, MOD) or w.base is None:
                continue
            t = c.prog.infer(w.base, w.unit)
            if t is not None and not (t.kind == 'cls' and t.name == 'EventResult'):
                continue
            n_w += 1
            if w.unit.key == upd.key:
                continue
            c.fail(w.unit, f'assigns {w.target}: {U(w.node)[:70]}', f'an EventResult field is written outside EventResult.update (in {w.unit.qualname}): results can change after completion without going through the update protocol', node=w.node)
    c.floor(n_w, 5, 'assignments to EventResult fields')
    c.ok(where(upd), f'{n_w} assignments to status/result/error/completed_at/started_at, all inside EventResult.update')
    g = c.cfg(upd)
    self_ = upd.params()[0]
    for attr in ('completed_at', 'started_at'):
        for w in [w for w in c.cg.writes[upd.key] if w.attr == attr and w.how == 'assign']:
            facts = Facts(lambda a: a == f'{self_}.{attr}', cg=c.cg, unit=upd)
            for n in g.nodes_of(q.stmt_of(w.node)):
                p = q.guard_search(g, n, f'not {self_}.{attr}', facts)
                if p is None:
                    c.ok(where(upd, w.node), f'{attr} assigned once (only when unset)')
                else:
                    c.fail(upd, f'{attr} assigned without `not {self_}.{attr}` guard', f'{attr} of a finished result can be overwritten', node=w.node, witness=c.path(g.entry, p))
    # typestate in execute_handler
    eh = c.unit(SVC, 'EventBus.execute_handler')
    ge = c.cfg(eh)
    starts = [n for n in ge.live_nodes() if any(call_name(x) == 'event_result_update' and kwconst(x, 'status') == 'started' for x in q.node_calls(n))]
    c.floor(len(starts), 1, "status='started' update in execute_handler")

    def is_term(n) -> bool:
        return n.kind in ('stmt', 'return') and any(is_terminal_update(x) for x in q.node_calls(n))

    from sa.cfg import search

    for sn in starts:
        def transfer(n, d):
            if is_term(n) and n is not sn:
                d['#terminal'] = '2+' if d.get('#terminal') == '1' else '1'
            return d

        p0 = search([(sn, ())], is_target=lambda n, d: n.kind in ('exit', 'raise_exit') and d.get('#terminal') is None, transfer=transfer,
                    edge_ok=lambda n, e, d: None if (n is sn and e.is_exc) else d)
        if p0 is None:
            c.ok(where(eh, sn.ast), 'no exit of execute_handler without a terminal result update (return / Exception / TimeoutError / CancelledError exits)', exits=len(ge.raise_exits) + 1)
        else:
            last = next((s for s in reversed(p0) if s.via.startswith('raises')), None)
            how = f'{last.via} at `{p0[p0.index(last) - 1].node.text(70)}`' if last is not None and p0.index(last) > 0 else 'normal return'
            c.fail(eh, f"exit with zero terminal updates after status='started' ({how})", "a handler result can stay 'started' forever: the event never completes", node=sn.ast, witness=c.path(sn, p0))
        p2 = search([(sn, ())], is_target=lambda n, d: d.get('#terminal') == '2+', transfer=transfer, edge_ok=lambda n, e, d: None if (n is sn and e.is_exc) else d)
        if p2 is None:
            c.ok(where(eh, sn.ast), 'no path performs two terminal result updates')
        else:
            terms = [s.node for s in p2 if is_term(s.node)]
            c.fail(eh, 'two terminal updates on one path: ' + ' then '.join(f'`{t.text(60)}`' for t in terms[:2]), 'a finished handler result is overwritten by a second terminal update', node=terms[-1].ast if terms else sn.ast, witness=c.path(sn, p2))
    # terminal updates elsewhere
    allowed_pending_guard = c.unit(MOD, 'BaseEvent.event_cancel_pending_child_processing')
    delegator = c.unit(MOD, 'BaseEvent.event_result_update')
    n_sites = 0
    for u in c.prog.units.values():
        if u.module not in (SVC, MOD):
            continue
        for call in [n for n in own_nodes_with_lambdas(u.node) if isinstance(n, ast.Call) and call_name(n) in ('event_result_update', 'update') and isinstance(n.func, ast.Attribute)]:
            if call_name(call) == 'update':
                t = c.prog.infer(call.func.value, u)
                if not (t is not None and t.kind == 'cls' and t.name == 'EventResult'):
                    continue
            n_sites += 1
            if u.key == eh.key:
                continue
            if u.key == delegator.key and any(k.arg is None for k in call.keywords):
                c.ok(where(u, call), 'event_result_update forwards **kwargs to EventResult.update')
                continue
            if not is_terminal_update(call) and kwconst(call, 'status') in ('pending', 'started'):
                c.ok(where(u, call), f"non-terminal update (status={kwconst(call, 'status')!r}) in {u.qualname}")
                continue
            if u.key == allowed_pending_guard.key:
                c.ok(where(u, call), 'terminal update of a result tested to be pending (C08.1)')
                continue
            if call_name(call) == 'update':
                # anywhere else: only on a result record tested to be still pending at that point (it has not started: no handler protocol is running on it)
                recv_ = U(call.func.value)
                atom_ = eq_atom(f'{recv_}.status', "'pending'")
                gq = c.cfg(u)
                fq = Facts(lambda a: a == atom_, cg=c.cg, unit=u)
                nodes_ = gq.nodes_of(q.stmt_of(call))
                if nodes_ and all(q.guard_search(gq, n_, f"{recv_}.status == 'pending'", fq) is None for n_ in nodes_):
                    c.ok(where(u, call), f'terminal update in {u.qualname} only of a result tested to be pending')
                    continue
            c.fail(u, f'terminal result update outside execute_handler: {U(call)[:80]}', f'a handler result is finalised from {u.qualname}, outside the one-terminal-update protocol of execute_handler', node=call)
    c.floor(n_sites, 7, 'result update call sites')
    # the result map and the child lists only grow: entries are created once (get-or-create) and never deleted / replaced
    creator = c.unit(MOD, 'BaseEvent.event_result_update')
    disp = c.unit(SVC, 'EventBus.dispatch')
    n_mut = 0
    for w in c.cg.all_writes('event_results'):
        if w.unit.module not in (SVC, MOD) or w.how.endswith('@item'):
            continue  # `results[k].update(..)` mutates the record (governed above), not the map
        n_mut += 1
        if w.unit.key == creator.key and w.how == 'subscript' and isinstance(w.node, ast.Assign):
            g2 = c.cfg(creator)
            key = U(w.node.targets[0].slice)
            recv = U(w.node.targets[0].value)
            facts = Facts(lambda a: a == f'{key} in {recv}', cg=c.cg, unit=creator)
            bad = [p for n in g2.nodes_of(w.node) if (p := q.guard_search(g2, n, f'{key} not in {recv}', facts)) is not None]
            if not bad:
                c.ok(where(creator, w.node), f'result records are created only when absent ({key} not in {recv})')
            else:
                c.fail(creator, 'result record (re)created without a `not in event_results` guard', 'an existing (possibly finished) result record is replaced', node=w.node, witness=c.path(g2.entry, bad[0]))
        else:
            c.fail(w.unit, f'mutates event_results ({w.how}): {U(w.node)[:70]}', f'result records are removed / replaced in {w.unit.qualname}: results of a (completed) event change, handlers can run again', node=w.node)
    for w in c.cg.all_writes('event_children'):
        if w.unit.module not in (SVC, MOD):
            continue
        n_mut += 1
        if w.unit.key == disp.key and w.how == 'append':
            c.ok(where(disp, w.node), 'child lists only grow (append in dispatch)')
        else:
            c.fail(w.unit, f'mutates event_children ({w.how}): {U(w.node)[:70]}', f'recorded children are removed / rewritten in {w.unit.qualname}: completion of the parent no longer depends on them', node=w.node)
    c.floor(n_mut, 2, 'mutations of event_results / event_children')


def predicate_reads(c: Ctx) -> set[str]:
    root = c.unit(MOD, f'BaseEvent.{MARK}')
    reach = c.cg.reach([root], include_nested=False)
    reads: set[str] = set()
    for u in reach.values():
        for n in own_nodes_with_lambdas(u.node):
            if isinstance(n, ast.Attribute) and isinstance(n.ctx, ast.Load):
                if isinstance(n.value, ast.Name) and n.value.id in ('asyncio', 'datetime', 'logger', 'inspect', 'ast'):
                    continue
                reads.add(n.attr)
    return reads


@ob('C08.3', 'INTERFERENCE', 'every accepting path of dispatch (one that enqueues the event) writes at least one attribute that the completion predicate transitively reads; '
    'otherwise an enqueue is invisible to completion: an event forwarded / re-dispatched to another bus can complete before that bus has processed it')
def c08_3(c: Ctx) -> None:
    d = c.unit(SVC, 'EventBus.dispatch')
    g = c.cfg(d)
    reads = predicate_reads(c)
    c.floor(len(reads), 5, 'attributes read by the completion predicate')
    visible_nodes = {}
    for n in g.live_nodes():
        if n.kind in ('stmt', 'return', 'if', 'for', 'while', 'with') and n.ast is not None:
            hdrs = q.node_exprs(n)
            ws: set[str] = set()
            for h in hdrs:
                ws |= c.cg.stmt_writes(h, d)
            vis = (ws & reads) - {'*'}
            if vis:
                visible_nodes[n.id] = sorted(vis)
    puts = [n for n in g.live_nodes() if q.node_calls(n, 'put_nowait')]
    c.floor(len(puts), 1, 'enqueue in dispatch')
    from sa.cfg import search

    vis_attrs = sorted({a for v in visible_nodes.values() for a in v})
    # a normal path entry -> put_nowait -> return that avoids every completion-visible write
    p1 = search([(g.entry, ())], is_target=lambda n, dd: n.kind == 'exit' and dd.get('#enq') == 'T', is_barrier=lambda n, dd: n.id in visible_nodes,
                edge_ok=lambda n, e, dd: None if e.is_exc else dd, transfer=lambda n, dd: ({**dd, '#enq': 'T'} if n in puts else dd))
    if p1 is None:
        c.ok(where(d), f'every accepting path writes completion-visible state ({vis_attrs})')
    else:
        c.fail(d, f'an accepting path performs no write visible to the completion predicate (visible writes exist only on other paths: {vis_attrs})',
               'a forwarded / re-dispatched event completes before the target bus has processed it; its status then regresses completed -> started -> completed', witness=c.path(g.entry, p1),
               reads=sorted(reads)[:40])



def check_precreated_pending(c: Ctx) -> None:
    """process_event registers a 'pending' result for every applicable handler before the first handler runs."""
    u = c.unit(SVC, 'EventBus.process_event')
    g = c.cfg(u)
    ev = u.params()[1]
    ex = [n for n in g.live_nodes() if q.node_calls(n, '_execute_handlers')]
    c.floor(len(ex), 1, '_execute_handlers call in process_event')
    loops = []
    for n in own_nodes(u.node):
        if isinstance(n, ast.For) and any(isinstance(x, ast.Call) and call_name(x) == 'event_result_update' and kwconst(x, 'status') == 'pending' for x in ast.walk(n)):
            loops.append(n)
    if not loops:
        c.fail(u, "no loop creating status='pending' results for the applicable handlers before _execute_handlers", "between two handlers of one event only finished results exist: any completion check in that window (a background task awaiting another event inline, a child finishing on another bus) marks the event complete; then the next handler starts and the completed event changes")
        return
    from sa.cfg import search

    for lp in loops:
        # the loop must cover exactly the mapping handed to _execute_handlers
        call = q.node_calls(ex[0], '_execute_handlers')[0]
        handed = q.kw(call, 'handlers') or (call.args[1] if len(call.args) > 1 else None)
        src = U(lp.iter).split('.items()')[0].split('.keys()')[0].split('.values()')[0]
        if handed is not None and U(handed) == src and not any(isinstance(x, (ast.Break, ast.Return)) for x in ast.walk(lp)):
            c.ok(where(u, lp), f'pending results are created for every entry of {src}, the mapping handed to _execute_handlers')
        else:
            c.fail(u, f'pending results created for {src}, handlers executed from {U(handed) if handed is not None else "?"}', 'some handlers that will run have no pending result registered first', node=lp)
        heads = {n.id for n in g.nodes_of(lp, ('for',))}
        for en in ex:
            p = search([(g.entry, ())], is_target=lambda n, d: n is en, is_barrier=lambda n, d: n.id in heads)
            if p is None:
                c.ok(where(u, lp), 'the handlers are executed only after the pending results were registered')
            else:
                c.fail(u, '_execute_handlers reachable without passing the pending-result loop', 'handlers start while the event has no pending results for the others: it can be marked complete between two handlers', node=en.ast, witness=c.path(g.entry, p))
        # inside the loop: the only condition that may skip the creation is "a result already exists"
        for upd in [x for x in ast.walk(lp) if isinstance(x, ast.Call) and call_name(x) == 'event_result_update' and kwconst(x, 'status') == 'pending']:
            conds = [a for a in q.ancestors_of(upd) if isinstance(a, ast.If) and q.lexically_in(a, lp)]
            okc = all(isinstance(a.test, ast.Compare) and isinstance(a.test.ops[0], ast.NotIn) and U(a.test.comparators[0]) == f'{ev}.event_results' for a in conds)
            if okc:
                c.ok(where(u, upd), 'creation skipped only for handlers that already have a result')
            else:
                c.fail(u, f'pending-result creation is conditional on {[U(a.test)[:50] for a in conds]}', 'some applicable handlers get no pending result before execution starts', node=upd)


@ob('C08.5', 'ORD', "process_event registers a 'pending' result for every applicable handler before the first handler runs, so the completion predicate sees unfinished work "
    'for as long as any handler of the event has not run')
def c08_5(c: Ctx) -> None:
    check_precreated_pending(c)


@ob('C08.6', 'WMW', 'reading the results of a (completed) event never changes them: the accessor views mutate only containers they created themselves (same check as in C12.3)')
def c08_6(c: Ctx) -> None:
    from .c12 import WRAPPERS, impure_view_writes

    for name in WRAPPERS + ['event_results_filtered']:
        u = c.unit(MOD, f'BaseEvent.{name}')
        bad = impure_view_writes(c, u)
        if not bad:
            c.ok(where(u), f'{name}: mutates only containers it created itself')
        for node_, why_ in bad:
            c.fail(u, f'{name}: {why_}', f'calling {name} mutates a recorded handler result: the results of a completed event change afterwards', node=node_)


@ob('C08.7', 'DOM', 're-dispatching a completed event to the same bus runs no handler again, whatever state its result ended in (completed or error): the already-handled filter and the '
    'already-started guard (same obligation as C01.5); a re-run would change the results of a completed event')
def c08_7(c: Ctx) -> None:
    from .c01 import c01_5

    c01_5(c)


@ob('C08.4', 'WMW/DOM/SHAPE', 'an event is signalled complete only when all its results are terminal and all descendants are complete (same obligation as C03.1): an early signal is '
    'a completion that later changes')
def c08_4(c: Ctx) -> None:
    from .c03 import c03_1

    c03_1(c)


OBLIGATIONS = ob.obs
