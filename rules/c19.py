"""C19 — @retry makes the promised attempts with the promised waits: structural necessary conditions."""

from __future__ import annotations

import ast

from .common import *  # noqa: F401,F403
from .common import HLP, ANY_EXCEPTION, CANCEL, AnalysisError, Ctx, Facts, Registry, U, Unit, call_name, handler_type_names, own_nodes, parent, q, where
from sa.shape import canon, canon_src

ob = Registry()


def parts(c: Ctx):
    u = c.unit(HLP, '_execute_with_retries')
    loops = [n for n in own_nodes(u.node) if isinstance(n, (ast.For, ast.While)) and q.enclosing(n, (ast.For, ast.While)) is None]
    if len(loops) != 1:
        raise AnalysisError(f'_execute_with_retries: expected one attempt loop, found {len(loops)}')
    fparam = u.params()[0]
    calls = [n for n in own_nodes(u.node) if isinstance(n, ast.Call) and isinstance(n.func, ast.Name) and n.func.id == fparam]
    return u, loops[0], fparam, calls


@ob('C19.1', 'SHAPE', 'the attempt loop is `for attempt in range(retries + 1)`, with exactly one call of the wrapped function per iteration, lexically inside '
    '`async with asyncio.timeout(timeout)`')
def c19_1(c: Ctx) -> None:
    u, loop, fparam, calls = parts(c)
    ps = u.params()
    if isinstance(loop, ast.For) and isinstance(loop.target, ast.Name) and isinstance(loop.iter, ast.Call) and U(loop.iter.func) == 'range' and len(loop.iter.args) == 1 \
            and canon(loop.iter.args[0]) == canon_src('retries + 1') and 'retries' in ps:
        c.ok(where(u, loop), f'attempt loop: {q.stmt_text(loop)}')
    else:
        c.fail(u, f'attempt loop is `{q.stmt_text(loop)}`', 'the wrapped function is not attempted at most retries+1 times', node=loop)
    in_loop = [x for x in calls if q.lexically_in(x, loop, 'body')]
    if len(calls) == 1 and len(in_loop) == 1:
        c.ok(where(u, calls[0]), f'one call `{U(calls[0])}` per iteration')
    else:
        c.fail(u, f'{len(in_loop)} calls of the wrapped function in the loop, {len(calls) - len(in_loop)} outside', 'the number of calls is not one per attempt')
    for call in in_loop:
        if [U(a) for a in call.args] == ['*args'] and [U(k.value) for k in call.keywords if k.arg is None] == ['kwargs']:
            c.ok(where(u, call), 'called with the original *args, **kwargs')
        else:
            c.fail(u, f'wrapped function called as {U(call)}', 'the wrapped function does not receive its original arguments', node=call)
        w = q.enclosing(call, (ast.AsyncWith,))
        ok = w is not None and any(isinstance(it.context_expr, ast.Call) and U(it.context_expr.func) == 'asyncio.timeout' and it.context_expr.args and U(it.context_expr.args[0]) == 'timeout' for it in w.items)
        if ok and q.lexically_in(w, loop, 'body'):
            c.ok(where(u, w), 'each attempt runs inside `async with asyncio.timeout(timeout)`')
        else:
            c.fail(u, 'attempt not inside `async with asyncio.timeout(timeout)`', 'attempts are not cut off after `timeout` seconds', node=call)
        if ok:
            # the timeout budget belongs to the attempt alone: nothing else may suspend inside its scope (a backoff wait slept there is charged against the attempt)
            others = [a for b in w.body for a in ast.walk(b) if isinstance(a, ast.Await) and not (a.value is call) and not any(x is call for x in ast.walk(a.value))]
            if not others:
                c.ok(where(u, w), 'the timeout scope contains no await other than the attempt itself')
            for a in others:
                c.fail(u, f'`{U(a)[:60]}` inside the per-attempt timeout scope', 'something other than the attempt (e.g. the backoff wait) runs under the attempt\'s timeout: the attempt gets less than `timeout` seconds', node=a)
    for n in ast.walk(loop):
        if isinstance(n, ast.Continue) or (isinstance(n, ast.Break)):
            c.fail(u, f'`{q.stmt_text(n)}` in the attempt loop', 'the attempt loop is left / continued outside the documented protocol', node=n)


@ob('C19.2', 'FLOW', 'the first success is returned at once: the only normal exits are `return await func(...)` from inside the loop')
def c19_2(c: Ctx) -> None:
    u, loop, fparam, calls = parts(c)
    g = c.cfg(u)
    rets = [n for n in g.live_nodes() if n.kind == 'return']
    c.floor(len(rets), 1, 'return statements')
    for rn in rets:
        v = rn.ast.value
        if isinstance(v, ast.Await) and isinstance(v.value, ast.Call) and isinstance(v.value.func, ast.Name) and v.value.func.id == fparam and q.lexically_in(rn.ast, loop, 'body'):
            c.ok(where(u, rn.ast), f'`{q.stmt_text(rn.ast)}`')
        else:
            c.fail(u, f'returns {U(v)[:60] if v is not None else None}', 'retry returns something other than the wrapped function\'s result', node=rn.ast)
    from sa.cfg import search

    p = search([(g.entry, ())], is_target=lambda n, d: n is g.exit, is_barrier=lambda n, d: n.kind == 'return', edge_ok=lambda n, e, d: None if (e.is_exc and e.dst.kind == 'raise_exit') else d)
    if p is None:
        c.ok(where(u), 'the function cannot fall off its end (after the loop it raises)')
    else:
        c.fail(u, 'the function can fall off its end', 'after the last attempt retry returns None instead of raising the last error', witness=c.path(g.entry, p))


def _enclosing_tries(call: ast.AST, stop: ast.AST | None = None) -> list[ast.Try]:
    """The try statements whose body contains the call, innermost first (up to the retry loop)."""
    out = []
    for a in q.ancestors_of(call):
        if a is stop:
            break
        if isinstance(a, ast.Try) and q.lexically_in(call, a, 'body') and a.handlers:
            out.append(a)
    return out


def attempt_arms(c: Ctx, u: Unit, calls) -> list[ast.ExceptHandler]:
    """The arms that decide about retrying: the handlers of the OUTERMOST try around the attempt (inside the loop).  Handlers of tries nested inside it see the exception first;
    they are `inner_arms` and must pass it on untouched (C19.6)."""
    arms = []
    for call in calls:
        loop = next((a for a in q.ancestors_of(call) if isinstance(a, (ast.For, ast.While))), None)
        ts = _enclosing_tries(call, loop)
        if ts:
            arms.extend(ts[-1].handlers)
    return arms


def inner_arms(c: Ctx, u: Unit, calls) -> list[ast.ExceptHandler]:
    arms = []
    for call in calls:
        loop = next((a for a in q.ancestors_of(call) if isinstance(a, (ast.For, ast.While))), None)
        for t in _enclosing_tries(call, loop)[:-1]:
            arms.extend(t.handlers)
    return arms


@ob('C19.3', 'ESC', 'the arm around an attempt catches Exception (so a cut-off counts as a failed attempt) but never CancelledError: cancellation of the caller is not swallowed '
    'or retried, in _execute_with_retries and in wrapper')
def c19_3(c: Ctx) -> None:
    u, loop, fparam, calls = parts(c)
    H = c.an.fm.h
    arms = attempt_arms(c, u, calls)
    c.floor(len(arms), 1, 'except arms around the attempt')
    for a in arms:
        names = handler_type_names(a)
        if H.match(CANCEL, names) != 'no':
            c.fail(u, f'attempt arm `except {U(a.type) if a.type else "<bare>"}` catches CancelledError', 'cancelling the caller is treated as a failed attempt: it is swallowed and the function is retried', node=a)
        elif H.match(ANY_EXCEPTION, names) == 'yes':
            c.ok(where(u, a), f'attempt arm catches {names} (incl. TimeoutError of the cut-off), not CancelledError')
        else:
            c.fail(u, f'attempt arm catches only {names}', 'some failures (e.g. the per-attempt TimeoutError) are not retried', node=a)
    w = c.unit(HLP, 'retry.decorator.wrapper')
    for unit in (u, w):
        for a in [n for n in own_nodes(unit.node) if isinstance(n, ast.ExceptHandler)]:
            if H.match(CANCEL, handler_type_names(a)) != 'no' and a not in arms:
                from .c16 import swallows_cancel

                if swallows_cancel(c, unit, a) is not None:
                    c.fail(unit, f'`except {U(a.type) if a.type else "<bare>"}` in {unit.name} swallows CancelledError', 'cancellation of the caller is swallowed by the retry machinery', node=a)
    if CANCEL in c.an.escapes(u) and CANCEL in c.an.escapes(w):
        c.ok(where(w), 'CancelledError is in the escape set of _execute_with_retries and of wrapper (propagates to the caller)')
    else:
        c.fail(w, 'CancelledError does not escape the retry wrapper', 'cancellation of the caller is swallowed')


@ob('C19.4', 'DOM/ORD', 'an exception not listed in retry_on is re-raised before any wait: the filter `retry_on is not None and not isinstance(e, retry_on)` → raise '
    'dominates the sleep')
def c19_4(c: Ctx) -> None:
    u, loop, fparam, calls = parts(c)
    g = c.cfg(u)
    arms = attempt_arms(c, u, calls)
    sleeps = [n for n in g.live_nodes() if any(U(x.func) in ('asyncio.sleep', 'sleep') for x in q.node_calls(n))]
    from sa.cfg import search

    for a in arms:
        en = g.nodes_of(a, ('except',))
        e = a.name or 'e'
        filt = [n for n in g.live_nodes() if n.kind == 'if' and 'retry_on' in U(n.ast.test) and q.lexically_in(n.ast, a)]
        want = {f'retry_on is not None', f'not isinstance({e}, retry_on)'}
        from sa.facts import equivalent

        want_expr = ast.parse(f'retry_on is not None and not isinstance({e}, retry_on)', mode='eval').body
        good = [n for n in filt if equivalent(n.ast.test, want_expr) is True
                and len(n.ast.body) == 1 and isinstance(n.ast.body[0], ast.Raise) and (n.ast.body[0].exc is None or U(n.ast.body[0].exc) == e)]
        if not good:
            c.fail(u, f'no `if retry_on is not None and not isinstance({e}, retry_on): raise` in the attempt arm (found {[U(n.ast.test)[:50] for n in filt]})', 'exceptions not listed in retry_on are retried (or listed ones are not)', node=a)
            continue
        gid = {n.id for n in good}
        ok = True
        for en_ in en:
            for sn in sleeps:
                p = search([(en_, ())], is_target=lambda n, d: n is sn, is_barrier=lambda n, d: n.id in gid)
                if p is not None:
                    ok = False
                    c.fail(u, 'sleep reachable before the retry_on filter', 'an exception not listed in retry_on is waited on before it propagates', node=sn.ast, witness=c.path(en_, p))
            # also: the next attempt (loop head) is not reachable without the filter
            heads = g.nodes_of(loop, ('for', 'while'))
            for hd in heads:
                p = search([(en_, ())], is_target=lambda n, d: n is hd, is_barrier=lambda n, d: n.id in gid)
                if p is not None:
                    ok = False
                    c.fail(u, 'next attempt reachable without passing the retry_on filter', 'an exception not listed in retry_on leads to another attempt', node=a, witness=c.path(en_, p))
        if ok:
            c.ok(where(u, good[0].ast), 'the retry_on filter precedes the wait and the next attempt')


@ob('C19.5', 'SHAPE/FLOW', 'the wait before attempt k+1 is wait * backoff_factor ** k (modulo commutativity / naming), slept only when another attempt follows (attempt < retries)')
def c19_5(c: Ctx) -> None:
    u, loop, fparam, calls = parts(c)
    g = c.cfg(u)
    k = loop.target.id if isinstance(loop, ast.For) and isinstance(loop.target, ast.Name) else 'attempt'
    sleeps = [n for n in own_nodes(u.node) if isinstance(n, ast.Call) and U(n.func) in ('asyncio.sleep', 'sleep')]
    if not sleeps:
        c.fail(u, 'no sleep between attempts', 'retries happen without the promised wait')
        return
    want = canon_src(f'wait * backoff_factor ** {k}')
    for s in sleeps:
        arg = s.args[0] if s.args else None
        expr = arg
        if isinstance(arg, ast.Name):
            blk_defs = [n for n in own_nodes(u.node) if isinstance(n, (ast.Assign, ast.AnnAssign, ast.AugAssign)) and U(n.targets[0] if isinstance(n, ast.Assign) else n.target) == arg.id and n.lineno < s.lineno]
            # the definition that reaches this sleep: the closest preceding one in an enclosing block of the sleep
            reaching = [d for d in blk_defs if any(d in (q.block_of(q.stmt_of(x)) or []) for x in [s] + list(q.ancestors_of(s)) if isinstance(x, ast.AST) and not isinstance(x, ast.Module) and (x is s or isinstance(x, ast.stmt)))]
            reaching = reaching or blk_defs
            if not reaching or isinstance(reaching[-1], ast.AugAssign) or arg.id in u.params():
                raise AnalysisError(f'C19.5 undecided: the sleep argument `{arg.id}` is computed in a form the canonicaliser cannot relate to a closed form')
            expr = reaching[-1].value
        # locals that are plain copies / linear abbreviations of other names (e.g. a hoisted argument of a folded helper) are written out
        import copy as _copy

        single = {}
        for d_ in own_nodes(u.node):
            if isinstance(d_, ast.Assign) and len(d_.targets) == 1 and isinstance(d_.targets[0], ast.Name):
                single.setdefault(d_.targets[0].id, []).append(d_.value)

        class _Res(ast.NodeTransformer):
            def visit_Name(self, node):
                vs = single.get(node.id, [])
                if len(vs) == 1 and isinstance(vs[0], ast.Name) and node.id != vs[0].id and node.id not in u.params():
                    return _copy.deepcopy(vs[0])
                return node

        expr = _Res().visit(_copy.deepcopy(expr)) if expr is not None else expr
        got = canon(expr)
        if expr is not None and got != want:
            # a new optional parameter (a cap on the wait, say) may sit in the expression: read it at its default, when that is all the library itself ever passes
            from .common import at_new_defaults

            expr2, fixed = at_new_defaults(c, u, expr)
            if fixed and canon(expr2) != want:
                # ... or in the statements that compute the argument: the whole function at the defaults, then the same question
                from sa.loader import set_parents

                fn2, _ = at_new_defaults(c, u, u.node)
                set_parents(fn2)
                sleeps2 = [n for n in own_nodes(fn2) if isinstance(n, ast.Call) and U(n.func) in ('asyncio.sleep', 'sleep')]
                idx_ = sleeps.index(s)
                if len(sleeps2) == len(sleeps) and sleeps2[idx_].args:
                    a2 = sleeps2[idx_].args[0]
                    seen_: set[str] = set()
                    while isinstance(a2, ast.Name) and a2.id not in seen_:
                        seen_.add(a2.id)
                        ds = [n for n in own_nodes(fn2) if isinstance(n, ast.Assign) and len(n.targets) == 1 and isinstance(n.targets[0], ast.Name) and n.targets[0].id == a2.id]
                        if len(ds) != 1:
                            break
                        a2 = ds[0].value
                    expr2 = a2
            if fixed and canon(expr2) == want:
                c.note(f'the wait expression is read with the new optional parameter(s) {fixed} at their defaults (no library caller passes anything else)')
                expr, got = expr2, canon(expr2)
        if got == want:
            c.ok(where(u, s), f'sleep argument = {U(expr)} ≡ wait * backoff_factor ** {k}')
        elif any(t[0] == 'opaque' for t in _flatten(got)):
            raise AnalysisError(f'C19.5 undecided: cannot canonicalise the wait expression {U(expr)}')
        else:
            c.fail(u, f'wait expression is {U(expr)}', f'the wait before attempt k+1 is not wait*backoff_factor**k (k = the attempt index `{k}`)', node=s)
        facts = Facts(lambda a: a == f'{k} < retries', cg=c.cg, unit=u)
        bad = [p for n in g.nodes_of(q.stmt_of(s)) if (p := q.guard_search(g, n, f'{k} < retries', facts)) is not None]
        if not bad:
            c.ok(where(u, s), f'sleeps only when {k} < retries (another attempt follows)')
        else:
            c.fail(u, f'sleep not guarded by {k} < retries', 'retry waits after the last attempt (or the guard no longer matches the loop bound)', node=s, witness=c.path(g.entry, bad[0]))
        if not isinstance(parent(s), ast.Await):
            c.fail(u, 'sleep is not awaited', 'no wait happens between attempts', node=s)


def _flatten(t):
    out = [t]
    for x in t[1:] if isinstance(t, tuple) else []:
        if isinstance(x, tuple):
            out.extend(_flatten(x) if x and isinstance(x[0], str) else [y for z in x for y in _flatten(z)])
    return out


def _honours_new_cancellation(u: Unit, r: ast.Raise) -> bool:
    """`raise CancelledError(..)` under `<task>.cancelling() > <count recorded when the function was entered>`: a cancellation request that arrived during this call outranks
    retrying and whatever the function raised instead of it.  (Task.cancelling() is a counter: testing it for truth alone would also fire for a request the caller absorbed long ago.)"""
    if not (isinstance(r.exc, ast.Call) and U(r.exc.func).split('.')[-1] == 'CancelledError'):
        return False
    gi = q.enclosing(r, (ast.If,))
    if gi is None or not q.lexically_in(r, gi, 'body'):
        return False
    conj = gi.test.values if isinstance(gi.test, ast.BoolOp) and isinstance(gi.test.op, ast.And) else [gi.test]
    for x in conj:
        if isinstance(x, ast.Compare) and len(x.ops) == 1 and isinstance(x.ops[0], ast.Gt) and isinstance(x.left, ast.Call) and call_name(x.left) == 'cancelling' and isinstance(x.comparators[0], ast.Name):
            base = x.comparators[0].id
            loops = [n for n in own_nodes(u.node) if isinstance(n, (ast.For, ast.While))]
            defs = [n for n in own_nodes(u.node) if isinstance(n, ast.Assign) and len(n.targets) == 1 and isinstance(n.targets[0], ast.Name) and n.targets[0].id == base]
            if len(defs) == 1 and any(isinstance(y, ast.Call) and call_name(y) == 'cancelling' for y in ast.walk(defs[0].value)) and not any(q.lexically_in(defs[0], lp) for lp in loops):
                return True
    return False


@ob('C19.6', 'FLOW', 'after the last attempt the caught exception itself is re-raised (bare raise in the attempt arm when attempt == retries)')
def c19_6(c: Ctx) -> None:
    u, loop, fparam, calls = parts(c)
    g = c.cfg(u)
    k = loop.target.id if isinstance(loop, ast.For) and isinstance(loop.target, ast.Name) else 'attempt'
    arms = attempt_arms(c, u, calls)
    atom = f'{k} < retries'
    facts = Facts(lambda a: a == atom, cg=c.cg, unit=u)
    for a in arms:
        inside = {id(x) for b in a.body for x in ast.walk(b)}
        for en in g.nodes_of(a, ('except',)):
            # with `attempt < retries` false, the arm must leave by re-raising the caught exception
            def leaves_wrong(n, d):
                if n.ast is not None and id(n.ast) in inside:
                    return False
                return d.get(atom) == 'F' and n.kind not in ('reraise', 'raise_exit')

            p = q.reach_search(g, [(en, {})], leaves_wrong, facts=facts, exc_ok=lambda e: True)
            if p is None:
                c.ok(where(u, a), f'on the last attempt ({atom} false) the arm can only leave by raising')
            else:
                c.fail(u, f'attempt arm can complete without raising when {atom} is false', 'after the last attempt the error is swallowed', node=a, witness=c.path(en, p))
        nested = {id(x) for h2 in own_nodes(u.node) if isinstance(h2, ast.ExceptHandler) and h2 is not a and id(h2) in inside for b in h2.body for x in ast.walk(b)}
        final = [n for n in g.live_nodes() if n.kind == 'raise' and n.ast is not None and id(n.ast) in inside and id(n.ast) not in nested and n.ast.exc is None]
        typed = [n for n in g.live_nodes() if n.kind == 'raise' and n.ast is not None and id(n.ast) in inside and n.ast.exc is not None and U(n.ast.exc) != (a.name or '')]
        typed = [n for n in typed if not _honours_new_cancellation(u, n.ast)]
        if final and not typed:
            c.ok(where(u, final[0].ast), 'the arm re-raises with bare `raise` (the original exception object)')
        else:
            c.fail(u, f'attempt arm raises {[q.stmt_text(n.ast, 40) for n in typed] or "nothing"}', 'the last exception is not propagated as itself', node=a)
    # an arm nested inside the attempt's try sees the function's exception before the retry logic does: it must hand it on untouched
    H = c.an.fm.h
    for ia in inner_arms(c, u, calls):
        names = handler_type_names(ia)
        raises = [n for b in ia.body for n in ast.walk(b) if isinstance(n, ast.Raise)]
        replaced = [r for r in raises if r.exc is not None and U(r.exc) != (ia.name or '')]
        if replaced:
            c.fail(u, f'inner arm `except {U(ia.type) if ia.type else "<bare>"}` raises `{q.stmt_text(replaced[0], 50)}`', f'an exception the function raised ({", ".join(names) or "any"} and subclasses) is replaced '
                   'before the retry logic sees it: retry_on is matched against the replacement, and after the last attempt the caller receives the replacement instead of the last exception raised', node=replaced[0])
        elif not raises:
            c.fail(u, f'inner arm `except {U(ia.type) if ia.type else "<bare>"}` does not re-raise', 'an exception the function raised is swallowed inside the attempt: it is neither retried nor propagated', node=ia)
        else:
            c.ok(where(u, ia), f'inner arm `except {U(ia.type) if ia.type else "<bare>"}` passes the exception on untouched')



@ob('C19.7', 'FLOW', 'the decorator arguments (retries, timeout, wait, backoff_factor, retry_on) reach _execute_with_retries unchanged: they are never reassigned or normalised on '
    'the way (an empty retry_on tuple must stay an empty tuple: "retry nothing", not "retry everything")')
def c19_7(c: Ctx) -> None:
    core = c.unit(HLP, '_execute_with_retries')
    w = c.unit(HLP, 'retry.decorator.wrapper')
    outer = c.unit(HLP, 'retry')
    calls = [call for cu, call in c.cg.callers(core) if cu.key == w.key]
    c.floor(len(calls), 1, 'call of _execute_with_retries in wrapper')
    cps = core.params()
    scopes = [outer, c.unit(HLP, 'retry.decorator'), w]
    for call in calls:
        for name in ('retries', 'timeout', 'wait', 'backoff_factor', 'retry_on'):
            if name not in cps or name not in outer.params():
                c.fail(w, f'parameter {name} missing from retry() or _execute_with_retries', f'retry() no longer takes / forwards {name}')
                continue
            i = cps.index(name)
            arg = call.args[i] if i < len(call.args) else q.kw(call, name)
            rebound = [n for sc in scopes for n in own_nodes(sc.node) if isinstance(n, (ast.Assign, ast.AnnAssign, ast.AugAssign)) and any(isinstance(t, ast.Name) and t.id == name for t in (n.targets if isinstance(n, ast.Assign) else [n.target]))]
            if arg is not None and U(arg) == name and not rebound:
                c.ok(where(w, call), f'{name} is passed through unchanged')
            else:
                c.fail(w, f'{name} reaches _execute_with_retries as `{U(arg)[:50] if arg is not None else "<missing>"}`' + (' (rebound on the way)' if rebound else ''),
                       f'the {name} the user configured is not the one the retry loop uses' + (': an empty retry_on collapses to None and every exception is retried' if name == 'retry_on' else ''), node=call)


OBLIGATIONS = ob.obs
