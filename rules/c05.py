"""C05 — an awaited child jumps the queue: structural necessary conditions."""

from __future__ import annotations

import ast

from .common import *  # noqa: F401,F403
from .common import SVC, MOD, AnalysisError, Ctx, Facts, Registry, U, Unit, await_coro, call_name, own_nodes, parent, q, where
from .c03 import inline_branch
from .c04 import inline_awaits, is_sleep0

ob = Registry()

README_CONTRACT = [
    'README: "awaited child events jump the FIFO queue and are processed immediately"',
    'README: "...will be processed immediately, before any other pending events"',
]


# the inline loop hands an event to the bus's processing entry point: process_event, or step(event) which wraps it in the lock
PROCESSING_CALLS = ('process_event', 'step')


def is_processing_call(c: Ctx, u: Unit, call: ast.Call) -> bool:
    """process_event / step, or a call of any bus method that reaches process_event (a new merged helper such as `step_nowait()`)."""
    if call_name(call) in PROCESSING_CALLS:
        return True
    r = c.an.fm.resolve_call(call, u)
    if isinstance(r, Unit) and r.cls == 'EventBus':
        pe = c.unit(SVC, 'EventBus.process_event')
        return pe.key in c.cg.reach([r])
    return False


@ob('C05.1', 'FLOW', 'the event handed to process_event by the in-handler inline loop is the awaited event itself, or is filtered by a test relating it to the awaited event '
    '(same event / descendant); otherwise unrelated events queued earlier run first, inside the awaiting handler')
def c05_1(c: Ctx) -> None:
    u = await_coro(c)
    br = inline_branch(c, u)
    self_ = c.unit(MOD, 'BaseEvent.__await__').params()[0]
    calls = [n for n in own_nodes(u.node) if isinstance(n, ast.Call) and is_processing_call(c, u, n) and q.lexically_in(n, br, 'body')]
    c.floor(len(calls), 1, 'process_event calls on the inline branch')
    c.note('documented contract: ' + ' / '.join(README_CONTRACT))
    for call in calls:
        if not call.args:
            c.fail(u, f'process_event call without event argument: {U(call)}', 'inline processing of an unknown event', node=call)
            continue
        arg = call.args[0]
        if U(arg) == self_:
            c.ok(where(u, call), 'inline loop processes the awaited event itself')
            continue
        if not isinstance(arg, ast.Name):
            c.fail(u, f'process_event(arg = {U(arg)[:80]})', 'the inline loop processes an event with no relation to the awaited one', node=call)
            continue
        defs = [n for n in own_nodes(u.node) if isinstance(n, (ast.Assign, ast.AnnAssign)) and q.lexically_in(n, br, 'body')
                and any(isinstance(t, ast.Name) and t.id == arg.id for t in (n.targets if isinstance(n, ast.Assign) else [n.target]))]
        def origins(name: str, depth: int = 0, seen: frozenset = frozenset()) -> set[str]:
            # follow plain copies (`event = fetched`, as left behind by a folded helper / context manager) back to the expressions that produce the value
            out: set[str] = set()
            ds = [n for n in own_nodes(u.node) if isinstance(n, (ast.Assign, ast.AnnAssign)) and q.lexically_in(n, br, 'body') and n.value is not None
                  and any(isinstance(t, ast.Name) and t.id == name for t in (n.targets if isinstance(n, ast.Assign) else [n.target]))]
            for d in ds:
                if isinstance(d.value, ast.Name) and (d.value.id == name or d.value.id in seen):
                    continue  # `x = x`: no new origin
                if isinstance(d.value, ast.Name) and depth < 4:
                    out |= origins(d.value.id, depth + 1, seen | {name}) or {d.value.id}
                else:
                    out.add(U(d.value))
            return out

        src = ' / '.join(sorted(origins(arg.id))) or '<unbound>'
        # (`None` is not an event that can be processed: an initial / "nothing there" binding left behind by a folded helper is not an origin)
        src_key = ' / '.join(sorted(o for o in origins(arg.id) if o != 'None')) or src
        # a relating test: a branch test mentioning both the local and the awaited event, that the call is control-dependent on
        related = False
        for a in [x for x in q.ancestors_of(call) if isinstance(x, (ast.If, ast.While))]:
            names = {n.id for n in ast.walk(a.test) if isinstance(n, ast.Name)}
            if arg.id in names and self_ in names:
                related = True
        if not related:
            # or an early `continue` guard earlier in the same block: `if <unrelated(event, self)>: continue`
            st = q.stmt_of(call)
            blk = q.block_of(st)
            for prev in blk[: blk.index(st)] if blk and st in blk else []:
                if isinstance(prev, ast.If) and any(isinstance(b, (ast.Continue, ast.Break)) for b in prev.body):
                    names = {n.id for n in ast.walk(prev.test) if isinstance(n, ast.Name)}
                    if arg.id in names and self_ in names:
                        related = True
        if related:
            c.ok(where(u, call), f'inline loop processes `{arg.id}` only after a test relating it to the awaited event')
        else:
            c.fail(u, f'process_event(arg <- {src_key}) with no relation to the awaited event',
                   'the in-handler await processes whatever is at the head of each queue: events queued earlier run before the awaited child (documented: child runs before any other pending event)', node=call,
                   witness=[f'{where(u, call)}: {U(call)}', f'{arg.id} <- {src}', 'no branch test relates it to the awaited event (self)'])


@ob('C05.2', 'EFFECT/DOM', 'on the handler branch the only yield to the event loop (asyncio.sleep(0)) is reached only when no queued work was found (`not processed_any`), '
    'and the flag is set after every inline process_event: the awaiting handler never suspends while queued work exists')
def c05_2(c: Ctx) -> None:
    u = await_coro(c)
    g = c.cfg(u)
    br = inline_branch(c, u)
    aws = inline_awaits(c, u, br)
    sleeps = [a for a in aws if is_sleep0(a)]
    procs = [a for a in aws if isinstance(a.value, ast.Call) and is_processing_call(c, u, a.value)]
    c.floor(len(procs), 1, 'inline process_event awaits')
    if not sleeps:
        c.ok(where(u, br), 'inline branch never yields to the event loop')
        return
    brn = g.nodes_of(br, ('if',))[0]
    # flag: the local tested in the guard of the sleep
    for a in sleeps:
        st = q.stmt_of(a)
        guard_if = None
        for anc in q.ancestors_of(a):
            if isinstance(anc, ast.If) and q.lexically_in(anc, br, 'body') and isinstance(anc.test, ast.UnaryOp) and isinstance(anc.test.op, ast.Not) and isinstance(anc.test.operand, ast.Name):
                guard_if = anc
                break
        if guard_if is None:
            c.fail(u, f'yield `{U(a)}` not guarded by a `not <processed flag>` test', 'the awaiting handler yields to the event loop although queued work may exist: another run loop can take the child first', node=a)
            continue
        flag = guard_if.test.operand.id
        # the flag may be fed from another local (`processed_any = found`, as a folded helper's result is): follow plain copies
        flags = {flag}
        changed_ = True
        while changed_:
            changed_ = False
            for n_ in own_nodes(u.node):
                if isinstance(n_, ast.Assign) and len(n_.targets) == 1 and isinstance(n_.targets[0], ast.Name) and n_.targets[0].id in flags and isinstance(n_.value, ast.Name) and n_.value.id not in flags:
                    flags.add(n_.value.id)
                    changed_ = True
        # (plain locals are tracked too: a folded helper hands its result over through `__inl_ret_k = <local>`; what comes off a queue is an event, never None)
        facts = Facts(lambda x: x in flags or x.isidentifier(), rhs_value=lambda v: 'NN' if isinstance(v, (ast.Call, ast.Await)) and call_name(v.value if isinstance(v, ast.Await) else v) in ('get', 'get_nowait') else None,
                      cg=c.cg, unit=u)
        for n in g.nodes_of(st):
            p = q.reach_search(g, [(brn, {})], lambda x, d: x is n and d.get(flag) not in ('F', 'Fy', 'N'), facts=facts, exc_ok=lambda e: False)
            if p is None:
                c.ok(where(u, a), f'sleep(0) reached only with {flag} false')
            else:
                c.fail(u, f'yield `{U(a)}` reachable with {flag} not false', 'the awaiting handler yields to the event loop after (or regardless of) processing queued work', node=a, witness=c.path(brn, p))
        # the flag is set after each inline process_event
        for pa in procs:
            pst = q.stmt_of(pa)
            for pn in g.nodes_of(pst):
                gnodes = {x.id for x in g.nodes_of(guard_if, ('if',))}
                arg0 = pa.value.args[0] if isinstance(pa.value, ast.Call) and pa.value.args and isinstance(pa.value.args[0], ast.Name) else None
                env0 = {flag: 'F', **({arg0.id: 'NN'} if arg0 is not None else {})}  # the event being processed is an event
                p = q.reach_search(g, [(pn, env0)], lambda x, d: (x.id in gnodes or x.kind == 'exit') and d.get(flag) not in ('T', 'Ty'),
                                   lambda x, d: x.id in gnodes, facts=facts, exc_ok=lambda e: False, skip_exc_from=pn)
                if p is None:
                    c.ok(where(u, pa), f'{flag} is set after every inline process_event')
                else:
                    c.fail(u, f'{flag} not set after inline process_event', 'processed work is not recorded: the loop yields although it just processed an event', node=pa, witness=c.path(pn, p))
    # nothing suspends before the first inline process_event / sleep
    first_aw = [n for n in g.live_nodes() if q.node_has_await(n) and n.ast is not None and q.lexically_in(n.ast, br, 'body')]
    proc_ids = {id(q.stmt_of(a)) for a in procs} | {id(q.stmt_of(a)) for a in sleeps}
    other = [n for n in first_aw if id(n.ast) not in proc_ids]
    # the branch is entered only with holds_global_lock true: `async with <the global lock>` there is a nested entry, which does not suspend
    other = [n for n in other if not (n.kind in ('with', 'withexit') and isinstance(n.ast, ast.AsyncWith) and len(n.ast.items) == 1 and (t_ := c.prog.infer(n.ast.items[0].context_expr, u)) is not None
                                      and t_.kind == 'cls' and t_.name == 'ReentrantLock' and 'holds_global_lock.get()' in U(br.test))]
    if not other:
        c.ok(where(u, br), 'no other suspension point on the inline branch')
    for n in other:
        c.fail(u, f'extra suspension point on the inline branch: {n.text(80)}', 'the awaiting handler suspends before processing the awaited child', node=n.ast)



@ob('C05.3', 'LOCKSET/CTX', 'while the awaiting handler (which holds the processing lock) is suspended inside the child\'s handlers, no other bus can start a handler: every '
    'process_event site holds the one global lock, and no run-loop task starts with inherited lock ownership (same obligations as C06.1 and C06.3)')
def c05_3(c: Ctx) -> None:
    from .c06 import c06_1, c06_3

    c06_1(c)
    c06_3(c)


def check_no_inline_processing_after_completion(c: Ctx) -> None:
    u = await_coro(c)
    g = c.cfg(u)
    br = inline_branch(c, u)
    self_ = c.unit(MOD, 'BaseEvent.__await__').params()[0]
    procs = [a for a in inline_awaits(c, u, br) if isinstance(a.value, ast.Call) and is_processing_call(c, u, a.value)]
    c.floor(len(procs), 1, 'inline process_event awaits')
    atom = f'{self_}.event_completed_signal.is_set()'
    atom2 = f'{self_}.event_completed_signal is not None and {atom}'  # "complete" spelled with the no-signal case in front (no signal: not complete either)
    facts = Facts(lambda a: a in (atom, atom2) or a == 'holds_global_lock.get()' or a.isidentifier(), cg=c.cg, unit=u, taskvars=TASKVARS)  # (plain locals too: results of folded helpers)
    for a in procs:
        st = q.stmt_of(a)
        # paths may pass through the call itself (the loop comes back to it), so the call is not a barrier of the search
        bad = [p for n in g.nodes_of(st) if (p := q.reach_search(g, [(g.entry, {})], lambda m, d, n=n: m is n and d.get(atom) not in ('F', 'Fy') and d.get(atom2) not in ('F', 'Fy'), lambda m, d: False, facts, skip_exc_from=n)) is not None]  # an inline call that *raised* did not process the event to completion: only successful calls count
        if not bad:
            c.ok(where(u, a), 'an event is processed inline only while the awaited event is known incomplete (signal tested since the last suspension)')
        else:
            c.fail(u, f'inline process_event reachable without a fresh `not {atom}`', 'queued events keep being processed inside the awaiting handler after the awaited event has completed (they run before the handler resumes, under its timeout)',
                   node=a, witness=c.path(g.entry, bad[0]))


@ob('C05.4', 'DOM', 'the inline loop stops at the awaited event: every inline process_event is reached only with `not self.event_completed_signal.is_set()` established since the last '
    'suspension point, so nothing queued behind the awaited event runs inside the awaiting handler once the event is complete')
def c05_4(c: Ctx) -> None:
    check_no_inline_processing_after_completion(c)


@ob('C05.5', 'EFFECT/SHAPE', 'nothing but the awaited child is waiting at the head of a queue because of the library itself: a running bus takes its queued events without unbounded delay (the run loop '
    'awaits only step(): same obligation as C15.6) and events enter a queue only at its tail (same obligation as C02.2) — a backlog parked in a running bus, or an event inserted '
    'ahead of the child, is what the in-handler await then runs first')
def c05_5(c: Ctx) -> None:
    from .c02 import c02_2
    from .c15 import check_runloop_only_awaits_step

    check_runloop_only_awaits_step(c)
    c02_2(c)


@ob('C05.6', 'DOM', 'every round of the inline loop looks at every running bus at the moment it reaches it (same obligation as C04.4): a bus left out of a round — because it was '
    'empty when the round was planned — can have received the awaited event\'s descendant from a handler run earlier in that very round; the next round then starts with another '
    'bus\'s unrelated event, which overtakes the descendant inside the awaiting handler')
def c05_6(c: Ctx) -> None:
    from .c04 import c04_4

    c04_4(c)


@ob('C05.7', 'DOM', 'the inline loop takes events from running buses only (same obligation as C16.4): the backlog a stopped bus left in its queue is not "queued work" any more, '
    'and running it inside the awaiting handler puts handlers of unrelated, abandoned events in front of the awaited child')
def c05_7(c: Ctx) -> None:
    from .c16 import c16_4

    c16_4(c)


OBLIGATIONS = ob.obs
