"""C02 — per-bus FIFO processing order: structural necessary conditions."""

from __future__ import annotations

import ast

from .common import *  # noqa: F401,F403
from .common import SVC, MOD, AnalysisError, Ctx, Facts, Registry, U, Unit, call_name, lock_held_at, own_nodes, parent, q, where
from .c01 import dequeue_sites, exec_handler_sites

ob = Registry()


@ob('C02.1', 'SHAPE', 'the event queue class derives from asyncio.Queue (FIFO), does not override _init/_get/_put, and its get/put(_nowait) overrides '
    'delegate to the base implementation')
def c02_1(c: Ctx) -> None:
    ci = c.prog.cls('CleanShutdownQueue')
    bases = [b.split('[')[0] for b in ci.bases]
    if bases and all(b in ('asyncio.Queue', 'Queue') for b in bases):
        c.ok(f'{ci.module}:{ci.node.lineno} CleanShutdownQueue', f'base class {bases} is the FIFO asyncio.Queue')
    else:
        c.fail(f'{ci.module} CleanShutdownQueue', f'base classes {bases}', f'event queue derives from {bases}, not the FIFO asyncio.Queue')
    for bad in ('_init', '_get', '_put', '_format', 'qsize', 'empty', 'full', 'task_done', 'join'):
        if bad in ci.methods:
            c.fail(ci.methods[bad], f'overrides {bad}', f'CleanShutdownQueue overrides {bad}: storage order / accounting no longer that of asyncio.Queue')
    c.ok(f'{ci.module}:{ci.node.lineno} CleanShutdownQueue', 'no override of _init/_get/_put/qsize/task_done/join')
    for name in ('get_nowait', 'put_nowait'):
        m = ci.methods.get(name)
        if m is None:
            c.ok(f'{ci.module} CleanShutdownQueue', f'{name} inherited unchanged')
            continue
        rets = [n for n in own_nodes(m.node) if isinstance(n, ast.Return) and n.value is not None]
        good = rets and all(isinstance(r.value, ast.Call) and U(r.value.func) == f'super().{name}' for r in rets)
        if good and name == 'put_nowait':
            good = all(len(r.value.args) == 1 and U(r.value.args[0]) == m.params()[1] for r in rets)
        if good:
            c.ok(where(m), f'{name} returns super().{name}(...)')
        else:
            c.fail(m, f'{name} does not delegate to super().{name}', f'CleanShutdownQueue.{name} does not hand the item to/from asyncio.Queue.{name} unchanged')
    for name, inner in (('get', 'get_nowait'), ('put', 'put_nowait')):
        m = ci.methods.get(name)
        if m is None:
            continue
        rets = [n for n in own_nodes(m.node) if isinstance(n, ast.Return) and n.value is not None]
        good = rets and all(isinstance(r.value, ast.Call) and U(r.value.func) == f'self.{inner}' for r in rets)
        if good:
            c.ok(where(m), f'{name} returns self.{inner}(...)')
        else:
            c.fail(m, f'{name} does not return self.{inner}(...)', f'CleanShutdownQueue.{name} bypasses {inner}')


@ob('C02.2', 'WMC', 'the only enqueue on an event queue is put_nowait(<dispatched event>) in dispatch; the only dequeues are get/get_nowait; the internal '
    'deque (_queue) is never mutated or indexed')
def c02_2(c: Ctx) -> None:
    enq = []
    for m in ('put_nowait', 'put'):
        enq += [(u, call) for u, call in q.typed_method_calls(c, m, 'CleanShutdownQueue') if u.cls != 'CleanShutdownQueue']
    disp = c.unit(SVC, 'EventBus.dispatch')
    if not enq:
        c.fail(disp, 'no put_nowait(event) on the event queue', 'dispatch no longer enqueues through CleanShutdownQueue.put_nowait (tail insert)')
    owners = c.cg.owners_closure({disp.key})
    for u, call in enq:
        ev = disp.params()[1]
        if u.key in owners and call_name(call) == 'put_nowait' and len(call.args) == 1 and (u.key != disp.key or U(call.args[0]) == ev):
            c.ok(where(u, call), f'enqueue `{U(call)}` in dispatch (tail insert)')
        else:
            c.fail(u, f'enqueue {U(call)}', f'an event is enqueued outside dispatch / not by put_nowait(event): {U(call)} in {u.qualname}', node=call)
    # raw deque access
    n_raw = 0
    for u in c.prog.units.values():
        if u.module == 'bubus/logging.py':
            continue
        aliases: set[str] = set()
        for n in own_nodes(u.node):
            if isinstance(n, ast.Attribute) and n.attr == '_queue':
                n_raw += 1
                p = parent(n)
                if isinstance(n.ctx, (ast.Store, ast.Del)):
                    c.fail(u, f'writes {U(n)}', 'the internal deque of the event queue is replaced', node=n)
                elif isinstance(p, ast.Attribute) and isinstance(parent(p), ast.Call) and parent(p).func is p and p.attr not in ('__len__', '__iter__', 'copy', 'count', 'index'):
                    c.fail(u, f'calls {U(parent(p))[:80]}', f'the internal deque of the event queue is manipulated directly ({p.attr}): FIFO order is bypassed', node=n)
                elif isinstance(p, ast.Subscript):
                    c.fail(u, f'indexes {U(p)[:80]}', 'the internal deque of the event queue is indexed directly', node=n)
                elif isinstance(p, (ast.Assign, ast.AnnAssign)):
                    tg = p.targets[0] if isinstance(p, ast.Assign) else p.target
                    if isinstance(tg, ast.Name):
                        aliases.add(tg.id)
        for n in own_nodes(u.node):
            if isinstance(n, ast.Call) and isinstance(n.func, ast.Attribute) and isinstance(n.func.value, ast.Name) and n.func.value.id in aliases:
                c.fail(u, f'calls {U(n)[:80]} on an alias of _queue', f'the internal deque of the event queue is manipulated through alias {n.func.value.id}', node=n)
            if isinstance(n, ast.Subscript) and isinstance(n.value, ast.Name) and n.value.id in aliases:
                c.fail(u, f'indexes alias {U(n)[:80]} of _queue', 'the internal deque of the event queue is indexed through an alias', node=n)
    raw_calls = check_no_raw_queue_calls(c)
    c.ok('bubus/*.py', f'{n_raw} reads of ._queue, none mutates or indexes the deque; {raw_calls} calls of the storage hooks _get/_put/_init')
    deq = dequeue_sites(c)
    c.floor(len(deq), 2, 'dequeue sites')
    for u, call in deq:
        c.ok(where(u, call), f'dequeue by {call_name(call)}() (head removal)')


def check_no_raw_queue_calls(c: Ctx) -> int:
    """asyncio.Queue's storage hooks (_get, _put, _init) and its bookkeeping (_unfinished_tasks, _finished) are used by nobody in the library: items enter and
    leave the queue only through put_nowait / get / get_nowait, so nothing is removed without being handed to a consumer."""
    n = 0
    for u in c.prog.units.values():
        if u.module == 'bubus/logging.py':
            continue
        for x in own_nodes(u.node):
            if isinstance(x, ast.Call) and isinstance(x.func, ast.Attribute) and x.func.attr in ('_get', '_put', '_init') and not (isinstance(x.func.value, ast.Call) and call_name(x.func.value) == 'super'):
                n += 1
                c.fail(u, f'calls the queue storage hook {U(x)[:60]}', 'items are removed from / inserted into the event queue behind the back of get()/put_nowait(): accepted events are discarded (or reordered) '
                       'without ever reaching process_event', node=x)
            if isinstance(x, ast.Attribute) and x.attr in ('_unfinished_tasks', '_finished') and isinstance(x.ctx, (ast.Store, ast.Del)):
                n += 1
                c.fail(u, f'writes the queue bookkeeping {U(x)[:60]}', 'the unfinished-task accounting of the event queue is edited by hand: join() / wait_until_idle() no longer mean "everything accepted was processed"', node=x)
    return n


@ob('C02.3', 'SHAPE', 'the run loop awaits step() in place, step awaits process_event to completion, and without parallel_handlers each handler has finished before the next one starts: '
    'execute_handler is awaited in place in iteration order, or each handler task is awaited to completion (plain await, which forwards cancellation) before the next one is created')
def c02_3(c: Ctx) -> None:
    rl = c.unit(SVC, 'EventBus._run_loop')
    st = c.unit(SVC, 'EventBus.step')
    pe = c.unit(SVC, 'EventBus.process_event')
    eh = c.unit(SVC, 'EventBus._execute_handlers')
    for caller, callee in ((rl, st), (st, pe), (pe, eh)):
        sites = [call for cu, call in c.cg.callers(callee) if cu.key == caller.key]
        c.floor(len(sites), 1, f'calls of {callee.qualname} in {caller.qualname}')
        for call in sites:
            if isinstance(parent(call), ast.Await) and isinstance(parent(parent(call)), (ast.Expr, ast.Assign, ast.AnnAssign, ast.Return)):
                c.ok(where(caller, call), f'{caller.name} awaits {callee.name}(...) in place')
            else:
                c.fail(caller, f'{callee.name} not awaited in place: {q.stmt_text(q.stmt_of(call), 90)}', f'{caller.name} does not await {callee.name} to completion before continuing (events could be processed concurrently / out of order)', node=call)
    u, sites = exec_handler_sites(c)
    g = c.cfg(u)
    n_inplace = 0
    for call in sites:
        if isinstance(parent(call), ast.Await):
            n_inplace += 1
            c.ok(where(u, call), 'serial branch awaits execute_handler in place')
            continue
        stn = q.stmt_of(call)
        facts = Facts(lambda a: a == f'{u.params()[0]}.parallel_handlers', cg=c.cg, unit=u)
        spawns = [parent(x) for x in sites if isinstance(parent(x), ast.Call) and call_name(parent(x)) == 'create_task']
        for n in g.nodes_of(stn):
            p = q.guard_search(g, n, f'{u.params()[0]}.parallel_handlers', facts)
            if p is None:
                c.ok(where(u, call), 'handler tasks are spawned only when self.parallel_handlers is true')
            elif isinstance(parent(call), ast.Call) and call_name(parent(call)) == 'create_task' and serial_task_discipline(c, u, g, parent(call), spawns, f'{u.params()[0]}.parallel_handlers') is None:
                n_inplace += 1
                c.ok(where(u, call), 'on a bus without parallel_handlers each handler task is awaited to completion before the next one is created: handlers run one at a time, in iteration order')
            else:
                c.fail(u, f'handler task spawned without parallel_handlers guard: {q.stmt_text(stn, 70)}', 'handlers run concurrently on a bus that did not ask for parallel_handlers', node=stn, witness=c.path(g.entry, p))
    if n_inplace == 0:
        c.fail(u, 'no in-place awaited execute_handler call', 'there is no serial handler execution path any more')


@ob('C02.4', 'LOCKSET', 'every dequeue executes with the global processing lock held (inside `async with _get_global_lock()` or under a true '
    'holds_global_lock.get()), so an event is never off its queue but unprocessed while another bus processes later events')
def c02_4(c: Ctx) -> None:
    deq = dequeue_sites(c)
    c.floor(len(deq), 2, 'dequeue sites')
    for u, call in deq:
        held, chain = lock_held_at(c, u, call)
        if held:
            c.ok(where(u, call), f'`{U(call)}` executes with the global lock held')
        else:
            via = ' <- '.join(chain)
            c.fail(u, f'{U(call)} reached outside the global lock (call chain {via})',
                   'a run loop can hold a dequeued event while another bus (or an inline loop) processes later events of the same bus: order inversion', node=call,
                   witness=[f'{where(u, call)}: {U(call)}', f'call chain without lock: {via}'])



@ob('C02.5', 'PAIR', 'a serial bus does not start the next event while a handler of the current one is still running: execute_handler joins (not merely stops waiting for) its '
    'handler task on every exit, including after a timeout or cancellation (same obligation as C06.3 / C10.3 for the handler task)')
def c02_5(c: Ctx) -> None:
    from .c06 import check_handler_task
    from .c10 import handler_task_var

    u = c.unit(SVC, 'EventBus.execute_handler')
    t, tasg = handler_task_var(c, u)
    if t is None:
        c.ok(where(u), 'no handler task exists (the handler coroutine is awaited inline): it cannot outlive execute_handler')
        return
    check_handler_task(c, u, tasg.value, tasg.value.args[0])



@ob('C02.6', 'WMW', 'a bus has one queue for its whole life: event_queue is created once in _start() (before _is_running = True) and never replaced or reset (same invariant as C14.3): '
    'events still queued when the queue object is swapped would be lost or overtaken')
def c02_6(c: Ctx) -> None:
    from .c14 import queue_invariant

    why = queue_invariant(c)
    st = c.unit(SVC, 'EventBus._start')
    if not why:
        c.ok(where(st), 'event_queue is assigned only in __init__ (None) and once in _start()')
    for w in why:
        c.fail(st, f'queue invariant broken: {w}', 'the queue object of a bus can be replaced / dropped: events enqueued on the old object are lost or processed out of order')


@ob('C02.7', 'LOCKSET', 'per-bus order relies on mutual exclusion with the other buses\' in-handler awaits, which take events from every queue: every process_event runs under the one global '
    'lock (same obligation as C06.1) — a bus with a lock of its own has its next event started by another bus\'s inline loop while its earlier handler is still running')
def c02_7(c: Ctx) -> None:
    from .c06 import c06_1

    c06_1(c)


@ob('C02.8', 'CTX', 'the mutual exclusion per-bus order relies on is real for every bus: no task that processes events starts out believing it already holds the global lock (same obligation as '
    'C06.3) — a run loop that inherits the flag from the handler that first used the bus takes the lock without acquiring it and releases a permit it never took: from then on two '
    'holders are admitted, and another bus\'s in-handler await starts this bus\'s next event while its earlier handler is still running')
def c02_8(c: Ctx) -> None:
    from .c06 import c06_3

    c06_3(c)


@ob('C02.9', 'TYPESTATE', 'the global lock is held for as long as any of its nested holds lasts: its re-entrance counter counts every hold (same obligation as C06.8) — a re-entrant entry '
    'that resets the counter lets the inner exit release the lock in the middle of the outer event, and another bus\'s inline loop then starts this bus\'s next event while the earlier handler still runs')
def c02_9(c: Ctx) -> None:
    from .c06 import check_depth_counter

    check_depth_counter(c)


OBLIGATIONS = ob.obs
