"""C20 — @retry semaphores bound concurrency and are always released: structural necessary conditions."""

from __future__ import annotations

import ast

from .common import *  # noqa: F401,F403
from .common import HLP, SVC, AbsInt, AnalysisError, Ctx, Facts, Obj, Registry, UNKNOWN, U, Unit, call_name, eq_atom, own_nodes, own_nodes_with_lambdas, parent, q, where

ob = Registry()

ACQUIRERS = ('_acquire_asyncio_semaphore', '_acquire_multiprocess_semaphore')


def wrapper_unit(c: Ctx) -> Unit:
    return c.unit(HLP, 'retry.decorator.wrapper')


def acquire_nodes(c: Ctx, u: Unit, g):
    out = []
    for n in g.live_nodes():
        if n.kind == 'stmt' and any(call_name(x) in ACQUIRERS for x in q.node_calls(n)) and isinstance(n.ast, (ast.Assign, ast.Expr)):
            out.append(n)  # (an acquisition whose result is not bound is an acquisition all the same: nothing records whether a slot was obtained)
    return out


def is_release_stmt(n) -> bool:
    if n.kind != 'stmt' or n.ast is None:
        return False
    for x in ast.walk(n.ast):
        if isinstance(x, ast.Call) and call_name(x) == 'release' and isinstance(x.func, ast.Attribute):
            return True
        # the bound method handed to a runner that calls it: `await asyncio.to_thread(lock.release)`, `loop.run_in_executor(None, lock.release)`
        if isinstance(x, ast.Call) and call_name(x) in ('to_thread', 'run_in_executor') and any(isinstance(a, ast.Attribute) and a.attr == 'release' for a in x.args):
            return True
    return False


@ob('C20.1', 'PAIR/TYPESTATE', 'in the retry wrapper, after a successful semaphore acquisition every exit (return, exception, attempt timeouts, cancellation at any await) '
    'performs exactly one release; when nothing was acquired (lax timeout / no limit) no release is performed')
def c20_1(c: Ctx) -> None:
    u = wrapper_unit(c)
    g = c.cfg(u)
    acqs = acquire_nodes(c, u, g)
    c.floor(len(acqs), 2, 'semaphore acquisition statements in wrapper (asyncio, multiprocess)')
    lexical_rels = [n for n in own_nodes_with_lambdas(u.node) if (isinstance(n, ast.Call) and call_name(n) == 'release') or (isinstance(n, ast.Attribute) and n.attr == 'release' and isinstance(n.ctx, ast.Load))]
    c.floor(len(lexical_rels), 1, 'release calls in wrapper')
    scope_atom = eq_atom('semaphore_scope', "'multiprocess'")
    tracked = {'semaphore_acquired', 'semaphore', 'multiprocess_lock', scope_atom}
    from sa.cfg import search

    for an_ in acqs:
        if isinstance(an_.ast, ast.Expr):
            names = ['#unbound-result']
        else:
            tg = an_.ast.targets[0]
            names = [t.id for t in (tg.elts if isinstance(tg, ast.Tuple) else [tg]) if isinstance(t, ast.Name)]
        flag = names[0]
        lockvar = names[1] if len(names) > 1 else None
        for acquired in (True, False):
            def post(n, env, an_=an_, acquired=acquired, flag=flag, lockvar=lockvar):
                if n is an_:
                    env[flag] = 'T' if acquired else 'F'
                    if lockvar:
                        env[lockvar] = 'Ty' if acquired else 'N'
                    env['semaphore'] = 'Ty'
                    env['#acq'] = 'T'
                if env.get('#acq') == 'T' and is_release_stmt(n):
                    env['#rel'] = '2+' if env.get('#rel') == '1' else '1'

            facts = Facts(lambda a: a in tracked or a.isidentifier(), cg=c.cg, unit=u, post=post)  # (every plain local: the evidence of ownership may be handed from one to another)
            want = '1' if acquired else None

            def edge_ok(n, e, d, an_=an_):
                if n is an_ and e.is_exc:
                    return None  # the acquisition itself failed / was cancelled: nothing was acquired by this statement
                return facts.edge_ok(n, e, d)

            p = search([(g.entry, ())], is_target=lambda n, d: n.kind in ('exit', 'raise_exit') and d.get('#acq') == 'T' and d.get('#rel') != want,
                       edge_ok=edge_ok, transfer=facts.transfer)
            desc = 'acquired' if acquired else 'not acquired (lax timeout)'
            if p is None:
                c.ok(where(u, an_.ast), f'{call_name(an_.ast.value.value if isinstance(an_.ast.value, ast.Await) else an_.ast.value) if isinstance(getattr(an_.ast.value, "value", an_.ast.value), ast.Call) else "acquire"}: {desc} -> {"exactly one release" if acquired else "no release"} on every exit',
                     exits=len(g.raise_exits) + 1)
            else:
                cnt = dict(p[-1].env).get('#rel', '0')
                how = next((s.via for s in reversed(p) if s.via.startswith('raises')), 'normal return')
                c.fail(u, f'{flag} {desc}: exit via {how} with {cnt} releases', ('an acquired semaphore slot is never released (capacity leaks)' if cnt == '0' else 'a slot is released twice (the limit is exceeded)') if acquired
                       else 'a slot that was never acquired is released (the limit is exceeded)', node=an_.ast, witness=c.path(g.entry, p))
    # no semaphore configured: nothing is released
    facts0 = Facts(lambda a: a in tracked or a.isidentifier(), cg=c.cg, unit=u)
    p = q.reach_search(g, [(g.entry, {'semaphore_limit': 'N'})], lambda n, d: is_release_stmt(n), facts=facts0)
    if p is None:
        c.ok(where(u), 'without semaphore_limit no release is reachable')
    else:
        c.fail(u, 'release reachable although no semaphore was configured', 'release() on None / on a foreign semaphore', witness=c.path(g.entry, p))


@ob('C20.2', 'DOM', '_acquire_asyncio_semaphore returns True only after `await semaphore.acquire()`; on an acquisition timeout it raises TimeoutError unless semaphore_lax, '
    'in which case it returns False (so without lax the wrapped function is never run)')
def c20_2(c: Ctx) -> None:
    u = c.unit(HLP, '_acquire_asyncio_semaphore')
    g = c.cfg(u)
    from sa.cfg import search

    acq = {n.id for n in g.live_nodes() if q.node_has_await(n) and any(call_name(x) == 'acquire' for x in q.node_calls(n))}
    trues = [n for n in g.live_nodes() if n.kind == 'return' and isinstance(n.ast.value, ast.Constant) and n.ast.value.value is True]
    # the acquisition belongs to the calling task: `semaphore.acquire()` is awaited in place (under asyncio.timeout / wait_for), never handed to a separate
    # task or future — a detached acquisition outlives a cancelled caller, takes a slot later, and nobody ever releases it
    for call in [x for x in own_nodes(u.node) if isinstance(x, ast.Call) and call_name(x) == 'acquire' and isinstance(x.func, ast.Attribute)]:
        par = parent(call)
        wrapped = isinstance(par, ast.Call) and call_name(par) in ('ensure_future', 'create_task', 'gather', 'run_coroutine_threadsafe', 'shield')
        if isinstance(par, ast.Await) or (isinstance(par, ast.Call) and call_name(par) == 'wait_for' and isinstance(parent(par), ast.Await)):
            c.ok(where(u, call), f'`{U(call)}` is awaited by the calling task itself')
        elif wrapped:
            c.fail(u, f'`{U(par)[:70]}` detaches the acquisition from the calling task', 'a caller cancelled while queued on the semaphore leaves its acquisition running: it takes a slot later that nobody releases '
                   '(the limit shrinks by one for good)', node=call)
        else:
            c.fail(u, f'`{U(call)}` is not awaited in place', 'the acquisition coroutine is not awaited by the caller: no slot is held when the function runs', node=call)
    if not trues:
        c.fail(u, 'no `return True` after an awaited acquire', 'a successful acquisition is not reported as a definite True: the wrapper cannot tell whether it must release the semaphore')
    for rn in trues:
        p = search([(g.entry, ())], is_target=lambda n, d: n is rn, is_barrier=lambda n, d: n.id in acq)
        if p is None and acq:
            c.ok(where(u, rn.ast), '`return True` only after awaiting semaphore.acquire()')
        else:
            c.fail(u, '`return True` reachable without semaphore.acquire()', 'the wrapper believes it holds a slot it never acquired (and will release it)', node=rn.ast)
    arms = [n for n in g.live_nodes() if n.kind == 'except' and n.exc is not None and n.exc.name == 'TimeoutError']
    c.floor(len(arms), 1, 'TimeoutError arm')
    facts = Facts(lambda a: a == 'semaphore_lax', cg=c.cg, unit=u)
    for en in arms:
        arm = en.ast
        # an arm that translates the deadline's TimeoutError into another TimeoutError caught further out is part of the same handling: follow it through
        inside = {id(x) for en2 in arms for b in en2.ast.body for x in ast.walk(b)} | {id(en2.ast) for en2 in arms}
        for lax, want in ((False, 'raise'), (True, 'return False')):
            def wrong(n, d, want=want):
                if n.ast is not None and id(n.ast) in inside and n.kind != 'return':
                    return False
                if want == 'raise':
                    return not (n.kind in ('raise_exit', 'reraise') and n.exc is not None and n.exc.name == 'TimeoutError')
                return not (n.kind == 'return' and isinstance(n.ast.value, ast.Constant) and n.ast.value.value is False)

            p = q.reach_search(g, [(en, {'semaphore_lax': 'T' if lax else 'F'})], wrong, lambda n, d: n.kind in ('return', 'raise_exit'), facts=facts)
            if p is None:
                c.ok(where(u, arm), f'acquisition timeout with semaphore_lax={lax}: {want}')
            else:
                c.fail(u, f'acquisition timeout with semaphore_lax={lax} does not {want}', 'without lax the function runs although no slot was acquired' if not lax else 'with lax an acquisition timeout does not let the call proceed unthrottled as documented', node=arm, witness=c.path(en, p))
    # any other return value
    for rn in [n for n in g.live_nodes() if n.kind == 'return' and not (isinstance(n.ast.value, ast.Constant) and n.ast.value.value in (True, False))]:
        c.fail(u, f'returns {U(rn.ast.value)[:40]}', 'acquisition result is not a definite True/False', node=rn.ast)


@ob('C20.3', 'SHAPE', 'semaphore keys: global -> name, class -> "<ClassName>.name", self -> "<id(instance)>.name": scopes live in pairwise distinct namespaces, instances of one '
    'class share a class key and have distinct self keys')
def c20_3(c: Ctx) -> None:
    u = c.unit(HLP, '_get_semaphore_key')
    ps = u.params()

    def key(scope: str, inst: Obj | None, name: str | None = 'sem'):
        # hash(x) of a caller's object is whatever its class defines: equal for any two instances that compare equal (value objects), so not a name for the instance
        ai = AbsInt(calls={'hash': lambda v=None, *a: (f'<hash of some {v.cls}>' if isinstance(v, Obj) else UNKNOWN)})
        env = {ps[0]: 'func', ps[1]: name, ps[2]: scope, ps[3]: (inst,) if inst is not None else ()}
        ai.run(u.node.body, env)
        if not ai.returns or any(r is UNKNOWN for r in ai.returns):
            raise AnalysisError(f'_get_semaphore_key undecided for scope {scope}')
        return ai.returns[-1]

    a1, a2, b1 = Obj('Alpha', 'a1'), Obj('Alpha', 'a2'), Obj('Beta', 'b1')
    checks = [
        ('global key ignores the instance', key('global', a1) == key('global', b1) == 'sem'),
        ('class keys of one class are equal', key('class', a1) == key('class', a2)),
        ('class keys of different classes differ', key('class', a1) != key('class', b1)),
        ('self keys of two instances differ', key('self', a1) != key('self', a2)),
        ('class key differs from global key', key('class', a1) != key('global', a1)),
        ('self key differs from class and global keys', key('self', a1) not in (key('class', a1), key('global', a1))),
        ('key contains the semaphore name', all('sem' in str(key(s, a1)) for s in ('global', 'class', 'self'))),
        ('name defaults to the function name', key('global', a1, None) == 'func'),
    ]
    for desc, okv in checks:
        if okv:
            c.ok(where(u), desc)
        else:
            c.fail(u, f'key scheme: NOT ({desc})', f'semaphore scopes collide or split wrongly: {desc} does not hold')


@ob('C20.4', 'SHAPE/DOM', 'the registry get-or-creates asyncio.Semaphore(semaphore_limit) per key under the registry lock')
def c20_4(c: Ctx) -> None:
    u = c.unit(HLP, '_get_or_create_semaphore')
    g = c.cfg(u)
    ctors = [n for n in own_nodes(u.node) if isinstance(n, ast.Call) and U(n.func) == 'asyncio.Semaphore']
    c.floor(len(ctors), 1, 'asyncio.Semaphore(...) constructions')
    for k in ctors:
        if len(k.args) == 1 and U(k.args[0]) == 'semaphore_limit':
            c.ok(where(u, k), 'asyncio.Semaphore(semaphore_limit)')
        else:
            c.fail(u, f'semaphore created as {U(k)}', 'the concurrency bound is not the configured semaphore_limit', node=k)
        st = q.stmt_of(k)
        subs = [t for t in st.targets if isinstance(t, ast.Subscript)] if isinstance(st, ast.Assign) else []
        if not subs and isinstance(st, ast.Assign) and len(st.targets) == 1 and isinstance(st.targets[0], ast.Name):
            # `fresh = Semaphore(n)` / `REG[key] = fresh`: the store that follows in the same block files the new semaphore
            blk = q.block_of(st) or []
            i0 = next((i for i, x in enumerate(blk) if x is st), None)
            nm0 = st.targets[0].id
            for s2 in (blk[i0 + 1:] if i0 is not None else []):
                if isinstance(s2, ast.Assign) and isinstance(s2.value, ast.Name) and s2.value.id == nm0 and any(isinstance(t, ast.Subscript) for t in s2.targets):
                    subs = [t for t in s2.targets if isinstance(t, ast.Subscript)]
                    break
                if any(isinstance(x, ast.Name) and x.id == nm0 and isinstance(x.ctx, ast.Store) for x in ast.walk(s2)):
                    break
        if not subs:
            c.fail(u, f'semaphore not stored in the registry: {q.stmt_text(st, 60)}', 'every call gets a fresh semaphore: no bound at all', node=st)
            continue
        reg, keyv = U(subs[0].value), U(subs[0].slice)
        # locals that hold the registered semaphore: `x = REG.get(key)` / `x = REG[key]` / the chained store `x = REG[key] = Semaphore(..)`
        holders = {t.id for t in st.targets if isinstance(t, ast.Name)}
        lookups_ = set()
        for n_ in own_nodes(u.node):
            if isinstance(n_, ast.Assign) and len(n_.targets) == 1 and isinstance(n_.targets[0], ast.Name):
                v_ = n_.value
                if U(v_) == f'{reg}[{keyv}]' or (isinstance(v_, ast.Call) and call_name(v_) == 'get' and isinstance(v_.func, ast.Attribute) and U(v_.func.value) == reg and v_.args and U(v_.args[0]) == keyv and len(v_.args) == 1):
                    lookups_.add(n_.targets[0].id)
        w = q.enclosing(st, (ast.With,))
        if w is not None and any('LOCK' in U(it.context_expr).upper() for it in w.items):
            c.ok(where(u, st), f'creation under `with {U(w.items[0].context_expr)}`')
        else:
            c.fail(u, 'semaphore created outside the registry lock', 'two threads can create two semaphores for one key', node=st)
        atom = f'{keyv} in {reg}'
        facts = Facts(lambda a: a == atom, cg=c.cg, unit=u)
        # creation only when absent (a loop-binding check may be OR-ed in: then the guard is a disjunction containing `key not in reg`)
        gi = q.enclosing(st, (ast.If,))
        disj = [U(v) for v in (gi.test.values if gi is not None and isinstance(gi.test, ast.BoolOp) and isinstance(gi.test.op, ast.Or) else ([gi.test] if gi is not None else []))]
        # guard-clause form: `cached = REG.get(key)` / `if cached is not None and <it is bound to this loop>: return cached` / create.  The creation is then reached only
        # when there is no entry (or the entry belongs to another event loop): decided on the CFG — no path reaches the creation with the early-return test true
        early = None
        blk_ = q.block_of(st) or []
        i_st = next((i for i, x in enumerate(blk_) if x is st), 0)
        for if_ in [x for x in blk_[:i_st] if isinstance(x, ast.If)]:
            if not if_.body or not isinstance(if_.body[0], ast.Return) or if_.body[0].value is None or if_.orelse:
                continue
            conj_ = if_.test.values if isinstance(if_.test, ast.BoolOp) and isinstance(if_.test.op, ast.And) else [if_.test]
            pres = [x for x in conj_ if U(x) in {f'{y} is not None' for y in lookups_} | {f'{keyv} in {reg}'} | set(lookups_)]
            rest_ = [x for x in conj_ if x not in pres]
            if pres and all('loop' in U(x).lower() for x in rest_) and (U(if_.body[0].value) in lookups_ or U(if_.body[0].value) == f'{reg}[{keyv}]'):
                early = if_
        if early is not None:
            tatom = U(early.test)
            f_e = Facts(lambda a: a == tatom or a in lookups_, cg=c.cg, unit=u)
            cre = g.nodes_of(st)
            # (a site the fault model cannot reach — a fallback after an error of a third-party constructor — has no CFG nodes: the guard clause stands right before it in its block)
            if all(q.guard_search(g, n_, f'not ({tatom})', f_e) is None for n_ in cre):
                c.ok(where(u, st), f'created only after the early return `if {tatom}: return <the entry>` was not taken: no entry for the key (or one that belongs to another event loop)')
                holders |= {st.targets[0].id} if isinstance(st, ast.Assign) and len(st.targets) == 1 and isinstance(st.targets[0], ast.Name) else set()
            else:
                c.fail(u, f'semaphore creation reachable although `{tatom}`', 'an existing semaphore is replaced: waiters on the old one are not counted against the limit', node=st)
        elif f'{keyv} not in {reg}' in disj or any(d == f'{x} is None' for d in disj for x in lookups_):
            c.ok(where(u, st), f'created only when `{keyv} not in {reg}`' + (' (or the cached one belongs to another event loop)' if len(disj) > 1 else ''))
        else:
            c.fail(u, f'semaphore creation not guarded by `{keyv} not in {reg}`', 'an existing semaphore is replaced: waiters on the old one are not counted against the limit', node=st)
        rets = [n for n in own_nodes(u.node) if isinstance(n, ast.Return) and n.value is not None and q.lexically_in(n, w) if w is not None]
        def is_registered(v: ast.AST) -> bool:
            if U(v) == f'{reg}[{keyv}]':
                return True
            if isinstance(v, ast.Name) and v.id in (holders | lookups_):
                # every binding of the local is the registry entry (looked up, or just stored)
                binds = [n_ for n_ in own_nodes(u.node) if isinstance(n_, ast.Assign) and any(isinstance(t, ast.Name) and t.id == v.id for t in n_.targets)]
                if len(binds) == 1 and binds[0] is st and any(isinstance(n_, ast.Assign) and isinstance(n_.value, ast.Name) and n_.value.id == v.id and any(isinstance(t, ast.Subscript) and U(t.value) == reg and U(t.slice) == keyv for t in n_.targets) for n_ in own_nodes(u.node)):
                    return True  # `fresh = Semaphore(n)` / `REG[key] = fresh` / `return fresh`
                return bool(binds) and all(any(isinstance(t, ast.Subscript) and U(t.value) == reg for t in b.targets) or (len(b.targets) == 1 and (U(b.value) == f'{reg}[{keyv}]' or (isinstance(b.value, ast.Call) and call_name(b.value) == 'get' and U(b.value.func.value) == reg))) for b in binds)
            return False

        if rets and all(is_registered(r.value) for r in rets):
            c.ok(where(u, rets[0]), f'returns the entry of {reg}[{keyv}]')
        else:
            c.fail(u, f'returns {[U(r.value)[:40] for r in rets]}', 'the returned semaphore is not the registered one', node=st)


@ob('C20.6', 'WMW', 'a registered semaphore is never removed from / replaced in the registry except by the get-or-create itself: a holder of a discarded semaphore object would '
    'no longer be counted against the limit')
def c20_6(c: Ctx) -> None:
    owner = c.unit(HLP, '_get_or_create_semaphore')
    ws = [w for w in c.cg.all_writes('GLOBAL_RETRY_SEMAPHORES') if w.unit.module in (HLP, SVC)]
    c.floor(len(ws), 1, 'writes of GLOBAL_RETRY_SEMAPHORES')
    mi = c.prog.module(HLP)
    for n in ast.walk(mi.tree):
        if isinstance(n, (ast.Delete,)) and c.prog.unit_of(n) is None and 'GLOBAL_RETRY_SEMAPHORES' in U(n):
            c.fail('bubus/helpers.py <module>', f'module-level {U(n)[:60]}', 'registry entries are deleted at import time')
    for w in ws:
        if w.unit.key == owner.key and w.how == 'subscript' and isinstance(w.node, ast.Assign):
            c.ok(where(owner, w.node), 'registry written only by get-or-create')
        else:
            c.fail(w.unit, f'registry mutated ({w.how}): {U(w.node)[:70]}', f'a registered semaphore is dropped / replaced in {w.unit.qualname}: calls still holding the old object are no longer counted, so more than semaphore_limit executions overlap', node=w.node)


LOOP_BOUND = ('asyncio.Semaphore', 'asyncio.Event', 'asyncio.Lock', 'asyncio.Condition', 'asyncio.Queue', 'asyncio.Future')


def _compares_with_running_loop(u: Unit, x: ast.AST) -> bool:
    """`<remembered loop> is not / != <running loop>` (either order): one operand is asyncio.get_running_loop() or a local bound to it, the other is not."""
    if not (isinstance(x, ast.Compare) and len(x.ops) == 1 and isinstance(x.ops[0], (ast.IsNot, ast.NotEq, ast.Is, ast.Eq))):
        return False
    running = {n.targets[0].id for n in own_nodes(u.node) if isinstance(n, ast.Assign) and isinstance(n.targets[0], ast.Name) and isinstance(n.value, ast.Call)
               and call_name(n.value) in ('get_running_loop', 'get_event_loop')}

    def is_running(e: ast.AST) -> bool:
        return (isinstance(e, ast.Call) and call_name(e) in ('get_running_loop', 'get_event_loop')) or (isinstance(e, ast.Name) and e.id in running)

    a, b = x.left, x.comparators[0]
    return is_running(a) != is_running(b) and not any(isinstance(o, ast.Constant) for o in (a, b))


@ob('C20.5', 'SIB', 'a loop-bound asyncio primitive cached in a module-level container must be validated against the running event loop when it is retrieved (as '
    'ReentrantLock._get_semaphore does); otherwise every contended use in a later event loop fails')
def c20_5(c: Ctx) -> None:
    mi = c.prog.module(HLP)
    sib = c.unit(SVC, 'ReentrantLock._get_semaphore')
    sib_ok = any(isinstance(n, ast.Call) and call_name(n) == 'get_running_loop' for n in own_nodes(sib.node)) and any(isinstance(n, ast.Compare) and '_loop' in U(n) for n in own_nodes(sib.node))
    if sib_ok:
        c.ok(where(sib), 'reference sibling: ReentrantLock._get_semaphore re-creates its semaphore when the running loop changed')
    else:
        c.fail(sib, 'ReentrantLock._get_semaphore no longer validates the running loop', 'the global lock semaphore is bound to the first event loop: every later loop (each asyncio.run) deadlocks or raises on contention')
    n_sites = 0
    for u in [x for x in c.prog.units.values() if x.module in (HLP, SVC)]:
        stores = []
        for n in own_nodes(u.node):
            if isinstance(n, ast.Assign) and isinstance(n.value, ast.Call) and U(n.value.func) in LOOP_BOUND:
                sub = next((t for t in n.targets if isinstance(t, ast.Subscript) and isinstance(t.value, ast.Name)
                            and (t.value.id in mi.globals_assign or t.value.id in mi.globals_ann or t.value.id.isupper())), None)
                if sub is not None:
                    n._store_sub = sub  # type: ignore[attr-defined]
                    stores.append(n)
        by_container: dict[str, list] = {}
        for s in stores:
            by_container.setdefault(s._store_sub.value.id, []).append(s)
        for cont, ss in by_container.items():
            n_sites += 1
            has_loop = any(isinstance(n, ast.Call) and call_name(n) in ('get_running_loop', 'get_event_loop') for n in own_nodes(u.node))
            unchecked = []
            for s_ in ss:
                gi = q.enclosing(s_, (ast.If,))
                # the (re)creation guard must include a comparison of the remembered loop with the running loop
                if not (has_loop and gi is not None and any(_compares_with_running_loop(u, x) for x in ast.walk(gi.test))):
                    unchecked.append(s_)
                    continue
                # ... and the loop that is remembered for the entry is brought up to date together with the entry (otherwise the comparison fails for ever after the first
                # replacement and every call creates another semaphore)
                running = {n.targets[0].id for n in own_nodes(u.node) if isinstance(n, ast.Assign) and isinstance(n.targets[0], ast.Name) and isinstance(n.value, ast.Call) and call_name(n.value) in ('get_running_loop', 'get_event_loop')}
                upd = [x for b in gi.body for x in ast.walk(b) if isinstance(x, ast.Assign) and any(isinstance(t, ast.Subscript) and isinstance(t.value, ast.Name) and t.value.id != cont for t in x.targets)
                       and ((isinstance(x.value, ast.Name) and x.value.id in running) or (isinstance(x.value, ast.Call) and call_name(x.value) in ('get_running_loop', 'get_event_loop')))]
                if upd:
                    c.ok(where(u, upd[0]), f'the remembered loop is updated together with the entry: {q.stmt_text(upd[0], 60)}')
                else:
                    c.fail(u, f'the loop remembered for {cont}[{U(s_._store_sub.slice)}] is not updated when the entry is (re)created', 'after the first replacement the remembered loop never matches the running loop again: '
                           'every call creates and registers a fresh semaphore, so nothing is bounded any more', node=s_)
            prim = U(ss[0].value.func)
            if not unchecked:
                c.ok(where(u, ss[0]), f'{prim} cached in {cont} is validated against the running loop ({len(ss)} creation sites)')
            else:
                keys = sorted({U(x._store_sub.slice) for x in unchecked})
                c.fail(u, f'{prim} cached in {cont}[{", ".join(keys)}] without loop check', 'a semaphore first contended in one event loop makes every contended call in a later loop fail with "bound to a different event loop"', node=ss[0],
                       witness=[f'{where(u, s)}: {q.stmt_text(s, 90)}' for s in ss] + [f'sibling {where(sib)} compares the stored loop with asyncio.get_running_loop()'])
    if n_sites == 0:
        c.ok('bubus/helpers.py', 'no loop-bound primitive is cached in a module-level container')


@ob('C20.7', 'MPT', 'when a semaphore is configured (`semaphore_limit is not None`) the wrapped function is reached only through an acquisition attempt (_acquire_asyncio_semaphore / '
    '_acquire_multiprocess_semaphore): no path skips it — in particular not on the strength of task-inherited state (a ContextVar copied into child tasks says nothing about who holds a slot)')
def c20_7(c: Ctx) -> None:
    w = c.unit(HLP, 'retry.decorator.wrapper')
    g = c.cfg(w)
    runs = [n for n in g.live_nodes() if q.node_calls(n, '_execute_with_retries')]
    c.floor(len(runs), 1, 'calls of _execute_with_retries in wrapper')
    acq = {n.id for n in g.live_nodes() if any(call_name(x) in ('_acquire_asyncio_semaphore', '_acquire_multiprocess_semaphore') for x in q.node_calls(n))}
    if not acq:
        c.fail(w, 'wrapper never calls an acquisition helper', 'the concurrency limit is not enforced at all')
        return
    atom = 'semaphore_limit'
    facts = Facts(lambda a: a == atom, cg=c.cg, unit=w)
    for rn in runs:
        p = q.reach_search(g, [(g.entry, {})], lambda n, d, rn=rn: n is rn and d.get(atom) != 'N', lambda n, d: n.id in acq, facts, exc_ok=lambda e: False)
        if p is None:
            c.ok(where(w, rn.ast), 'the wrapped function runs only after an acquisition attempt, or with no semaphore configured (semaphore_limit is None)')
        else:
            c.fail(w, 'the wrapped function is reachable with a semaphore configured but without an acquisition attempt', 'calls can run outside the concurrency limit: a path skips the semaphore '
                   '(if it relies on inherited per-task state, every child task of a holder runs unthrottled)', node=rn.ast, witness=c.path(g.entry, p))


OBLIGATIONS = ob.obs
