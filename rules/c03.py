"""C03 — awaiting an event returns iff its whole handler/descendant tree is done: structural necessary conditions."""

from __future__ import annotations

import ast

from .common import *  # noqa: F401,F403
from .common import (
    SVC, MOD, AnalysisError, AnchorError, Ctx, Facts, Registry, U, Unit, await_coro, call_name, eq_atom, own_nodes, parent, q, where, walk_own,
)  # fmt: skip

ob = Registry()

MARK = 'event_mark_complete_if_all_handlers_completed'
SIGNAL_NAMES = ('event_completed_signal', '_event_completed_signal')


def signal_calls(c: Ctx, method: str) -> list[tuple[Unit, ast.Call]]:
    """`<...>.event_completed_signal.<method>()` anywhere in the library (incl. local aliases of the signal)."""
    out = []
    for u in c.prog.units.values():
        if u.module == 'bubus/logging.py':
            continue
        aliases = set()
        for n in own_nodes(u.node):
            if isinstance(n, ast.Assign) and isinstance(n.value, ast.Attribute) and n.value.attr in SIGNAL_NAMES:
                aliases |= {t.id for t in n.targets if isinstance(t, ast.Name)}
        for n in own_nodes(u.node):
            if isinstance(n, ast.Call) and isinstance(n.func, ast.Attribute) and n.func.attr == method:
                r = n.func.value
                if (isinstance(r, ast.Attribute) and r.attr in SIGNAL_NAMES) or (isinstance(r, ast.Name) and r.id in aliases):
                    out.append((u, n))
    return sorted(out, key=lambda x: (x[0].module, x[1].lineno))


def _single_pass_all_terminal(fn: ast.AST):
    """`for r in X.event_results.values(): if <r not terminal>: return None ...` is `if not all(<r terminal> for r in ...): return None` followed by the rest of the pass.
    Returns (the equivalent all(...) call, the loop) or None."""
    for lp in [n for n in own_nodes(fn) if isinstance(n, ast.For) and isinstance(n.target, ast.Name) and isinstance(n.iter, ast.Call) and U(n.iter.func).endswith('event_results.values')]:
        first = lp.body[0] if lp.body else None
        if not (isinstance(first, ast.If) and not first.orelse and len(first.body) == 1 and isinstance(first.body[0], ast.Return)
                and (first.body[0].value is None or (isinstance(first.body[0].value, ast.Constant) and first.body[0].value.value is None))):
            continue
        t = first.test
        pos = None
        if isinstance(t, ast.UnaryOp) and isinstance(t.op, ast.Not):
            pos = t.operand
        elif isinstance(t, ast.Compare) and len(t.ops) == 1 and isinstance(t.ops[0], ast.NotIn):
            pos = ast.Compare(left=t.left, ops=[ast.In()], comparators=t.comparators)
        if pos is None:
            continue
        gen = ast.GeneratorExp(elt=pos, generators=[ast.comprehension(target=lp.target, iter=lp.iter, ifs=[], is_async=0)])
        call = ast.fix_missing_locations(ast.copy_location(ast.Call(func=ast.Name(id='all', ctx=ast.Load()), args=[gen], keywords=[]), lp))
        return call, lp
    return None


def all_terminal_shape(e: ast.AST) -> tuple[bool, str]:
    """`all(<r>.status in ('completed', 'error') for <r> in <X>.event_results.values())`"""
    if not (isinstance(e, ast.Call) and isinstance(e.func, ast.Name) and e.func.id == 'all' and len(e.args) == 1):
        return False, 'not a call of builtin all()'
    ge = e.args[0]
    if not isinstance(ge, (ast.GeneratorExp, ast.ListComp)) or len(ge.generators) != 1:
        return False, 'argument is not a single-generator comprehension'
    gen = ge.generators[0]
    if gen.ifs:
        return False, 'comprehension filters results'
    if not (isinstance(gen.iter, ast.Call) and U(gen.iter.func).endswith('event_results.values')):
        return False, f'iterates {U(gen.iter)} instead of every value of event_results'
    elt = ge.elt
    if not (isinstance(elt, ast.Compare) and len(elt.ops) == 1 and isinstance(elt.ops[0], ast.In) and isinstance(elt.left, ast.Attribute) and elt.left.attr == 'status'
            and isinstance(elt.left.value, ast.Name) and isinstance(gen.target, ast.Name) and elt.left.value.id == gen.target.id):
        return False, f'element test is {U(elt)}'
    comp = elt.comparators[0]
    if not isinstance(comp, (ast.Tuple, ast.List, ast.Set)):
        return False, 'membership set is not a literal'
    vals = {x.value for x in comp.elts if isinstance(x, ast.Constant)}
    if vals != {'completed', 'error'} or len(vals) != len(comp.elts):
        return False, f'terminal set is {sorted(map(str, vals))}'
    return True, ''


@ob('C03.1', 'WMW/DOM/SHAPE', 'the completion signal is set only in event_mark_complete_if_all_handlers_completed, only when there are no results or (all results are in '
    "{completed,error} and all descendants are complete); the 'all terminal' predicate and its sibling in event_completed_at agree; the signal is never cleared; "
    'event_are_all_children_complete returns True only after checking every child recursively; event_children concatenates the children of all results')
def c03_1(c: Ctx) -> None:
    sets = signal_calls(c, 'set')
    owner = c.unit(MOD, f'BaseEvent.{MARK}')
    owners = c.cg.owners_closure({owner.key})
    kept = getattr(c.prog, 'folded_kept', set())
    for u, call in sets:
        if u.key in kept and u.key not in owners:
            # a new public method whose library call sites were all folded into their callers: its write is judged at those sites (the copies are among `sets` too)
            c.ok(where(u, call), f'{u.qualname} (new, folded into every library call site): judged where it is used')
            continue
        if u.key not in owners:
            c.fail(u, f'sets the completion signal: {U(call)}', f'the completion signal is set outside {MARK} (in {u.qualname}), bypassing the all-handlers/all-children test', node=call)
    # who may ask for the evaluation: an event with no results yet counts as complete ("no handlers matched"), so the evaluation is only meaningful once the
    # event has been processed by a bus — i.e. from process_event (the event itself and its ancestors) and from _execute_handlers (the no-handler shortcut)
    eval_owners = c.cg.owners_closure({c.unit(SVC, 'EventBus.process_event').key, c.unit(SVC, 'EventBus._execute_handlers').key, owner.key})
    for cu, ccall in c.cg.callers(owner):
        if cu.key in eval_owners:
            c.ok(where(cu, ccall), f'{MARK} called from {cu.qualname} (after processing)')
            continue
        # elsewhere the evaluation is sound only for an event that has results (its processing has begun): the "no results = complete" reading cannot apply then
        recv = U(ccall.func.value) if isinstance(ccall.func, ast.Attribute) else None
        guarded = False
        if recv is not None:
            gcu = c.cfg(cu)
            atom_r = f'{recv}.event_results'
            fr = Facts(lambda a: a == atom_r, cg=c.cg, unit=cu)
            nodes_ = gcu.nodes_of(q.stmt_of(ccall))
            guarded = bool(nodes_) and all(q.guard_search(gcu, n_, atom_r, fr) is None for n_ in nodes_)
        if guarded:
            c.ok(where(cu, ccall), f'{MARK} called from {cu.qualname} only for an event that has results (processing has begun)')
        else:
            c.fail(cu, f'calls {MARK}: {q.stmt_text(q.stmt_of(ccall), 70)}', f'completion is evaluated from {cu.qualname}, outside event processing: an event that is still queued (or was just withdrawn) has no results and is '
                   'signalled complete — and is processed afterwards all the same, or its ancestors are never re-evaluated', node=ccall)
    own_sets = [call for u, call in sets if u.key == owner.key]
    g = c.cfg(owner)
    self_ = owner.params()[0]
    children_atom = f'{self_}.event_are_all_children_complete()'
    # the local holding the all-terminal predicate
    pred_locals = {}
    negated_locals: set[str] = set()
    for n in own_nodes(owner.node):
        if isinstance(n, ast.Assign) and len(n.targets) == 1 and isinstance(n.targets[0], ast.Name) and isinstance(n.value, ast.Call) and U(n.value.func) in ('all', 'any'):
            pred_locals[n.targets[0].id] = n
        elif isinstance(n, ast.Assign) and len(n.targets) == 1 and isinstance(n.targets[0], ast.Name) and isinstance(n.value, ast.UnaryOp) and isinstance(n.value.op, ast.Not) \
                and isinstance(n.value.operand, ast.Call) and U(n.value.operand.func) in ('all', 'any'):
            pred_locals[n.targets[0].id] = n  # a local that holds the negation ("some handler unfinished")
            negated_locals.add(n.targets[0].id)
    # the predicate may also be tested where it is computed (`if not all(...): return`): the call's text is the atom then
    inline_preds = [n for n in own_nodes(owner.node) if isinstance(n, ast.Call) and isinstance(n.func, ast.Name) and n.func.id in ('all', 'any') and not any(a.value is n or (isinstance(a.value, ast.UnaryOp) and a.value.operand is n) for a in pred_locals.values())]
    for n in inline_preds:
        pred_locals.setdefault(U(n), n)
    pred_locals = {k: v for i, (k, v) in enumerate(pred_locals.items()) if k not in list(pred_locals)[:i]}
    atoms = {f'{self_}.event_results', children_atom} | set(pred_locals)
    facts = Facts(lambda a: a in atoms, cg=c.cg, unit=owner, ignore_writes={'event_processed_at'}, rhs_value=lambda v: None)
    guard = f'(not {self_}.event_results) or (({" and ".join((f"(not {x})" if x in negated_locals else f"({x})") for x in sorted(pred_locals)) or "False"}) and {children_atom})'
    for call in own_sets:
        st = q.stmt_of(call)
        for n in g.nodes_of(st):
            p = q.guard_search(g, n, guard, facts)
            if p is None:
                c.ok(where(owner, call), 'signal.set() only under: no results, or all results terminal and all children complete')
            else:
                c.fail(owner, 'completion signal set without (no results) or (all results terminal and all children complete)', 'an event can be marked complete while a handler result is not terminal or a descendant is incomplete', node=call, witness=c.path(g.entry, p))
    # predicate shape + sibling
    if len(pred_locals) != 1:
        c.fail(owner, f'{len(pred_locals)} all()/any() predicates over the results', 'the "all handlers done" predicate is missing or duplicated')
    for name, asg in pred_locals.items():
        pv = asg.value if isinstance(asg, ast.Assign) else asg
        ok, why = all_terminal_shape(pv.operand if name in negated_locals else pv)
        if ok:
            c.ok(where(owner, asg), f"`{name}` = all(status in ('completed','error')) over every result")
        else:
            c.fail(owner, f'all-terminal predicate: {U(asg.value)[:100]}', f'the "all handler results terminal" predicate is wrong ({why})', node=asg)
    sib = c.unit(MOD, 'BaseEvent.event_completed_at')
    sib_preds = [n for n in own_nodes(sib.node) if isinstance(n, ast.Call) and isinstance(n.func, ast.Name) and n.func.id in ('all', 'any')]
    single_pass = _single_pass_all_terminal(sib.node) if not sib_preds else None
    if single_pass is not None:
        ok, why = all_terminal_shape(single_pass[0])
        loop = single_pass[1]
        late = [x for x in own_nodes(sib.node) if isinstance(x, ast.Return) and x.value is not None and not (isinstance(x.value, ast.Constant) and x.value.value is None)
                and (q.lexically_in(x, loop) or x.lineno < loop.lineno) and not (x.lineno < loop.lineno and q.enclosing(x, (ast.If,)) is not None and 'event_results' in U(q.enclosing(x, (ast.If,)).test))]
        if ok and not late and not any(isinstance(x, ast.Break) for x in ast.walk(loop)):
            c.ok(where(sib, loop), 'sibling predicate in event_completed_at agrees (written as one pass over the results that returns None at the first result that is not terminal; a timestamp is returned only after the pass)')
        else:
            c.fail(sib, f'sibling all-terminal pass: {U(loop.body[0])[:100]}', f'event_completed_at (which event_status and the children test read) uses a different "all terminal" predicate ({why or "a timestamp can be returned before every result was looked at"})', node=loop)
    elif len(sib_preds) != 1:
        c.fail(sib, f'{len(sib_preds)} all()/any() predicates', 'event_completed_at (read by event_status and the children test) has no single all-terminal predicate')
    for pr in sib_preds:
        ok, why = all_terminal_shape(pr)
        if ok:
            c.ok(where(sib, pr), 'sibling predicate in event_completed_at agrees')
        else:
            c.fail(sib, f'sibling all-terminal predicate: {U(pr)[:100]}', f'event_completed_at (which event_status and the children test read) uses a different "all terminal" predicate ({why})', node=pr)
    # it must gate the completed timestamp: a `return None` under `not <pred>`
    gs = c.cfg(sib)
    pl = [n for n in own_nodes(sib.node) if isinstance(n, ast.Assign) and isinstance(n.value, ast.Call) and U(n.value.func) == 'all']
    if pl and isinstance(pl[0].targets[0], ast.Name):
        nm = pl[0].targets[0].id
        f2 = Facts(lambda a: a == nm, cg=c.cg, unit=sib)
        bad = None
        rets = [x for x in gs.live_nodes() if x.kind == 'return' and x.ast.lineno > pl[0].lineno and not (isinstance(x.ast.value, ast.Constant) and x.ast.value.value is None)]
        for rn in rets:
            p = q.guard_search(gs, rn, nm, f2)
            if p is not None:
                bad = (rn, p)
        if bad is None:
            c.ok(where(sib), f'event_completed_at returns a timestamp only when `{nm}` holds')
        else:
            c.fail(sib, 'returns a completion time although not all results are terminal', 'event_completed_at can report completion while a handler result is not terminal', node=bad[0].ast, witness=c.path(gs.entry, bad[1]))
    # monotone
    clears = signal_calls(c, 'clear')
    if not clears:
        c.ok('bubus/*.py', 'no .clear() of an event completion signal anywhere (monotone)')
    for u, call in clears:
        c.fail(u, f'clears the completion signal: {U(call)}', 'a completed event can become incomplete again', node=call)
    reassign = [w for w in c.cg.all_writes('_event_completed_signal') if w.how == 'assign' and w.unit.qualname != 'BaseEvent.event_completed_signal']
    for w in reassign:
        c.fail(w.unit, f'reassigns _event_completed_signal: {U(w.node)[:80]}', 'the completion signal object is replaced (waiters on the old one are lost)', node=w.node)
    # inside the property the signal object is created at most once: only while none exists yet (a second Event would start unset and lose the completion)
    prop = c.unit(MOD, 'BaseEvent.event_completed_signal')
    inner = [w for w in c.cg.all_writes('_event_completed_signal') if w.how == 'assign' and w.unit.key == prop.key]
    if inner:
        gp = c.cfg(prop)
        self_p = prop.params()[0]
        src = f'{self_p}._event_completed_signal'
        aliases = [src] + [n.targets[0].id for n in own_nodes(prop.node) if isinstance(n, ast.Assign) and len(n.targets) == 1 and isinstance(n.targets[0], ast.Name) and U(n.value) == src]
        fp = Facts(lambda a: a in aliases, cg=c.cg, unit=prop)
        for w in inner:
            stw = q.stmt_of(w.node)
            worst = None
            for n in gp.nodes_of(stw):
                ps = [q.guard_search(gp, n, f'{a} is None', fp) for a in aliases]
                if all(p is not None for p in ps):
                    worst = ps[0]
            if worst is None:
                c.ok(where(prop, w.node), 'the completion signal is created only while the event has none (`is None`)')
            else:
                c.fail(prop, f'`{q.stmt_text(stw, 70)}` can replace an existing completion signal', 'the completion signal of an event can be replaced by a fresh, unset asyncio.Event: a completed event stops being signalled complete '
                       '(await blocks again) and waiters on the old object are lost', node=w.node, witness=c.path(gp.entry, worst))
    # children predicate
    check_children_predicate(c)
    # event_children concatenation
    ec = c.unit(MOD, 'BaseEvent.event_children')
    loops = [n for n in own_nodes(ec.node) if isinstance(n, ast.For)]
    rets = [n for n in own_nodes(ec.node) if isinstance(n, ast.Return)]
    good = False
    if len(loops) == 1 and len(rets) == 1 and U(loops[0].iter).endswith('event_results.values()') and isinstance(loops[0].target, ast.Name):
        body = loops[0].body
        if len(body) == 1 and isinstance(body[0], ast.Expr) and isinstance(body[0].value, ast.Call) and call_name(body[0].value) == 'extend':
            ext = body[0].value
            if U(ext.func.value) == U(rets[0].value) and U(ext.args[0]) == f'{loops[0].target.id}.event_children':
                good = True
    elif len(rets) == 1 and isinstance(rets[0].value, ast.ListComp):
        lc = rets[0].value
        if len(lc.generators) == 2 and not any(g_.ifs for g_ in lc.generators) and U(lc.generators[0].iter).endswith('event_results.values()'):
            good = U(lc.generators[1].iter) == f'{U(lc.generators[0].target)}.event_children' and U(lc.elt) == U(lc.generators[1].target)
    if good:
        c.ok(where(ec), 'event_children = concatenation of event_children of every result')
    else:
        c.fail(ec, 'event_children is not the concatenation of all results\' children', 'event_children skips some handler results: their child events are invisible to the completion test')


def check_children_predicate(c: Ctx) -> None:
    u = c.unit(MOD, 'BaseEvent.event_are_all_children_complete')
    g = c.cfg(u)
    loops = [n for n in own_nodes(u.node) if isinstance(n, ast.For) and 'event_children' in U(n.iter)]
    if len(loops) != 1 or not isinstance(loops[0].target, ast.Name):
        c.fail(u, 'no single loop over self.event_children', 'event_are_all_children_complete does not iterate the children')
        return
    loop = loops[0]
    if U(loop.iter) != f'{u.params()[0]}.event_children':
        c.fail(u, f'loop iterates {U(loop.iter)}', 'event_are_all_children_complete iterates a subset of the children', node=loop)
    var = loop.target.id
    head = g.nodes_of(loop, ('for',))[0]
    status_atom = eq_atom(f'{var}.event_status', "'completed'")
    rec_calls = [n for n in ast.walk(loop) if isinstance(n, ast.Call) and call_name(n) == u.name and isinstance(n.func, ast.Attribute) and U(n.func.value) == var]
    if not rec_calls:
        c.fail(u, 'no recursive check of the child\'s own children', 'grandchildren are not checked: a parent can complete before its descendants', node=loop)
        return
    rec_atom = U(rec_calls[0])
    facts = Facts(lambda a: a in (status_atom, rec_atom), cg=c.cg, unit=u)
    from sa.cfg import search

    p = search([(head, ())],
               is_target=lambda n, d: n is head and not (d.get(status_atom) in ('T', 'Ty') and d.get(rec_atom) in ('T', 'Ty')),
               is_barrier=lambda n, d: n is head,
               edge_ok=lambda n, e, d: None if (e.is_exc or (n is head and e.label != 'iter')) else facts.edge_ok(n, e, d), transfer=facts.transfer)
    if p is None:
        c.ok(where(u, loop), f"an iteration continues only if {var}.event_status == 'completed' and {rec_atom}")
    else:
        c.fail(u, 'loop continues past a child that is not known complete (status and recursive check)', 'a child that is not complete (or whose descendants are not) does not make the test fail', node=loop, witness=c.path(head, p))
    # return True only after the loop finished, or on the cycle guard
    for rn in [x for x in g.live_nodes() if x.kind == 'return' and isinstance(x.ast.value, ast.Constant) and x.ast.value.value is True]:
        before_loop = rn.ast.lineno < loop.lineno
        in_loop = q.lexically_in(rn.ast, loop, 'body')
        if in_loop:
            c.fail(u, 'return True inside the loop over the children', 'the children test succeeds before all children were looked at', node=rn.ast)
        elif before_loop:
            guard = q.enclosing(rn.ast, (ast.If,))
            if guard is not None and isinstance(guard.test, ast.Compare) and isinstance(guard.test.ops[0], ast.In) and 'event_id' in U(guard.test.left):
                c.ok(where(u, rn.ast), 'early `return True` only on the visited-set cycle guard')
            else:
                c.fail(u, f'early return True before the loop: {q.stmt_text(guard) if guard else "unconditional"}', 'the children test can succeed without looking at the children', node=rn.ast)
        else:
            c.ok(where(u, rn.ast), '`return True` after the loop over all children')
    # any non-constant / other return
    for rn in [x for x in g.live_nodes() if x.kind == 'return' and not (isinstance(x.ast.value, ast.Constant) and x.ast.value.value in (True, False))]:
        c.fail(u, f'returns {U(rn.ast.value)}', 'event_are_all_children_complete returns a value the analysis cannot bound', node=rn.ast)


@ob('C03.2', 'SHAPE/ESC', 'the coroutine behind `await event`: outside a handler it awaits the completion signal; every return yields the event object itself; it raises '
    'nothing explicitly except re-raising CancelledError (no handler error is raised)')
def c03_2(c: Ctx) -> None:
    u = await_coro(c)
    g = c.cfg(u)
    outer = c.unit(MOD, 'BaseEvent.__await__')
    self_ = outer.params()[0]
    rets = [n for n in g.live_nodes() if n.kind == 'return']
    c.floor(len(rets), 1, 'return statements in the await coroutine')
    for rn in rets:
        if rn.ast.value is not None and U(rn.ast.value) == self_:
            c.ok(where(u, rn.ast), f'returns `{self_}` (same event object)')
        else:
            c.fail(u, f'returns {U(rn.ast.value)}', 'awaiting an event does not yield the same event object', node=rn.ast)
    if g.exit in [e.dst for n in g.live_nodes() if n.kind != 'return' for e in n.succ if not e.is_exc]:
        c.fail(u, 'falls off the end (returns None)', 'awaiting an event can yield None')
    raises = [n for n in g.live_nodes() if n.kind == 'raise']
    for rn in raises:
        types = {e.exc.name for e in rn.succ if e.exc is not None}
        arm = next((h for h in ast.walk(u.node) if isinstance(h, ast.ExceptHandler) and any(x is rn.ast for b in h.body for x in ast.walk(b))), None) if isinstance(rn.ast, ast.Raise) else None
        if types <= {'CancelledError'}:
            c.ok(where(u, rn.ast), 'explicit raise only re-raises CancelledError')
        elif arm is not None and rn.ast.exc is None and (arm.type is None or U(arm.type) in ('Exception', 'BaseException')):
            # the clean-up idiom `except <catch-all>: <clean up>; raise` lets escape exactly what escapes a `try/finally` around the same body: nothing is raised that was not
            # already on its way out (a catch-all arm swallows nothing it re-raises); arms that name a specific class stay judged (today they swallow: QueueEmpty)
            c.ok(where(u, rn.ast), f'bare re-raise in a catch-all clean-up arm (`except {U(arm.type) if arm.type else ""}`): propagates what was escaping anyway, as try/finally does')
        else:
            c.fail(u, f'raises {sorted(types)}: {q.stmt_text(rn.ast, 80)}', f'awaiting an event can raise {sorted(types)} (handler errors must not be raised by await)', node=rn.ast)
    if not raises:
        c.ok(where(u), 'no explicit raise in the await coroutine')
    # the wait on the signal, outside the inline branch
    waits = [n for n in own_nodes(u.node) if isinstance(n, ast.Await) and isinstance(n.value, ast.Call) and call_name(n.value) == 'wait' and isinstance(n.value.func, ast.Attribute)
             and isinstance(n.value.func.value, ast.Attribute) and n.value.func.value.attr in SIGNAL_NAMES]
    inline_if = inline_branch(c, u)
    ext = [w for w in waits if not q.lexically_in(w, inline_if, 'body')]
    if ext:
        c.ok(where(u, ext[0]), 'non-handler branch awaits event_completed_signal.wait()')
    else:
        c.fail(u, 'no await of event_completed_signal.wait() outside the inline branch', 'awaiting from ordinary code does not wait for the completion signal')
    # every normal path through the non-inline branch passes the wait
    wait_ids = {id(q.stmt_of(w)) for w in ext}
    ifn = g.nodes_of(inline_if, ('if',))
    if ifn and ext:
        p = q.reach_search(g, [(ifn[0], {})], lambda n, d: n.kind == 'return', lambda n, d: n.ast is not None and id(n.ast) in wait_ids,
                           exc_ok=lambda e: False)
        # restrict to the false edge: emulate by blocking the true edge
        from sa.cfg import search

        p = search([(ifn[0], ())], is_target=lambda n, d: n.kind == 'return', is_barrier=lambda n, d: n.ast is not None and id(n.ast) in wait_ids,
                   edge_ok=lambda n, e, d: None if (e.is_exc or (n is ifn[0] and e.label == 'true')) else d)
        if p is None:
            c.ok(where(u, inline_if), 'every normal path of the non-handler branch passes the wait before returning')
        else:
            c.fail(u, 'non-handler branch can return without awaiting the completion signal', 'await from ordinary code can return before the event completed', node=inline_if, witness=c.path(ifn[0], p))


def inline_branch(c: Ctx, u: Unit) -> ast.If:
    ifs = [n for n in own_nodes(u.node) if isinstance(n, ast.If) and 'holds_global_lock' in U(n.test) or isinstance(n, ast.If) and 'inside_handler_context' in U(n.test)]
    ifs = [n for n in ifs if not any(q.lexically_in(n, o) and o is not n for o in ifs)]
    if len(ifs) != 1:
        raise AnchorError(f'{u}: expected one branch on the handler context (inside_handler_context / holds_global_lock), found {len(ifs)}')
    return ifs[0]


def mark_calls(n, recv_name: str | None = None) -> bool:
    for call in q.node_calls(n, MARK):
        if recv_name is None or (isinstance(call.func, ast.Attribute) and U(call.func.value) == recv_name):
            return True
    return False


@ob('C03.3', 'MPT/ORD', 'on every normal path process_event runs the handlers, then calls event_mark_complete… on the event, then walks event_parent_id upwards '
    'marking each ancestor found, bounded by a visited set')
def c03_3(c: Ctx) -> None:
    u = c.unit(SVC, 'EventBus.process_event')
    g = c.cfg(u)
    ev = u.params()[1]
    eh = [n for n in g.live_nodes() if q.node_calls(n, '_execute_handlers')]
    c.floor(len(eh), 1, '_execute_handlers call in process_event')
    for n in eh:
        p = q.pair_search(g, n, lambda x: mark_calls(x, ev), exc_ok=lambda e: False)
        if p is None:
            c.ok(where(u, n.ast), f'after the handlers ran every normal path calls {ev}.{MARK}()')
        else:
            c.fail(u, f'normal path from _execute_handlers to return avoids {ev}.{MARK}()', 'an event whose handlers all finished is never marked complete by its bus', node=n.ast, witness=c.path(n, p))
    # no mark before handlers ran (would complete early only if results empty - harmless) : not an obligation
    walks = [n for n in own_nodes(u.node) if isinstance(n, ast.While) and 'event_parent_id' in U(n.test)]
    if len(walks) != 1:
        c.fail(u, f'{len(walks)} parent-chain loops', 'process_event no longer walks up the parent chain: a parent whose last descendant finished here is never completed')
        return
    w = walks[0]
    if Facts(lambda a: False).eval(w.test, {}) is False:
        c.fail(u, f'parent-chain loop can never run: while {U(w.test)[:80]}', 'the parent walk is dead code: ancestors are never completed from here', node=w)
        return
    heads = g.nodes_of(w, ('while',))
    head = heads[0]
    # ordering: the walk is reached after marking the event on all normal paths
    marks = [n for n in g.live_nodes() if mark_calls(n, ev)]
    root_atom = f'{ev}.event_parent_id'
    froot = Facts(lambda a: a == root_atom, cg=c.cg, unit=u)
    for m in marks:
        # (an event without a parent has no ancestors: a path that is taken only when `not event.event_parent_id` skips a walk of zero iterations)
        p = q.reach_search(g, [(m, {})], lambda x, d: q.is_exit(x) and d.get(root_atom) not in ('F', 'Fy', 'N'), lambda x, d: x is head, froot, lambda e: False)
        if p is None:
            c.ok(where(u, m.ast), 'after marking the event every normal path enters the parent walk')
        else:
            c.fail(u, 'normal path from marking the event to return avoids the parent walk', 'ancestors are not re-checked after this event completed', node=m.ast, witness=c.path(m, p))
    # visited set
    test = U(w.test)
    vis = None
    for n in ast.walk(w.test):
        if isinstance(n, ast.Compare) and isinstance(n.ops[0], ast.NotIn) and isinstance(n.comparators[0], ast.Name):
            vis = n.comparators[0].id
    adds = [n for n in ast.walk(w) if isinstance(n, ast.Call) and call_name(n) == 'add' and isinstance(n.func, ast.Attribute) and U(n.func.value) == vis] if vis else []
    if vis and adds:
        c.ok(where(u, w), f'parent walk bounded by visited set `{vis}`')
    else:
        c.fail(u, f'parent walk `while {test[:70]}` has no visited set', 'a cycle in parent ids makes the walk spin forever', node=w)
    # each iteration marks the ancestor found (skip allowed: not found -> break; already signalled)
    pm = [n for n in ast.walk(w) if isinstance(n, ast.Call) and call_name(n) == MARK and isinstance(n.func, ast.Attribute)]
    if not pm:
        c.fail(u, 'parent walk never calls event_mark_complete…', 'ancestors are never marked complete from process_event', node=w)
        return
    pvar = U(pm[0].func.value)
    from sa.cfg import search

    def allowed_skip(n, e) -> bool:
        if n.kind != 'if':
            return False
        t = U(n.ast.test)
        if e.label in ('true', 'false') and not any(isinstance(x, ast.Call) for x in ast.walk(n.ast.test)):
            # the branch taken means "no ancestor was found" (`if not parent:` / `if parent is None:` / the else of `if parent:`)
            fp = Facts(lambda a: a == pvar)
            env_ = fp.assume(n.ast.test, e.label == 'true', {})
            if env_ is not None and fp.eval(ast.parse(pvar, mode='eval').body, env_) is False:
                return True
        if 'is_set()' in t and pvar in t and e.label == 'false':
            # every conjunct must be about the ancestor's completion signal (already signalled / no signal): nothing else may skip it
            conj = n.ast.test.values if isinstance(n.ast.test, ast.BoolOp) and isinstance(n.ast.test.op, ast.And) else [n.ast.test]
            return all(f'{pvar}.event_completed_signal' in U(x) or f'{pvar}._event_completed_signal' in U(x) for x in conj)
        return False

    inside = {id(x) for b in w.body for x in ast.walk(b)}
    p = search([(head, ())], is_target=lambda n, d: n is head or (n.ast is not None and id(n.ast) not in inside and n is not head),
               is_barrier=lambda n, d: mark_calls(n, pvar),
               edge_ok=lambda n, e, d: None if (e.is_exc or (n is head and e.label != 'true') or allowed_skip(n, e)) else d)
    if p is None:
        c.ok(where(u, w), f'every iteration calls {pvar}.{MARK}() unless the ancestor is missing or already signalled')
    else:
        c.fail(u, f'parent-walk iteration skips {pvar}.{MARK}()', 'an incomplete ancestor can be skipped by the upward propagation', node=w, witness=c.path(head, p))
    # the walk goes all the way up: it is left only through its loop test or where no ancestor was found (an ancestor that is already complete, or still open, is no reason
    # to stop: the ones above it may have been waiting for exactly this descendant)
    def not_found_edge(n, e) -> bool:
        if n.kind != 'if' or e.label not in ('true', 'false') or any(isinstance(x, ast.Call) for x in ast.walk(n.ast.test)):
            return False
        fp = Facts(lambda a: a == pvar)
        env_ = fp.assume(n.ast.test, e.label == 'true', {})
        return env_ is not None and fp.eval(ast.parse(pvar, mode='eval').body, env_) is False

    p = search([(head, ())], is_target=lambda n, d: n is not head and n.ast is not None and id(n.ast) not in inside and n.kind not in ('raise_exit',),
               is_barrier=lambda n, d: n is head,
               edge_ok=lambda n, e, d: None if (e.is_exc or (n is head and e.label != 'true') or not_found_edge(n, e)) else d)
    if p is None:
        c.ok(where(u, w), 'the parent walk is left only through its loop test or where no ancestor was found')
    else:
        c.fail(u, 'the parent walk can stop below the root although an ancestor was found', 'the ancestors above the point where the walk stops are never re-checked: an ancestor whose last open descendant has just '
               'finished stays incomplete, `await` on it hangs', node=w, witness=c.path(head, p))
    # advance
    adv = [n for n in ast.walk(w) if isinstance(n, ast.Assign) and U(n.value) == pvar and isinstance(n.targets[0], ast.Name) and n.targets[0].id in test]
    if adv:
        c.ok(where(u, adv[0]), f'walk advances: {U(adv[0])}')
        adv_ids = {n.id for a in adv for n in g.nodes_of(a)}
        p = search([(head, ())], is_target=lambda n, d: n is head, is_barrier=lambda n, d: n.id in adv_ids or n is head,
                   edge_ok=lambda n, e, d: None if (e.is_exc or (n is head and e.label != 'true')) else d)
        if p is None:
            c.ok(where(u, w), 'every iteration that comes back to the loop test has advanced to the ancestor')
        else:
            c.fail(u, 'a parent-walk iteration comes back to the loop test without advancing', 'the walk stops at (or spins on) an ancestor that is already signalled: the ancestors above it are never re-checked '
                   'and stay incomplete although their last descendant has finished', node=w, witness=c.path(head, p))
    else:
        c.fail(u, 'parent walk does not advance to the ancestor', 'only the direct parent is re-checked; grandparents never complete', node=w)


@ob('C03.4', 'ESC', 'nothing except cancellation escapes process_event before the event was marked: no exceptional exit of another type is reachable without '
    'passing event_mark_complete… (the CancelledError instance is C10.6)')
def c03_4(c: Ctx) -> None:
    escape_before_mark(c, lambda t: t.name != 'CancelledError', 'an exception in the run loop leaves the event pending forever: await and wait_until_idle hang')


def escape_before_mark(c: Ctx, type_ok, consequence: str) -> None:
    u = c.unit(SVC, 'EventBus.process_event')
    g = c.cfg(u)
    ev = u.params()[1]
    found = 0
    seen_src: set[tuple[str, str]] = set()
    for n in g.live_nodes():
        for e in n.succ:
            if not e.is_exc or not type_ok(e.exc) or n.kind in ('reraise',):
                continue
            key = (str(e.exc), n.text(200))
            if key in seen_src:
                continue
            # is n reachable from entry without passing a mark node, and does this edge lead to a raise exit without passing one?
            from sa.cfg import search

            p1 = search([(g.entry, ())], is_target=lambda x, d: x is n, is_barrier=lambda x, d: mark_calls(x, ev))
            if p1 is None and n is not g.entry:
                continue
            p2 = search([(n, ())], is_target=lambda x, d: x.kind == 'raise_exit', is_barrier=lambda x, d: mark_calls(x, ev),
                        edge_ok=lambda x, ed, d: d if (x is not n or ed is e) else None)
            if p2 is None:
                continue
            seen_src.add(key)
            found += 1
            origin = raise_origin(c, u, n, e.exc)
            c.fail(u, f'{e.exc} raised at `{n.text(120)}`{origin} escapes before {MARK}', consequence, node=n.ast, witness=c.path(n, p2))
    if found == 0:
        c.ok(where(u), f'no such exceptional exit precedes {ev}.{MARK}()', exits_examined=len(g.raise_exits))


def raise_origin(c: Ctx, u: Unit, n, t) -> str:
    """Name the explicit raise site(s) of type t in the call tree below node n (for the report)."""
    sites = []
    seen = set()
    todo = []
    for call in q.node_calls(n):
        r = c.an.fm.resolve_call(call, u)
        if isinstance(r, Unit):
            todo.append(r)
    while todo:
        x = todo.pop()
        if x.key in seen:
            continue
        seen.add(x.key)
        if t not in c.an.escapes(x) and not any(tt.name == t.name for tt in c.an.escapes(x)):
            continue
        for rn in own_nodes(x.node):
            if isinstance(rn, ast.Raise) and rn.exc is not None and t.name in U(rn.exc):
                sites.append(x.qualname)
        todo.extend(c.cg.callees(x))
    return f' (explicit raise in {", ".join(sorted(set(sites)))})' if sites else ''



@ob('C03.6', 'ORD', "pending results for all applicable handlers exist before the first handler runs (same obligation as C08.5): otherwise `await event` can return between two handlers")
def c03_6(c: Ctx) -> None:
    from .c08 import check_precreated_pending

    check_precreated_pending(c)



@ob('C03.7', 'ESC', 'every handler task of the event has finished when _execute_handlers returns (also after a sibling failed or timed out), so the marking step sees terminal results '
    '(same construct as C01.4 / C11.1)')
def c03_7(c: Ctx) -> None:
    from .c01 import check_handler_site, exec_handler_sites

    u, sites = exec_handler_sites(c)
    g = c.cfg(u)
    c.floor(len(sites), 1, 'execute_handler call sites')
    for call in sites:
        check_handler_site(c, u, g, call)


@ob('C03.8', 'DOM', 'every accepted event dispatched from a handler is registered as its child (same obligation as C09.9): an unregistered child lets its parent complete early')
def c03_8(c: Ctx) -> None:
    from .c09 import check_child_registration_guards

    check_child_registration_guards(c)


@ob('C03.9', 'ORD/SHAPE', 'an ancestor that is still in flight stays findable for the completion walk as long as a completed event can be evicted instead: history eviction takes completed events '
    'first, then started, then pending, each oldest-first (same obligation as C13.2) — a plain oldest-first eviction removes a long-running parent while newer completed events remain, and '
    'its completion signal is then never set')
def c03_9(c: Ctx) -> None:
    from .c13 import c13_2

    c13_2(c)


@ob('C03.10', 'FACTS', 'awaiting an event returns only when its completion signal is known to be set (same obligation as C04.3): a return of the await coroutine that does not '
    'depend on the signal — a fast path on event_status, say, which only says the event\'s own handlers are done — hands back an event whose descendants are still running')
def c03_10(c: Ctx) -> None:
    from .c04 import c04_3

    c04_3(c)


@ob('C03.11', 'ORD', 'in process_event no eviction from the history happens on a path that afterwards reaches the upward completion walk, when the walk finds ancestors through the '
    'history: an event whose own handlers are done reads as completed while its children still run, so an eviction pass between the event\'s own mark and the walk can remove the very '
    'parent the walk is about to look up — the walk stops, the parent\'s signal is never set and awaiting it hangs')
def c03_11(c: Ctx) -> None:
    from sa.cfg import search

    pe = c.unit(SVC, 'EventBus.process_event')
    g = c.cfg(pe)
    walks = [n for n in own_nodes(pe.node) if isinstance(n, ast.While) and 'event_parent_id' in U(n.test)]
    if not walks or not any(isinstance(n, ast.Attribute) and n.attr == 'event_history' for n in ast.walk(walks[0])):
        c.ok(where(pe), 'no history-based ancestor lookup in process_event')
        return
    inside = {id(x) for x in ast.walk(walks[0])}

    def evicts(u: Unit) -> bool:
        return any(w.attr == 'event_history' and w.how in ('del', 'pop', 'popitem', 'clear') for w in c.cg.writes.get(u.key, []))

    evictors = {u.key for u in c.prog.units.values() if evicts(u)}
    resolved = {id(call): r for call, r in c.cg.edges.get(pe.key, []) if isinstance(r, Unit)}
    sites = []
    for n in g.live_nodes():
        if n.ast is None or id(n.ast) in inside:
            continue
        for x in q.node_calls(n):
            if True:
                t = resolved.get(id(x))
                hit = (t.key in evictors or any(k in evictors for k in c.cg.reach([t]))) if t is not None else call_name(x) == 'cleanup_event_history'
                if hit:
                    sites.append((n, x))
    c.floor(len(sites), 1, 'eviction call in process_event')
    for n, x in sites:
        p = search([(n, ())], is_target=lambda m, dd: m is not n and m.ast is not None and id(m.ast) in inside, edge_ok=lambda m, ed, dd: None if ed.is_exc else dd)
        if p is None:
            c.ok(where(pe, x), f'`{U(x)[:60]}` is not followed by the upward walk')
        else:
            c.fail(pe, f'history eviction `{U(x)[:60]}` precedes the upward completion walk', 'a parent whose own handlers are done (status completed) but whose children are still running is evicted '
                   'before the walk looks it up: the walk stops, the parent never completes and awaiting it hangs', node=x, witness=c.path(n, p))


OBLIGATIONS = ob.obs
