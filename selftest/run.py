"""Checker self-test (thorough tier): the rules must fire on seeded mutants of the *current* tree and stay silent on
behaviour-neutral variants.

Every variant is computed from /repo's current source (text of one construct replaced), written to a fresh
temporary directory outside /repo and /verif (removed in a finally), compiled, and analysed with the same
rule code.  A mutant's report is compared with the baseline report of the same run: the expected obligation
must report a finding key that the baseline does not have.  A missed mutant or a noisy neutral variant is an
ANALYSIS-ERROR (exit 2: the checker is broken, not the repository).  A mutant whose anchor text is no longer
present in the current source is reported as skipped.
"""

from __future__ import annotations

import importlib
import os
import random
import shutil
import sys
import tempfile
import time
from concurrent.futures import ProcessPoolExecutor

HERE = os.path.dirname(os.path.abspath(__file__))
VERIF = os.path.dirname(HERE)
if VERIF not in sys.path:
    sys.path.insert(0, VERIF)


def _apply(src: str, old: str, new: str) -> str | None:
    if src.count(old) < 1:
        return None
    return src.replace(old, new, 1)


def _analyse_variant(args) -> dict:
    prop, root, variant = args
    sys.dont_write_bytecode = True
    from sa.callgraph import CallGraph
    from sa.cfg import Analysis
    from sa.loader import Program
    from sa.report import run_property

    t0 = time.time()
    tmp = tempfile.mkdtemp(prefix='bubus-sa-variant-')
    try:
        dst = os.path.join(tmp, 'bubus')
        shutil.copytree(os.path.join(root, 'bubus'), dst, ignore=shutil.ignore_patterns('__pycache__'))
        if variant is not None and variant.get('patch'):
            import subprocess

            r = subprocess.run(['git', 'apply', '--whitespace=nowarn', '--unsafe-paths', '--directory', tmp, variant['patch']], capture_output=True, text=True, cwd=tmp)
            if r.returncode != 0:
                r = subprocess.run(['patch', '-p1', '-s', '-f', '-i', variant['patch']], capture_output=True, text=True, cwd=tmp)
            if r.returncode != 0:
                return {'id': variant['id'], 'status': 'skipped', 'reason': 'patch no longer applies to the current tree'}
        elif variant is not None and variant.get('transform') == 'unparse':
            import ast as _ast
            import glob as _glob

            for p in _glob.glob(os.path.join(dst, '*.py')):
                text = _ast.unparse(_ast.parse(open(p, encoding='utf-8').read())) + '\n'
                open(p, 'w', encoding='utf-8').write(text)
        elif variant is not None:
            edits = variant.get('edits') or [(variant['file'], variant['old'], variant['new'])]
            for f, old, new in edits:
                p = os.path.join(tmp, f)
                src = open(p, encoding='utf-8').read()
                out = _apply(src, old, new)
                if out is None:
                    return {'id': variant['id'], 'status': 'skipped', 'reason': f'anchor text not present in {f}'}
                try:
                    compile(out, p, 'exec')
                except SyntaxError as e:
                    return {'id': variant['id'], 'status': 'skipped', 'reason': f'variant does not compile: {e}'}
                open(p, 'w', encoding='utf-8').write(out)
        mod = importlib.import_module(f'rules.{prop.lower()}')
        obs = list(mod.OBLIGATIONS)
        try:
            prog = Program(tmp)
            an = Analysis(prog)
            cg = CallGraph(an)
            rc, inst = run_property(prop, obs, prog, an, cg, 'quick', 0, t0, write_evidence=False, quiet=True)
            # collect analysis errors by re-running cheaply is not needed: rc==2 tells
            fails = sorted({(i.ob, i.key) for i in inst if not i.ok})
            return {'id': variant['id'] if variant else 'baseline', 'status': 'ran', 'rc': rc, 'fails': fails, 'wall': round(time.time() - t0, 2)}
        except Exception as e:
            return {'id': variant['id'] if variant else 'baseline', 'status': 'ran', 'rc': 2, 'fails': [], 'error': f'{type(e).__name__}: {e}'}
    finally:
        shutil.rmtree(tmp, ignore_errors=True)


def variants_for(prop: str) -> tuple[list[dict], list[dict]]:
    from selftest import mutants as M

    muts = [m for m in M.MUTANTS if m['prop'] == prop]
    neutrals = list(M.NEUTRALS)
    import glob

    neutrals.append({'id': 'reformat-whole-tree', 'transform': 'unparse', 'what': 'every module re-printed by ast.unparse (comments dropped, quotes, line breaks and parentheses changed)'})
    for pth in sorted(glob.glob(os.path.join(VERIF, 'neutral', '*', 'patch.diff'))):
        neutrals.append({'id': 'refactor-' + os.path.basename(os.path.dirname(pth)), 'patch': pth, 'what': 'independently written behaviour-preserving refactoring (suite passes)'})
    seeded = []
    for pth in sorted(glob.glob(os.path.join(VERIF, 'seeded', prop + '-*', 'patch.diff'))):
        meta = os.path.join(os.path.dirname(pth), 'meta.json')
        md = __import__('json').load(open(meta)) if os.path.exists(meta) else {}
        if md.get('seed_base'):
            continue  # applies to an earlier commit of /repo (the defect it relied on was repaired since)
        if md.get('expected_uncaught'):
            continue  # a documented miss (DESIGN.md section 9): the change re-exposes an already listed known finding through an unchanged construct
        seeded.append({'id': 'seeded-' + os.path.basename(os.path.dirname(pth)), 'prop': prop, 'expect': ['*'], 'patch': pth, 'what': 'independently written regression (confirmed dynamically)'})
    return muts + seeded, neutrals


def run_selftest(prop: str, root: str, seed: int = 0, verbose: bool = True) -> tuple[int, dict]:
    muts, neutrals = variants_for(prop)
    rnd = random.Random(seed)
    rnd.shuffle(muts)
    rnd.shuffle(neutrals)
    jobs = [(prop, root, None)] + [(prop, root, m) for m in muts] + [(prop, root, n) for n in neutrals]
    with ProcessPoolExecutor(max_workers=min(16, len(jobs))) as ex:
        results = list(ex.map(_analyse_variant, jobs))
    base = results[0]
    base_fails = set(map(tuple, base.get('fails', [])))
    problems: list[str] = []
    rows: list[dict] = []
    caught = skipped = silent = 0
    for spec, res in zip(muts + neutrals, results[1:]):
        neutral = not spec.get('expect')
        row = {'id': spec['id'], 'kind': 'neutral' if neutral else 'mutant', 'expect': spec.get('expect', []), 'what': spec.get('what', '')}
        if res['status'] == 'skipped':
            skipped += 1
            row['result'] = 'skipped: ' + res['reason']
            rows.append(row)
            continue
        new = set(map(tuple, res['fails'])) - base_fails
        new_obs = {o for o, _ in new}
        if neutral:
            if new or res['rc'] == 2 and base.get('rc') != 2:
                problems.append(f'neutral variant {spec["id"]} is reported: {sorted(new) or res.get("error", "analysis error")}')
                row['result'] = 'NOISY'
            else:
                silent += 1
                row['result'] = 'silent'
        else:
            want = set(spec['expect'])
            if want == {'*'}:
                want = set(new_obs) or {'<any obligation of the property>'}
            if want & new_obs:
                caught += 1
                row['result'] = 'caught by ' + ', '.join(sorted(want & new_obs))
                row['reported_keys'] = [k for o, k in sorted(new) if o in want][:2]
            else:
                problems.append(f'mutant {spec["id"]} (breaks {sorted(want)}) was NOT reported; new findings: {sorted(new_obs)} rc={res["rc"]} {res.get("error", "")}')
                row['result'] = 'MISSED'
        rows.append(row)
    if verbose:
        print(f'selftest {prop}: mutants caught={caught}/{len(muts)} neutral silent={silent}/{len(neutrals)} skipped={skipped}')
        for p in problems:
            print(f'ANALYSIS-ERROR property={prop} selftest: {p}')
    extra = {
        'selftest': {
            'mutants': len(muts), 'mutants_caught': caught, 'neutral_variants': len(neutrals), 'neutral_silent': silent,
            'skipped': skipped, 'problems': problems, 'rows': rows, 'seed': seed,
        }
    }  # fmt: skip
    return (2 if problems else 0), extra


if __name__ == '__main__':
    props = sys.argv[1:] or [f'C{i:02d}' for i in range(1, 21)]
    rc = 0
    for p in props:
        try:
            r, _ = run_selftest(p.upper(), os.environ.get('BUBUS_SA_ROOT', '/repo'))
        except ModuleNotFoundError as e:
            print(f'{p}: no rules yet ({e})')
            continue
        rc = max(rc, r)
    sys.exit(rc)
