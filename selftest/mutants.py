"""Seeded mutants (each breaks exactly one structural obligation while still compiling) and behaviour-neutral variants.

A mutant = text of one construct of the *current* /repo source replaced; `expect` lists the obligation(s) that must
newly report.  Neutral variants have no `expect` and must not change any verdict.
"""

from __future__ import annotations

S = 'bubus/service.py'
M = 'bubus/models.py'
H = 'bubus/helpers.py'

MUTANTS: list[dict] = []
NEUTRALS: list[dict] = []


def mut(id: str, prop: str, expect: list[str], file: str, old: str, new: str, what: str = '') -> None:
    MUTANTS.append({'id': id, 'prop': prop, 'expect': expect, 'file': file, 'old': old, 'new': new, 'what': what})


def mut2(id: str, prop: str, expect: list[str], edits: list[tuple[str, str, str]], what: str = '') -> None:
    MUTANTS.append({'id': id, 'prop': prop, 'expect': expect, 'edits': edits, 'what': what})


def neutral(id: str, file: str, old: str, new: str, what: str = '') -> None:
    NEUTRALS.append({'id': id, 'file': file, 'old': old, 'new': new, 'what': what})


# ================================================================================================ C01
mut('c01-drop-wildcard', 'C01', ['C01.1'], S,
    "        applicable_handlers.extend(self.handlers.get('*', []))\n", "        pass\n",
    "wildcard handlers are never looked up")
mut('c01-class-key-str', 'C01', ['C01.1'], S,
    "            event_key = event_pattern.__name__  # pyright", "            event_key = str(event_pattern)  # pyright",
    'class patterns are filed under str(cls) instead of the class name')
mut('c01-revert-f17-on', 'C01', ['C01.1'], S,
    "            if isinstance(declared_event_type, str) and declared_event_type != 'UndefinedEvent':\n                event_key = declared_event_type\n            else:\n                event_key = event_pattern.__name__",
    "            if False:\n                event_key = declared_event_type\n            else:\n                event_key = event_pattern.__name__",
    'on(<class>) files under the class name although the class declares its own event_type (F17 reverted in on)')
mut('c01-declared-type-always', 'C01', ['C01.1'], S,
    "            if isinstance(declared_event_type, str) and declared_event_type != 'UndefinedEvent':\n                event_key = declared_event_type\n            else:\n                event_key = event_pattern.__name__",
    "            if isinstance(declared_event_type, str):\n                event_key = declared_event_type\n            else:\n                event_key = event_pattern.__name__",
    "on(<plain class>) files under the base default 'UndefinedEvent'")
mut('c01-revert-f18', 'C01', ['C01.9'], S,
    "        assert self.name.isidentifier() and not self.name.startswith('_'), (", "        assert self.name.isidentifier(), (",
    'underscore bus names accepted again (F18 reverted)')
mut('c01-validator-ascii-regex', 'C01', ['C01.9'], M,
    "    assert str(s).isidentifier() and not str(s).startswith('_'), f'Invalid event name: {s}'",
    "    import re\n    assert re.fullmatch(r'[A-Za-z][A-Za-z0-9_]*', str(s)), f'Invalid event name: {s}'",
    'validator narrowed to ASCII identifiers')
mut('c01-validator-no-dunder', 'C01', ['C01.9'], M,
    "    assert str(s).isidentifier() and not str(s).startswith('_'), f'Invalid event name: {s}'",
    "    assert str(s).isidentifier() and not str(s).startswith('_') and not str(s).endswith('_'), f'Invalid event name: {s}'",
    'validator stricter than the constructor')
mut('c01-key-by-name', 'C01', ['C01.2'], S,
    "                handler_id = get_handler_id(handler, self)\n                filtered_handlers[handler_id] = handler",
    "                handler_id = get_handler_name(handler)\n                filtered_handlers[handler_id] = handler",
    'selected handlers keyed by name: same-named handlers merge')
mut('c01-extra-continue', 'C01', ['C01.2'], S,
    "            if self._would_create_loop(event, handler):\n                continue\n",
    "            if self._would_create_loop(event, handler):\n                continue\n            elif len(filtered_handlers) >= 8:\n                continue\n",
    'a ninth handler is silently dropped')
mut('c01-handler-id-no-bus', 'C01', ['C01.2'], M,
    "    return f'{id(eventbus)}.{id(handler)}'", "    return f'{id(handler)}.{id(handler)}'",
    'handler id ignores the bus')
mut('c01-get-next-drops', 'C01', ['C01.3'], S,
    "                return await get_next_queued_event  # await to actually resolve it to the next event",
    "                if self.event_queue.qsize() > 40:\n                    return None\n                return await get_next_queued_event",
    'a dequeued event is dropped under load')
mut('c01-step-drops', 'C01', ['C01.3'], S,
    "        logger.debug(f'🏃 {self}.step({event}) STARTING')\n",
    "        logger.debug(f'🏃 {self}.step({event}) STARTING')\n        if event.event_timeout == 0:\n            return event\n",
    'step returns without processing some events')
mut('c01-inline-drops', 'C01', ['C01.3'], M,
    "                                    event = bus.event_queue.get_nowait()\n",
    "                                    event = bus.event_queue.get_nowait()\n                                    if event.event_timeout == 0:\n                                        continue\n",
    'inline loop drops some dequeued events')
mut('c01-serial-break', 'C01', ['C01.4'], S,
    "                    logger.debug(\n                        f'❌ {self} Handler {get_handler_name(handler)}#{str(id(handler))[-4:]}({event}) failed with {type(e).__name__}: {e}'\n                    )\n                    pass\n",
    "                    break\n",
    'first failing handler stops the serial loop')
mut('c01-serial-narrow-except', 'C01', ['C01.4'], S,
    "                    await self.execute_handler(event, handler, timeout=timeout)\n                except Exception as e:",
    "                    await self.execute_handler(event, handler, timeout=timeout)\n                except ValueError as e:",
    'other handler errors abort the loop')
mut('c01-parallel-no-catch', 'C01', ['C01.4'], S,
    "                try:\n                    await task\n                except Exception:\n                    # Error already logged and recorded in execute_handler\n                    pass\n",
    "                await task\n",
    'a failing parallel handler aborts the await loop')
mut('c01-no-completed-arm', 'C01', ['C01.5'], S,
    "            elif existing_result.completed_at is not None:", "            elif existing_result.completed_at is not None and False:",
    're-dispatch re-runs handlers that already finished')
mut('c01-pending-not-filtered', 'C01', ['C01.5'], S,
    "            if existing_result.status == 'pending' or existing_result.status == 'started':",
    "            if existing_result.status == 'started':",
    'a handler with a pending result is selected a second time')
mut('c01-no-started-guard', 'C01', ['C01.5'], S,
    "            if existing_result.started_at is not None:\n                raise RuntimeError(", "            if False:\n                raise RuntimeError(",
    'double-execution guard removed')
mut('c01-started-update-late', 'C01', ['C01.5'], S,
    "        event_result = event.event_result_update(\n            handler=handler, eventbus=self, status='started', timeout=timeout or event.event_timeout\n        )\n",
    "        event_result = event.event_result_update(\n            handler=handler, eventbus=self, status='pending', timeout=timeout or event.event_timeout\n        )\n",
    "result is not marked started before the handler runs")
mut('c01-second-invoker', 'C01', ['C01.6'], S,
    "        await self._default_log_handler(event)\n        await self._default_wal_handler(event)\n",
    "        await self._default_log_handler(event)\n        await self._default_wal_handler(event)\n        for extra in self.handlers.get('__audit__', []):\n            extra(event)\n",
    'handlers invoked directly from process_event')
mut('c01-second-process-caller', 'C01', ['C01.6'], S,
    "    def log_tree(self) -> str:\n        \"\"\"Print a nice pretty formatted tree view of all events in the history",
    "    async def replay(self, event: 'BaseEvent[Any]') -> None:\n        await self._execute_handlers(event)\n\n    def log_tree(self) -> str:\n        \"\"\"Print a nice pretty formatted tree view of all events in the history",
    'a second caller of _execute_handlers bypasses process_event')

# ================================================================================================ neutral variants
neutral('n-inline-finally-as-catch-all', M,
    "                                    finally:\n                                        # always balance the get_nowait(), also when we are cancelled mid-processing,\n                                        # otherwise bus.event_queue.join() / wait_until_idle() would hang forever\n                                        bus.event_queue.task_done()\n",
    "                                    except BaseException:\n                                        bus.event_queue.task_done()\n                                        raise\n                                    bus.event_queue.task_done()\n",
    'try/finally of the inline loop written as a catch-all clean-up arm with a bare re-raise (twin of C15-r11-1)')
neutral('n-rename-local', S,
        "        from_queue = False\n", "        from_queue = False  # tracked below\n",
        'comment only')
neutral('n-extra-log-step', S,
        "        # Clear idle state when we get an event\n        self._on_idle.clear()\n",
        "        # Clear idle state when we get an event\n        logger.debug('clearing idle flag')\n        self._on_idle.clear()\n",
        'added log line')
neutral('n-extra-log-dispatch', S,
        "        # Auto-start if needed\n        self._start()\n",
        "        # Auto-start if needed\n        logger.debug(f'{self} about to start')\n        self._start()\n",
        'added log line in dispatch')
neutral('n-continue-to-nested-if', S,
        "            if self._would_create_loop(event, handler):\n                continue\n            else:\n                handler_id = get_handler_id(handler, self)\n                filtered_handlers[handler_id] = handler\n",
        "            if not self._would_create_loop(event, handler):\n                handler_id = get_handler_id(handler, self)\n                filtered_handlers[handler_id] = handler\n",
        '`if c: continue else: X` rewritten as `if not c: X`')
neutral('n-extra-log-process', S,
        "        # Execute handlers\n        await self._execute_handlers(event, handlers=applicable_handlers, timeout=timeout)\n",
        "        # Execute handlers\n        logger.debug('executing handlers')\n        await self._execute_handlers(event, handlers=applicable_handlers, timeout=timeout)\n",
        'added log line in process_event')
neutral('n-extra-log-execute', S,
        "        # Mark handler as started\n", "        logger.debug('marking started')\n        # Mark handler as started\n",
        'added log line in execute_handler')
neutral('n-reformat-models', M,
        "            if not self.event_results:\n                if hasattr(self, 'event_processed_at'):",
        "            if not self.event_results:\n\n                if hasattr(self, 'event_processed_at'):",
        'blank line')
neutral('n-helper-log', H,
        "            # Track active operations and check system overload\n",
        "            logger.debug('tracking')\n            # Track active operations and check system overload\n",
        'added log line in retry wrapper')

# ================================================================================================ C02
mut('c02-lifo-base', 'C02', ['C02.1'], S,
    "class CleanShutdownQueue(asyncio.Queue[QueueEntryType]):", "class CleanShutdownQueue(asyncio.LifoQueue[QueueEntryType]):",
    'queue becomes LIFO')
mut('c02-override-get', 'C02', ['C02.1'], S,
    "        return super().get_nowait()\n", "        item = self._queue.pop()\n        return item\n",
    'get_nowait takes from the tail')
mut('c02-appendleft', 'C02', ['C02.2'], S,
    "                self.event_queue.put_nowait(event)\n", "                self.event_queue._queue.appendleft(event)\n",
    'enqueue at the head through the raw deque')
mut('c02-second-enqueue', 'C02', ['C02.2'], S,
    "        # Clear event history and handlers if requested (for memory cleanup)\n        if clear:\n",
    "        if self.event_queue and self.events_pending:\n            self.event_queue.put_nowait(self.events_pending[0])\n        # Clear event history and handlers if requested (for memory cleanup)\n        if clear:\n",
    'stop() re-enqueues an event outside dispatch')
mut('c02-runloop-spawns-step', 'C02', ['C02.3'], S,
    "                    _processed_event = await self.step()\n", "                    _processed_event = asyncio.create_task(self.step())\n                    await asyncio.sleep(0)\n",
    'run loop spawns concurrent steps')
mut('c02-step-spawns-process', 'C02', ['C02.3'], S,
    "                await self.process_event(event, timeout=timeout)\n", "                await asyncio.shield(asyncio.ensure_future(self.process_event(event, timeout=timeout)))\n",
    'step no longer awaits process_event in place')
mut('c02-always-parallel', 'C02', ['C02.3'], S,
    "        if self.parallel_handlers:\n            handler_tasks", "        if self.parallel_handlers or len(applicable_handlers) > 3:\n            handler_tasks",
    'handlers run as tasks without parallel_handlers')
mut('c02-new-unlocked-dequeue', 'C02', ['C02.4'], S,
    "        queue_size = self.event_queue.qsize() if self.event_queue else 0\n        if queue_size or self.events_pending or self.events_started:\n",
    "        queue_size = self.event_queue.qsize() if self.event_queue else 0\n        if queue_size and self.event_queue:\n            _dropped = self.event_queue.get_nowait()\n            await self.process_event(_dropped)\n        if queue_size or self.events_pending or self.events_started:\n",
    'a new dequeue site outside the lock (must be a new key, not absorbed by the known finding)')
mut('c02-inline-without-lock-test', 'C02', ['C02.4'], M,
    "            if not self.event_completed_signal.is_set() and inside_handler_context.get() and holds_global_lock.get():",
    "            if not self.event_completed_signal.is_set() and inside_handler_context.get():",
    'inline loop dequeues without knowing the lock is held')

# ================================================================================================ C03
mut('c03-no-children-test', 'C03', ['C03.1'], M,
    "            if not self.event_are_all_children_complete():\n", "            if False and not self.event_are_all_children_complete():\n",
    'event marked complete without looking at its children')
mut('c03-any-for-all', 'C03', ['C03.1'], M,
    "            all_handlers_done = all(result.status in ('completed', 'error') for result in self.event_results.values())",
    "            all_handlers_done = any(result.status in ('completed', 'error') for result in self.event_results.values())",
    'any() instead of all()')
mut('c03-started-terminal', 'C03', ['C03.1'], M,
    "        all_done = all(result.status in ('completed', 'error') for result in self.event_results.values())",
    "        all_done = all(result.status in ('completed', 'error', 'started') for result in self.event_results.values())",
    "sibling predicate in event_completed_at treats 'started' as terminal")
mut('c03-children-early-true', 'C03', ['C03.1'], M,
    "        for child_event in self.event_children:\n            if child_event.event_status != 'completed':",
    "        for child_event in self.event_children[:1]:\n            if child_event.event_status != 'completed':",
    'only the first child is checked')
mut('c03-children-no-recursion', 'C03', ['C03.1'], M,
    "            if not child_event.event_are_all_children_complete(_visited):\n                return False\n", "",
    'grandchildren are not checked')
mut('c03-children-return-true-in-loop', 'C03', ['C03.1'], M,
    "            if not child_event.event_are_all_children_complete(_visited):\n                return False\n",
    "            if not child_event.event_are_all_children_complete(_visited):\n                return False\n            return True\n",
    'returns after the first child')
mut('c03-second-set-site', 'C03', ['C03.1'], S,
    "            # Record successful result\n            event.event_result_update(handler=handler, eventbus=self, result=result_value)\n",
    "            # Record successful result\n            event.event_result_update(handler=handler, eventbus=self, result=result_value)\n            if event.event_completed_signal and len(event.event_results) == 1:\n                event.event_completed_signal.set()\n",
    'a second .set() site in execute_handler')
mut('c03-clear-signal', 'C03', ['C03.1'], S,
    "        # Add this EventBus to the event_path if not already there\n",
    "        if event.event_completed_signal and self.name not in event.event_path:\n            event.event_completed_signal.clear()\n        # Add this EventBus to the event_path if not already there\n",
    'dispatch clears the completion signal')
mut('c03-children-skip-results', 'C03', ['C03.1'], M,
    "        for event_result in self.event_results.values():\n            children.extend(event_result.event_children)\n        return children",
    "        for event_result in self.event_results.values():\n            if event_result.status != 'error':\n                children.extend(event_result.event_children)\n        return children",
    'children of errored handlers are ignored')
mut('c03-await-raises-error', 'C03', ['C03.2'], M,
    "            # Return the completed event without raising errors\n",
    "            for result in self.event_results.values():\n                if result.error:\n                    raise result.error\n            # Return the completed event without raising errors\n",
    'await raises the first handler error')
mut('c03-await-reraises-queueempty', 'C03', ['C03.2'], M,
    "                            except asyncio.QueueEmpty:\n                                pass\n",
    "                            except asyncio.QueueEmpty:\n                                raise\n",
    'the arm that swallowed QueueEmpty re-raises it: awaiting a child from a handler raises whenever a bus queue is empty (a bare raise in an arm naming a specific class stays judged)')
mut2('c03-cleanup-before-walk', 'C03', ['C03.11'], [
    (S, "        # Clean up excess events to prevent memory leaks\n        if self.max_history_size:\n            self.cleanup_event_history()\n\n    def _get_applicable_handlers", "    def _get_applicable_handlers"),
    (S, "        # After processing this event, check if any parent events can now be marked complete\n", "        if self.max_history_size:\n            self.cleanup_event_history()\n        # After processing this event, check if any parent events can now be marked complete\n"),
], 'the history clean-up of process_event moved in front of the upward walk (seed C03-r11-1)')
mut('c03-await-returns-copy', 'C03', ['C03.2'], M,
    "            # Errors should only be raised when explicitly requested via event_result() methods\n            return self\n",
    "            # Errors should only be raised when explicitly requested via event_result() methods\n            return self.model_copy()\n",
    'await yields a copy')
mut('c03-await-no-wait', 'C03', ['C03.2'], M,
    "                await self.event_completed_signal.wait()\n", "                await asyncio.sleep(0)\n",
    'non-handler await does not wait for the signal')
mut('c03-no-mark-own', 'C03', ['C03.3'], S,
    "        # Mark event as complete if all handlers are done\n        event.event_mark_complete_if_all_handlers_completed()\n",
    "        # Mark event as complete if all handlers are done\n        if event.event_results:\n            event.event_mark_complete_if_all_handlers_completed()\n",
    'events without results are never marked')
mut('c03-skip-parent-walk', 'C03', ['C03.3'], S,
    "        while current.event_parent_id and current.event_parent_id not in checked_ids:",
    "        while False and current.event_parent_id and current.event_parent_id not in checked_ids:",
    'parent chain never walked')
mut('c03-walk-no-advance', 'C03', ['C03.3'], S,
    "            # Move up the chain\n            current = parent_event\n", "            # Move up the chain\n            break\n",
    'only the direct parent is re-checked')
mut('c03-walk-skip-mark', 'C03', ['C03.3'], S,
    "            if parent_event.event_completed_signal and not parent_event.event_completed_signal.is_set():\n                parent_event.event_mark_complete_if_all_handlers_completed()\n",
    "            if parent_event.event_completed_signal and not parent_event.event_completed_signal.is_set() and parent_event.event_path[0] == self.name:\n                parent_event.event_mark_complete_if_all_handlers_completed()\n",
    'ancestors that started on another bus are not marked')
mut('c03-new-raise-before-mark', 'C03', ['C03.4'], S,
    "        # Execute handlers\n        await self._execute_handlers(event, handlers=applicable_handlers, timeout=timeout)\n",
    "        if len(applicable_handlers) > 64:\n            raise ValueError('too many handlers')\n        # Execute handlers\n        await self._execute_handlers(event, handlers=applicable_handlers, timeout=timeout)\n",
    'a new explicit raise escapes process_event before the event is marked (must be a new key)')

# ================================================================================================ C04
mut('c04-inline-waits-signal', 'C04', ['C04.1'], M,
    "                            try:\n                                await asyncio.sleep(0)\n                            except asyncio.CancelledError:\n                                raise\n",
    "                            try:\n                                await asyncio.wait_for(self.event_completed_signal.wait(), timeout=0.5)\n                            except asyncio.CancelledError:\n                                raise\n",
    'inline branch blocks on the signal while holding the lock')
mut('c04-inline-calls-step', 'C04', ['C04.1', 'C04.2'], M,
    "                                    event = bus.event_queue.get_nowait()\n                                    try:\n                                        await bus.process_event(event)\n",
    "                                    event = bus.event_queue.get_nowait()\n                                    try:\n                                        await bus.step(event)\n",
    'inline branch calls step()')
mut('c04-lock-not-reentrant', 'C04', ['C04.2'], S,
    "        if holds_global_lock.get():\n            # We already hold the lock in this context, increment depth\n            self._depth += 1\n            return self\n",
    "        if holds_global_lock.get() and self._depth > 1:\n            # We already hold the lock in this context, increment depth\n            self._depth += 1\n            return self\n",
    'owner blocks on its own lock')
mut('c04-early-return', 'C04', ['C04.3'], M,
    "                        if not processed_any:\n                            # No events to process, yield control and check for cancellation\n",
    "                        if iterations > 10 and not processed_any:\n                            return self\n                        if not processed_any:\n                            # No events to process, yield control and check for cancellation\n",
    'gives up after 10 idle polls: returns the child pending (a new key)')
mut('c04-nonhandler-branch-timeout', 'C04', ['C04.3'], M,
    "                await self.event_completed_signal.wait()\n",
    "                try:\n                    await asyncio.wait_for(self.event_completed_signal.wait(), timeout=30)\n                except TimeoutError:\n                    pass\n",
    'external await gives up silently after 30 s')

# ================================================================================================ C05
mut('c05-queue-tail', 'C05', ['C05.1'], M,
    "                                    event = bus.event_queue.get_nowait()\n",
    "                                    event = bus.event_queue._queue.pop()\n",
    'inline loop takes the queue tail (a different key from F0)')
mut('c05-sleep-before-loop', 'C05', ['C05.2'], M,
    "                try:\n                    while not self.event_completed_signal.is_set() and iterations < max_iterations:",
    "                try:\n                    await asyncio.sleep(0)\n                    while not self.event_completed_signal.is_set() and iterations < max_iterations:",
    'handler yields before processing the child')
mut('c05-unconditional-sleep', 'C05', ['C05.2'], M,
    "                        if not processed_any:\n                            # No events to process, yield control and check for cancellation\n",
    "                        if True:\n                            # No events to process, yield control and check for cancellation\n",
    'handler yields after every round')
mut('c05-flag-not-set', 'C05', ['C05.2'], M,
    "                                    processed_any = True\n", "                                    processed_any = bool(bus.event_queue.qsize())\n",
    'processed flag not reliably set')

# ================================================================================================ C06
mut('c06-no-lock-in-step', 'C06', ['C06.1'], S,
    "            async with _get_global_lock():\n                # Process the event\n                await self.process_event(event, timeout=timeout)\n",
    "            if True:\n                # Process the event\n                await self.process_event(event, timeout=timeout)\n",
    'step processes without the lock')
mut('c06-per-bus-lock', 'C06', ['C06.1'], S,
    "    global _global_eventbus_lock\n    if _global_eventbus_lock is None:\n        _global_eventbus_lock = ReentrantLock()\n    return _global_eventbus_lock",
    "    return ReentrantLock()",
    'a fresh lock per call')
mut('c06-inline-without-lock-flag', 'C06', ['C06.1'], M,
    "            if not self.event_completed_signal.is_set() and inside_handler_context.get() and holds_global_lock.get():",
    "            if not self.event_completed_signal.is_set() and inside_handler_context.get():",
    'inline processing without knowing the lock is held')
mut('c06-set-true-before-acquire', 'C06', ['C06.2'], S,
    "        await self._get_semaphore().acquire()\n        holds_global_lock.set(True)\n",
    "        holds_global_lock.set(True)\n        await self._get_semaphore().acquire()\n",
    'ownership claimed before acquisition')
mut('c06-flag-written-elsewhere', 'C06', ['C06.2'], S,
    "        # Mark that we're inside a handler\n        handler_token = inside_handler_context.set(True)\n",
    "        # Mark that we're inside a handler\n        handler_token = inside_handler_context.set(True)\n        holds_global_lock.set(True)\n",
    'execute_handler claims the lock flag')
mut('c06-release-without-clearing', 'C06', ['C06.2'], S,
    "            holds_global_lock.set(False)\n            self._get_semaphore().release()\n",
    "            self._get_semaphore().release()\n",
    'flag stays true after release')
mut('c06-revert-f6', 'C06', ['C06.3'], S,
    "        holds_global_lock.set(False)\n        inside_handler_context.set(False)\n", "        inside_handler_context.set(False)\n",
    'run loop inherits lock ownership again (F6 reverted)')
mut('c06-handler-task-not-cancelled', 'C06', ['C06.3'], S,
    "            if handler_task and not handler_task.done():\n                handler_task.cancel()\n",
    "            if handler_task and not handler_task.done() and timeout:\n                handler_task.cancel()\n",
    'handler task may outlive execute_handler')
mut('c06-background-dispatch-task', 'C06', ['C06.3'], S,
    "        # Clean up excess events to prevent memory leaks\n        if self.max_history_size:\n            self.cleanup_event_history()\n\n    def _get_applicable_handlers",
    "        # Clean up excess events to prevent memory leaks\n        if self.max_history_size:\n            self.cleanup_event_history()\n        if event.event_parent_id is None and not self.event_queue.empty():\n            asyncio.create_task(self.step())\n\n    def _get_applicable_handlers",
    'a background task that processes events is spawned from inside the lock')
mut('c06-always-parallel', 'C06', ['C06.4', 'C06.3'], S,
    "        if self.parallel_handlers:\n            handler_tasks", "        if self.parallel_handlers or len(applicable_handlers) > 3:\n            handler_tasks",
    'concurrent handlers without parallel_handlers')

# ================================================================================================ C07
mut('c07-no-path-guard', 'C07', ['C07.1'], S,
    "        if self.name not in event.event_path:\n", "        if True:\n",
    'bus name appended on every dispatch')
mut('c07-path-written-elsewhere', 'C07', ['C07.1'], S,
    "        # Mark event as complete if all handlers are done\n        event.event_mark_complete_if_all_handlers_completed()\n",
    "        # Mark event as complete if all handlers are done\n        event.event_path.append(self.name)\n        event.event_mark_complete_if_all_handlers_completed()\n",
    'process_event appends to the path too')
mut('c07-path-not-recorded', 'C07', ['C07.1'], S,
    "        if self.name not in event.event_path:\n", "        if self.name not in event.event_path and event.event_parent_id is None:\n",
    'child events are enqueued without the bus in their path')
mut('c07-check-order', 'C07', ['C07.2'], S,
    "            if target_bus.name in event.event_path:\n", "            if target_bus.name in event.event_path and event.event_parent_id is not None:\n",
    'root events are forwarded back into buses already in the path')
mut('c07-compare-bus-id', 'C07', ['C07.2'], S,
    "            if target_bus.name in event.event_path:\n", "            if target_bus.id in event.event_path:\n",
    'path membership tested by bus id (never matches)')
mut('c07-pred-disagree', 'C07', ['C07.3'], S,
    "            inspect.ismethod(handler) and isinstance(handler.__self__, EventBus) and handler.__name__ == 'dispatch'\n",
    "            inspect.ismethod(handler) and isinstance(handler.__self__, EventBus)\n",
    'third-check predicate treats every bus method as forwarding')
mut('c07-alias', 'C07', ['C07.3'], S,
    "    @overload\n    async def expect(\n        self,\n        event_type: type[T_ExpectedEvent],",
    "    emit = dispatch\n\n    @overload\n    async def expect(\n        self,\n        event_type: type[T_ExpectedEvent],",
    'emit = dispatch alias')
mut('c07-return-copy', 'C07', ['C07.4'], S,
    "            self.cleanup_event_history()\n\n        return event\n", "            self.cleanup_event_history()\n\n        return event.model_copy()\n",
    'dispatch returns a copy')
mut('c07-enqueue-copy', 'C07', ['C07.4'], S,
    "                self.event_queue.put_nowait(event)\n", "                self.event_queue.put_nowait(event.model_copy(deep=False))\n",
    'a copy is queued')
mut('c07-no-rename', 'C07', ['C07.5'], S,
    "            self.name = f'{original_name}_{unique_suffix}'\n", "            pass\n",
    'name conflicts no longer resolved')
mut('c07-update-keyed-without-bus', 'C07', ['C07.5'], M,
    "        handler_id: PythonIdStr = get_handler_id(handler, eventbus)\n", "        handler_id: PythonIdStr = get_handler_id(handler)\n",
    'result records keyed without the bus')

# ================================================================================================ C08
neutral('n9-redundant-pending-guard', S,
    "            if handler_id not in event.event_results:\n                event.event_result_update(\n",
    "            if True:\n                event.event_result_update(\n",
    "was mutant c08-pending-overwrite until round 9: the guard is redundant — process_event pre-creates results only for the handlers _get_applicable_handlers has just selected, and the "
    "selection leaves out every handler that already has a result (C08.7 evaluates that over the result states); a maintenance history (T-7-1) removed the guard for that reason")
mut('c08-cancel-overwrites', 'C08', ['C08.1'], M,
    "                if result.status == 'pending':\n", "                if result.status != 'completed':\n",
    'child cancellation overwrites started/error results')
mut('c08-assign-outside-update', 'C08', ['C08.2'], S,
    "            event.event_result_update(handler=handler, eventbus=self, error=handler_timeout_error)\n            event.event_cancel_pending_child_processing(handler_timeout_error)\n",
    "            event.event_result_update(handler=handler, eventbus=self, error=handler_timeout_error)\n            event_result.status = 'error'\n            event.event_cancel_pending_child_processing(handler_timeout_error)\n",
    'status assigned outside EventResult.update')
mut('c08-completed-at-overwritten', 'C08', ['C08.2'], M,
    "        if self.status in ('completed', 'error') and not self.completed_at:\n", "        if self.status in ('completed', 'error'):\n",
    'completed_at rewritten on every update')
mut('c08-second-terminal-update', 'C08', ['C08.2'], S,
    "            return cast(T_EventResultType, result_value)\n",
    "            if isinstance(result_value, BaseEvent):\n                event.event_result_update(handler=handler, eventbus=self, result=None)\n            return cast(T_EventResultType, result_value)\n",
    'a second terminal update after the first')
mut('c08-timeout-no-error-update', 'C08', ['C08.2'], S,
    "            event.event_result_update(handler=handler, eventbus=self, error=handler_timeout_error)\n            event.event_cancel_pending_child_processing(handler_timeout_error)\n",
    "            event.event_cancel_pending_child_processing(handler_timeout_error)\n",
    'TimeoutError exit without a terminal update')
mut('c08-cancel-no-error-update', 'C08', ['C08.2'], S,
    "            event.event_result_update(handler=handler, eventbus=self, error=handler_interrupted_error)\n", "",
    'CancelledError exit without a terminal update')
mut('c08-terminal-update-in-process', 'C08', ['C08.2'], S,
    "        await self._default_log_handler(event)\n",
    "        for _hid, _h in applicable_handlers.items():\n            if event.event_results[_hid].status == 'started':\n                event.event_result_update(handler=_h, eventbus=self, error=RuntimeError('stuck'))\n        await self._default_log_handler(event)\n",
    'process_event finalises results itself')

# ================================================================================================ C09
mut('c09-missing-reset', 'C09', ['C09.1'], S,
    "            _current_handler_id_context.reset(handler_id_token)\n", "            pass\n",
    'handler id context never reset')
mut('c09-reset-outside-finally', 'C09', ['C09.1'], S,
    "        finally:\n            # Reset context\n            _current_event_context.reset(token)\n",
    "        finally:\n            # Reset context\n            if handler_task is None or handler_task.done():\n                _current_event_context.reset(token)\n",
    'current-event context not reset when the handler task is still running (cancellation)')
mut('c09-await-between-set-and-try', 'C09', ['C09.1', 'C09.5'], S,
    "        handler_task = None\n        try:\n            if inspect.iscoroutinefunction(handler):",
    "        handler_task = None\n        await asyncio.sleep(0)\n        try:\n            if inspect.iscoroutinefunction(handler):",
    'a suspension point between the context sets and the try: cancellation there leaks the context')
mut('c09-parent-overwritten', 'C09', ['C09.2'], S,
    "        if event.event_parent_id is None:\n            current_event: 'BaseEvent[Any] | None' = _current_event_context.get()",
    "        if True:\n            current_event: 'BaseEvent[Any] | None' = _current_event_context.get()",
    'explicit parent id overwritten')
mut('c09-revert-f8', 'C09', ['C09.3'], S,
    "            if current_event is not None and current_event.event_id != event.event_id:\n                event.event_parent_id = current_event.event_id",
    "            if current_event is not None:\n                event.event_parent_id = current_event.event_id",
    'forwarded root becomes its own parent (F8 reverted)')
mut('c09-child-self', 'C09', ['C09.3'], S,
    "                        if event.event_id != current_event.event_id:\n                            current_event", "                        if True:\n                            current_event",
    'forwarded event recorded as its own child')
mut('c09-append-to-last-result', 'C09', ['C09.4'], S,
    "                            current_event.event_results[current_handler_id].event_children.append(event)",
    "                            list(current_event.event_results.values())[-1].event_children.append(event)",
    'child attributed to the last result instead of the current handler')
mut('c09-handler-id-from-elsewhere', 'C09', ['C09.4'], S,
    "                current_handler_id = _current_handler_id_context.get()\n                if current_handler_id is not None and inside_handler_context.get():",
    "                current_handler_id = next(iter(event.event_results), None) or _current_handler_id_context.get()\n                if current_handler_id is not None and inside_handler_context.get():",
    'handler id not taken from the context variable')
mut('c09-set-after-invocation', 'C09', ['C09.5'], S,
    "        # Set the current handler ID so child events can be tracked\n        handler_id_token = _current_handler_id_context.set(handler_id)\n",
    "        handler_id_token = None\n",
    'handler id context never set before the handler runs')
mut('c09-ctx-written-in-dispatch', 'C09', ['C09.6'], S,
    "        # Auto-start if needed\n        self._start()\n",
    "        # Auto-start if needed\n        _current_event_context.set(event)\n        self._start()\n",
    'dispatch overwrites the current-event context')

# ================================================================================================ C10
mut('c10-timeout-from-param', 'C10', ['C10.1'], S,
    "                result_value: Any = await asyncio.wait_for(handler_task, timeout=event_result.timeout)",
    "                result_value: Any = await asyncio.wait_for(handler_task, timeout=timeout)",
    "handler runs under the step timeout (usually None) instead of the event's timeout")
mut('c10-no-wait-for', 'C10', ['C10.1'], S,
    "                result_value: Any = await asyncio.wait_for(handler_task, timeout=event_result.timeout)",
    "                result_value: Any = await handler_task",
    'handler awaited without a timeout')
mut('c10-result-timeout-const', 'C10', ['C10.1'], M,
    "                    timeout=self.event_timeout,\n                    result_type=self.event_result_type,",
    "                    timeout=300.0,\n                    result_type=self.event_result_type,",
    'result record timeout is a constant')
mut('c10-no-cancel-children', 'C10', ['C10.2'], S,
    "            event.event_cancel_pending_child_processing(handler_timeout_error)\n", "",
    'pending child results are left pending after a timeout')
mut('c10-timeout-raises-baseexception', 'C10', ['C10.2'], S,
    "            raise handler_timeout_error from e\n", "            raise asyncio.CancelledError(str(handler_timeout_error)) from e\n",
    'timeout surfaces as CancelledError: not contained by _execute_handlers')
mut('c10-cleanup-unbounded', 'C10', ['C10.3'], S,
    "                    await asyncio.wait_for(handler_task, timeout=0.1)\n", "                    await asyncio.wait_for(handler_task, timeout=None)\n",
    'cleanup wait on the cancelled task is unbounded')
mut('c10-no-cancel-task', 'C10', ['C10.3'], S,
    "            if handler_task and not handler_task.done():\n                handler_task.cancel()\n",
    "            if handler_task and not handler_task.done() and event_result.timeout:\n                handler_task.cancel()\n",
    'handler task not cancelled when the event has no timeout')
mut('c10-cancel-nonpending', 'C10', ['C10.4'], M,
    "                if result.status == 'pending':\n", "                if result.status in ('pending', 'started'):\n",
    'started child results are overwritten')
mut('c10-no-recursion', 'C10', ['C10.4'], M,
    "            child_event.event_cancel_pending_child_processing(error)\n", "            pass\n",
    'grandchildren are not cancelled')
mut('c10-revert-f5a-step', 'C10', ['C10.5'], S,
    "        try:\n            async with _get_global_lock():\n                # Process the event\n                await self.process_event(event, timeout=timeout)\n        finally:\n            # Mark task as done only if we got it from the queue, also when processing was interrupted or we were\n            # cancelled while still waiting for the lock, otherwise event_queue.join() would wait forever\n            if from_queue:\n                self.event_queue.task_done()\n",
    "        async with _get_global_lock():\n            # Process the event\n            await self.process_event(event, timeout=timeout)\n            if from_queue:\n                self.event_queue.task_done()\n",
    'task_done skipped when processing is interrupted (F5a reverted in step)')
mut('c10-revert-f5c-step', 'C10', ['C10.5'], S,
    "        try:\n            async with _get_global_lock():\n                # Process the event\n                await self.process_event(event, timeout=timeout)\n        finally:\n            # Mark task as done only if we got it from the queue, also when processing was interrupted or we were\n            # cancelled while still waiting for the lock, otherwise event_queue.join() would wait forever\n            if from_queue:\n                self.event_queue.task_done()\n",
    "        async with _get_global_lock():\n            # Process the event\n            try:\n                await self.process_event(event, timeout=timeout)\n            finally:\n                if from_queue:\n                    self.event_queue.task_done()\n",
    'task_done skipped when cancelled while waiting for the lock (F5c reverted)')
mut('c10-revert-f5a-inline', 'C10', ['C10.5'], M,
    "                                    try:\n                                        await bus.process_event(event)\n                                    finally:\n                                        # always balance the get_nowait(), also when we are cancelled mid-processing,\n                                        # otherwise bus.event_queue.join() / wait_until_idle() would hang forever\n                                        bus.event_queue.task_done()\n",
    "                                    await bus.process_event(event)\n                                    bus.event_queue.task_done()\n",
    'inline loop: task_done skipped on cancellation (F5a reverted)')
mut('c10-task-done-unconditional', 'C10', ['C10.5'], S,
    "            if from_queue:\n                self.event_queue.task_done()\n", "            self.event_queue.task_done()\n",
    'task_done for events that were passed in, not dequeued')
mut('c10-new-cancel-point-before-mark', 'C10', ['C10.6'], S,
    "        # Mark event as complete if all handlers are done\n        event.event_mark_complete_if_all_handlers_completed()\n",
    "        await asyncio.sleep(0)\n        # Mark event as complete if all handlers are done\n        event.event_mark_complete_if_all_handlers_completed()\n",
    'a new suspension point before the marking step (a new key, not absorbed by F5b)')

# ================================================================================================ C11
mut('c11-narrow-except', 'C11', ['C11.1'], S,
    "                    await self.execute_handler(event, handler, timeout=timeout)\n                except Exception as e:",
    "                    await self.execute_handler(event, handler, timeout=timeout)\n                except ValueError as e:",
    'only ValueError is contained')
mut('c11-reraise-in-loop', 'C11', ['C11.1'], S,
    "                    logger.debug(\n                        f'❌ {self} Handler {get_handler_name(handler)}#{str(id(handler))[-4:]}({event}) failed with {type(e).__name__}: {e}'\n                    )\n                    pass\n",
    "                    if isinstance(e, TimeoutError):\n                        raise\n",
    'timeouts propagate out of the serial loop')
mut('c11-record-wrapped', 'C11', ['C11.2'], S,
    "            # Record error\n            event.event_result_update(handler=handler, eventbus=self, error=e)\n",
    "            # Record error\n            event.event_result_update(handler=handler, eventbus=self, error=RuntimeError(str(e)))\n",
    'recorded error is a wrapper')
mut('c11-swallow-in-execute-handler', 'C11', ['C11.2'], S,
    "                f'❌ {self} Error in event handler {get_handler_name(handler)}({event}) -> \\n{red}{type(e).__name__}({e}){reset}\\n{_log_filtered_traceback(e)}',\n            )\n            raise\n",
    "                f'❌ {self} Error in event handler {get_handler_name(handler)}({event}) -> \\n{red}{type(e).__name__}({e}){reset}\\n{_log_filtered_traceback(e)}',\n            )\n            raise RuntimeError('handler failed') from e\n",
    'a different exception is propagated')
mut('c11-await-raises', 'C11', ['C11.3'], M,
    "            # Return the completed event without raising errors\n",
    "            for result in self.event_results.values():\n                if result.error:\n                    raise result.error\n            # Return the completed event without raising errors\n",
    'await raises handler errors')
mut('c11-wrap-error', 'C11', ['C11.4'], M,
    "                raise original_error\n", "                raise RuntimeError(str(original_error))\n",
    'accessor raises a wrapper')
mut('c11-raise-when-flag-false', 'C11', ['C11.4'], M,
    "        if raise_if_any and error_results:\n", "        if error_results:\n",
    'accessor raises although raise_if_any is false')
mut('c11-raise-first-included', 'C11', ['C11.4'], M,
    "            original_error = failing_result.error or cast(Any, failing_result.result)\n",
    "            original_error = ValueError(f'handler {failing_handler} failed')\n",
    'raised object is not the recorded one')
mut('c11-no-conversion', 'C11', ['C11.5'], M,
    "        if 'result' in kwargs and isinstance(kwargs['result'], BaseException):", "        if False and 'result' in kwargs and isinstance(kwargs['result'], BaseException):",
    'returned exception objects are stored as completed results')
mut('c11-conversion-order', 'C11', ['C11.5'], M,
    "            kwargs['error'] = kwargs['result']\n            kwargs['status'] = 'error'\n            kwargs['result'] = None\n",
    "            kwargs['result'] = None\n            kwargs['error'] = kwargs['result']\n            kwargs['status'] = 'error'\n",
    'error set from the already-cleared result')

# ================================================================================================ C12
mut('c12-skip-validation-lists', 'C12', ['C12.1'], M,
    "                if isinstance(result, BaseEvent):\n                    self.result = cast(T_EventResultType, result)\n",
    "                if isinstance(result, (BaseEvent, list)):\n                    self.result = cast(T_EventResultType, result)\n",
    'list results stored without validation')
mut('c12-store-raw-after-validate', 'C12', ['C12.1'], M,
    "                        self.result = cast(T_EventResultType, validated_result)\n",
    "                        self.result = cast(T_EventResultType, result)\n",
    'raw value stored instead of the validated one')
mut('c12-validation-error-keeps-value', 'C12', ['C12.1'], M,
    "                        self.result = None\n                        self.status = 'error'\n",
    "                        self.result = cast(T_EventResultType, result)\n                        self.status = 'error'\n",
    'a non-conforming value is kept on the error result')
mut('c12-validation-error-completed', 'C12', ['C12.1'], M,
    "                        self.result = None\n                        self.status = 'error'\n",
    "                        self.result = None\n",
    'a non-conforming value ends completed with result None')
mut('c12-revert-f12', 'C12', ['C12.2'], M,
    "                        if isinstance(self.result_type, type) and issubclass(self.result_type, BaseModel):",
    "                        if issubclass(self.result_type, BaseModel):",
    'issubclass on non-class result types (F12 reverted)')
mut('c12-name-deref', 'C12', ['C12.2'], M,
    "                        result_type_name = getattr(self.result_type, '__name__', None) or str(self.result_type)\n",
    "                        result_type_name = self.result_type.__name__\n",
    '__name__ dereferenced on a non-class type')
mut('c12-swap-flags', 'C12', ['C12.3'], M,
    "        valid_results = await self.event_results_filtered(\n            timeout=timeout, include=include, raise_if_any=raise_if_any, raise_if_none=raise_if_none\n        )\n        return [cast(",
    "        valid_results = await self.event_results_filtered(\n            timeout=timeout, include=include, raise_if_any=raise_if_none, raise_if_none=raise_if_any\n        )\n        return [cast(",
    'event_results_list swaps raise_if_any / raise_if_none')
mut('c12-sorted-values', 'C12', ['C12.3'], M,
    "        return [cast(T_EventResultType | None, event_result.result) for event_result in valid_results.values()]",
    "        return [cast(T_EventResultType | None, event_result.result) for event_result in sorted(valid_results.values(), key=lambda r: r.handler_name)]",
    'list view sorted by handler name')
mut('c12-last-result', 'C12', ['C12.3'], M,
    "        return cast(T_EventResultType | None, results[0].result) if results else None",
    "        return cast(T_EventResultType | None, results[-1].result) if results else None",
    'event_result returns the last result')
mut('c12-flat-list-drops-include', 'C12', ['C12.3'], M,
    "            include=lambda event_result: isinstance(event_result.result, list) and include(event_result),",
    "            include=lambda event_result: isinstance(event_result.result, list),",
    'flat_list ignores the caller\'s include filter')
mut('c12-by-name-filters', 'C12', ['C12.3'], M,
    "            event_result.handler_name: cast(T_EventResultType | None, event_result.result)\n            for event_result in included_results.values()\n",
    "            event_result.handler_name: cast(T_EventResultType | None, event_result.result)\n            for event_result in included_results.values()\n            if event_result.result is not None\n",
    'by_handler_name drops None values')
mut('c12-include-plus-filter', 'C12', ['C12.4'], M,
    "            handler_key: event_result for handler_key, event_result in event_results.items() if include(event_result)\n",
    "            handler_key: event_result for handler_key, event_result in event_results.items() if include(event_result) and event_result.completed_at\n",
    'included set filtered by more than include')
mut('c12-raise-if-none-inverted', 'C12', ['C12.4'], M,
    "        if raise_if_none and not included_results:\n", "        if raise_if_none and not event_results:\n",
    'raise_if_none tests all results instead of the included ones')

# ================================================================================================ C13
mut('c13-no-bound-after-insert', 'C13', ['C13.1'], S,
    "        # Clean up if over the limit\n        if self.max_history_size and len(self.event_history) > self.max_history_size:\n            self.cleanup_event_history()\n\n        return event",
    "        return event",
    'dispatch no longer trims the history')
mut('c13-bound-step-conditional', 'C13', ['C13.1'], S,
    "        # Clean up if over the limit\n        if self.max_history_size and len(self.event_history) > self.max_history_size:\n            self.cleanup_event_history()\n\n        return event",
    "        # Clean up if over the limit\n        if self.max_history_size and len(self.event_history) > self.max_history_size and event.event_parent_id is None:\n            self.cleanup_event_history()\n\n        return event",
    'child events do not trigger trimming')
mut('c13-no-bound-after-process', 'C13', ['C13.1'], S,
    "        # Clean up excess events to prevent memory leaks\n        if self.max_history_size:\n            self.cleanup_event_history()\n\n    def _get_applicable_handlers",
    "        # Clean up excess events to prevent memory leaks\n        if self.max_history_size and not self.events_started:\n            self.cleanup_event_history()\n\n    def _get_applicable_handlers",
    'no trimming while anything is started')
mut('c13-off-by-one', 'C13', ['C13.2'], S,
    "        events_to_remove_count = total_events - self.max_history_size\n", "        events_to_remove_count = total_events - self.max_history_size - 1\n",
    'leaves N+1 events')
mut('c13-started-first', 'C13', ['C13.2'], S,
    "            elif event.event_status == 'started':\n                started_events.append((event_id, event))\n            else:  # completed or error\n                completed_events.append((event_id, event))",
    "            elif event.event_status == 'started':\n                completed_events.append((event_id, event))\n            else:  # completed or error\n                started_events.append((event_id, event))",
    'started and completed lists swapped')
mut('c13-slice-from-end', 'C13', ['C13.2'], S,
    "            events_to_remove.extend([event_id for event_id, _ in completed_events[:remove_from_completed]])",
    "            events_to_remove.extend([event_id for event_id, _ in completed_events[-remove_from_completed:]])",
    'newest completed events evicted first')
mut('c13-sort-descending', 'C13', ['C13.2'], S,
    "        completed_events.sort(key=lambda x: x[1].event_created_at.timestamp())  # pyright",
    "        completed_events.sort(key=lambda x: x[1].event_created_at.timestamp(), reverse=True)  # pyright",
    'completed events sorted newest-first')
mut('c13-pending-before-started', 'C13', ['C13.2'], S,
    "            events_to_remove.extend([event_id for event_id, _ in started_events[:remove_from_started]])",
    "            events_to_remove.extend([event_id for event_id, _ in pending_events[:remove_from_started]])",
    'pending events evicted in the started block')
mut('c13-no-decrement', 'C13', ['C13.2'], S,
    "            events_to_remove_count -= remove_from_completed\n", "",
    'in-flight events evicted although enough completed ones were removed')
mut('c13-blind-cleanup-called', 'C13', ['C13.3'], S,
    "        # Clean up if over the limit\n        if self.max_history_size and len(self.event_history) > self.max_history_size:\n            self.cleanup_event_history()\n",
    "        # Clean up if over the limit\n        if self.max_history_size and len(self.event_history) > self.max_history_size:\n            self.cleanup_event_history()\n            self.cleanup_excess_events()\n",
    'status-blind cleanup called from dispatch')
mut('c13-delete-elsewhere', 'C13', ['C13.3'], S,
    "        # Mark event as complete if all handlers are done\n        event.event_mark_complete_if_all_handlers_completed()\n",
    "        # Mark event as complete if all handlers are done\n        event.event_mark_complete_if_all_handlers_completed()\n        if event.event_parent_id is None and event.event_id in self.event_history and not event.event_results:\n            del self.event_history[event.event_id]\n",
    'process_event deletes events from the history')
mut('c13-stop-always-clears', 'C13', ['C13.3'], S,
    "        if clear:\n            self.event_history.clear()\n", "        if clear or timeout == 0:\n            self.event_history.clear()\n",
    'stop(timeout=0) clears the history')

# ================================================================================================ C14
mut2('c14-revert-f3', 'C14', ['C14.1'], [
    (S, "        # Add this EventBus to the event_path if not already there\n",
        "        _hid = _current_handler_id_context.get()\n        if _hid is not None and inside_handler_context.get():\n            _cur = _current_event_context.get()\n            if _cur is not None and _hid in _cur.event_results and event.event_id != _cur.event_id:\n                _cur.event_results[_hid].event_children.append(event)\n        # Add this EventBus to the event_path if not already there\n"),
    (S, "                        if event.event_id != current_event.event_id:\n                            current_event.event_results[current_handler_id].event_children.append(event)\n",
        "                        pass\n"),
], 'child registered before the capacity check (F3 reverted)')
mut('c14-raise-after-registration', 'C14', ['C14.1'], S,
    "                logger.info(\n                    f'🗣️ {self}.dispatch({event.event_type})",
    "                if len(self.event_history) > 10 * (self.max_history_size or 50):\n                    raise RuntimeError('history overflow')\n                logger.info(\n                    f'🗣️ {self}.dispatch({event.event_type})",
    'a new reject point after the child registration')
mut('c14-history-before-put', 'C14', ['C14.2'], S,
    "                self.event_queue.put_nowait(event)\n                # Only add to history after successfully queuing\n                self.event_history[event.event_id] = event\n",
    "                self.event_history[event.event_id] = event\n                self.event_queue.put_nowait(event)\n",
    'history insert before the enqueue')
mut('c14-swallow-queuefull', 'C14', ['C14.2', 'C14.3'], S,
    "                raise  # could also block indefinitely until queue has space, but dont drop silently or delete events\n",
    "                pass\n",
    'QueueFull swallowed: the event is dropped silently')
mut('c14-queue-reset-on-stop', 'C14', ['C14.3'], S,
    "        # Clear references\n        self._runloop_task = None\n", "        # Clear references\n        self._runloop_task = None\n        self.event_queue = None\n",
    'stop() resets event_queue to None: a later dispatch can take the silent else-arm')
mut('c14-early-return', 'C14', ['C14.3'], S,
    "        # Auto-start if needed\n        self._start()\n",
    "        if len(event.event_path) > 1 and event.event_status == 'pending':\n            return event\n        # Auto-start if needed\n        self._start()\n",
    'a forwarded event that is still pending is returned without being enqueued on this bus (an event that is already in THIS bus\'s history would be a different matter: it was enqueued here before)')
mut('c14-no-history', 'C14', ['C14.3'], S,
    "                # Only add to history after successfully queuing\n                self.event_history[event.event_id] = event\n",
    "                # Only add to history after successfully queuing\n                if self.max_history_size != 0:\n                    self.event_history[event.event_id] = event\n",
    'accepted events not always recorded')
mut('c14-step-drops', 'C14', ['C14.4'], S,
    "        logger.debug(f'🏃 {self}.step({event}) STARTING')\n",
    "        logger.debug(f'🏃 {self}.step({event}) STARTING')\n        if event.event_timeout == 0:\n            return event\n",
    'an accepted event is not processed')

# ================================================================================================ C15
mut('c15-drop-recheck-loop', 'C15', ['C15.1'], S,
    "            while not self._on_idle.is_set() or self.events_started or self.events_pending:",
    "            while False:",
    're-check loop removed')
mut('c15-no-pending-term', 'C15', ['C15.1'], S,
    "            while not self._on_idle.is_set() or self.events_started or self.events_pending:",
    "            while not self._on_idle.is_set() or self.events_started:",
    'pending events not re-checked')
mut('c15-early-return', 'C15', ['C15.1'], S,
    "            # Wait for idle state\n            idle_task = asyncio.create_task(self._on_idle.wait())\n",
    "            if not self.event_history:\n                return\n            # Wait for idle state\n            idle_task = asyncio.create_task(self._on_idle.wait())\n",
    'early return that skips the re-check')
mut('c15-break-in-loop', 'C15', ['C15.1'], S,
    "                # Clear and wait again\n                self._on_idle.clear()\n",
    "                if not self.events_started:\n                    break\n                # Clear and wait again\n                self._on_idle.clear()\n",
    'loop left while events are pending')
mut('c15-timeout-without-timeout', 'C15', ['C15.1'], S,
    "                if timeout is not None:\n                    elapsed = asyncio.get_event_loop().time() - start_time\n                    remaining_timeout = max(0, timeout - elapsed)\n                    if remaining_timeout <= 0:\n                        raise TimeoutError()\n",
    "                elapsed = asyncio.get_event_loop().time() - start_time\n                if elapsed > 60:\n                    raise TimeoutError()\n",
    'gives up after 60 s even without a timeout')
mut('c15-sleep-after-test', 'C15', ['C15.1'], S,
    "        except TimeoutError:\n            logger.warning(\n                f'⌛️ {self} Timeout waiting for event bus to be idle",
    "            await asyncio.sleep(0)\n        except TimeoutError:\n            logger.warning(\n                f'⌛️ {self} Timeout waiting for event bus to be idle",
    'a suspension point between the final test and the return')
mut('c15-unconditional-idle', 'C15', ['C15.2'], S,
    "                    if self._on_idle and self.event_queue:\n                        if not (self.events_pending or self.events_started or self.event_queue.qsize()):\n                            self._on_idle.set()\n",
    "                    if self._on_idle and self.event_queue:\n                        self._on_idle.set()\n",
    'flag set after every step')
mut('c15-idle-ignores-queue', 'C15', ['C15.2'], S,
    "                if not (self.events_pending or self.events_started or self.event_queue.qsize()):\n                    self._on_idle.set()\n                return None\n",
    "                if not (self.events_pending or self.events_started):\n                    self._on_idle.set()\n                return None\n",
    'idle although events are queued')
mut('c15-no-clear-in-step', 'C15', ['C15.2'], S,
    "        # Clear idle state when we get an event\n        self._on_idle.clear()\n", "",
    'flag stays set while processing')
mut('c15-no-join', 'C15', ['C15.3'], S,
    "            join_task = asyncio.create_task(self.event_queue.join())\n            await asyncio.wait_for(join_task, timeout=remaining_timeout)\n",
    "            join_task = asyncio.create_task(self.event_queue.join())\n",
    'join task never awaited')
mut('c15-no-task-done', 'C15', ['C15.4'], S,
    "            if from_queue:\n                self.event_queue.task_done()\n", "            pass\n",
    'task_done removed from step')
mut('c15-new-raise-before-mark', 'C15', ['C15.5'], S,
    "        # Execute handlers\n        await self._execute_handlers(event, handlers=applicable_handlers, timeout=timeout)\n",
    "        if len(applicable_handlers) > 64:\n            raise ValueError('too many handlers')\n        # Execute handlers\n        await self._execute_handlers(event, handlers=applicable_handlers, timeout=timeout)\n",
    'a new exception leaves an event pending forever (new key)')

# ================================================================================================ C16
mut('c16-await-runloop-unbounded', 'C16', ['C16.1'], S,
    "            await asyncio.wait({self._runloop_task}, timeout=0.1)\n", "            await self._runloop_task\n",
    'stop() waits for the run loop without bound')
mut('c16-wait-idle-without-timeout', 'C16', ['C16.1'], S,
    "        if timeout is not None and timeout > 0:\n            try:\n                await self.wait_until_idle(timeout=timeout)",
    "        if timeout is None or timeout > 0:\n            try:\n                await self.wait_until_idle(timeout=timeout)",
    'stop() without timeout waits for idle forever')
mut('c16-wui-unbounded-wait', 'C16', ['C16.1'], S,
    "                idle_task = asyncio.create_task(self._on_idle.wait())\n                await asyncio.wait_for(idle_task, timeout=remaining_timeout)\n                await asyncio.sleep(0)  # Yield again",
    "                idle_task = asyncio.create_task(self._on_idle.wait())\n                await idle_task\n                await asyncio.sleep(0)  # Yield again",
    'wait_until_idle re-check waits without the remaining timeout')
mut('c16-running-false-late', 'C16', ['C16.2'], S,
    "        # Signal shutdown\n        self._is_running = False\n\n        # Shutdown the queue to unblock any pending get() operations\n        if self.event_queue:\n            self.event_queue.shutdown()\n",
    "        # Shutdown the queue to unblock any pending get() operations\n        if self.event_queue:\n            self.event_queue.shutdown()\n",
    '_is_running never cleared before waiting')
mut('c16-no-shutdown', 'C16', ['C16.2'], S,
    "        if self.event_queue:\n            self.event_queue.shutdown()\n\n        # print('STOPPING'", "        # print('STOPPING'",
    'queue not shut down before waiting')
mut('c16-no-cancel', 'C16', ['C16.2'], S,
    "            try:\n                self._runloop_task.cancel()\n            except Exception:\n                pass\n", "            pass\n",
    'hanging run loop not cancelled')
mut2('c16-revert-f7', 'C16', ['C16.3'], [
    (S, "        except (RuntimeError, QueueShutDown):\n            # Queue was shut down or the event loop is closing",
        "        except (asyncio.CancelledError, RuntimeError, QueueShutDown):\n            # Queue was shut down or the event loop is closing"),
    (S, "                current_task = asyncio.current_task()\n                if current_task is not None and current_task.cancelling():\n                    break\n", ""),
], 'CancelledError swallowed while polling and no cancelling() re-check in the run loop (F7 and F16 reverted)')
mut('c16-cancel-arm-inside-while', 'C16', ['C16.3'], S,
    "                except QueueShutDown:\n                    # Queue was shut down, exit cleanly\n                    break\n",
    "                except QueueShutDown:\n                    # Queue was shut down, exit cleanly\n                    break\n                except asyncio.CancelledError:\n                    continue\n",
    'run loop swallows cancellation inside its while')
mut2('c16-bare-except-in-step', 'C16', ['C16.3'], [
    (S, "            event = await self._get_next_event(wait_for_timeout=wait_for_timeout)\n            from_queue = True\n",
        "            try:\n                event = await self._get_next_event(wait_for_timeout=wait_for_timeout)\n            except BaseException:\n                event = None\n            from_queue = True\n"),
    (S, "                current_task = asyncio.current_task()\n                if current_task is not None and current_task.cancelling():\n                    break\n", ""),
], 'step swallows every BaseException from polling and the run loop does not re-check cancelling()')
mut('c16-revert-f15', 'C16', ['C16.4'], M,
    "                            if not bus or not bus.event_queue or not bus._is_running:  # pyright: ignore[reportPrivateUsage]",
    "                            if not bus or not bus.event_queue:",
    'inline loop drains stopped buses (F15 reverted)')
mut('c16-get-next-no-running-check', 'C16', ['C16.4'], S,
    "        if not self._is_running:\n            return None\n\n        try:\n            # Create a task for queue.get() so we can cancel it cleanly",
    "        try:\n            # Create a task for queue.get() so we can cancel it cleanly",
    'polling does not check _is_running first')

# ================================================================================================ C17
mut('c17-wal-before-handlers', 'C17', ['C17.1'], S,
    "        # Execute handlers\n        await self._execute_handlers(event, handlers=applicable_handlers, timeout=timeout)\n\n        await self._default_log_handler(event)\n        await self._default_wal_handler(event)\n",
    "        await self._default_wal_handler(event)\n        # Execute handlers\n        await self._execute_handlers(event, handlers=applicable_handlers, timeout=timeout)\n\n        await self._default_log_handler(event)\n",
    'WAL line written before the handlers ran')
mut('c17-wal-twice', 'C17', ['C17.1'], S,
    "        await self._default_wal_handler(event)\n\n        # Mark event as complete if all handlers are done\n        event.event_mark_complete_if_all_handlers_completed()\n",
    "        await self._default_wal_handler(event)\n\n        # Mark event as complete if all handlers are done\n        event.event_mark_complete_if_all_handlers_completed()\n        if event.event_parent_id:\n            await self._default_wal_handler(event)\n",
    'child events logged twice')
mut('c17-wal-conditional', 'C17', ['C17.1'], S,
    "        await self._default_wal_handler(event)\n\n        # Mark event as complete",
    "        if applicable_handlers:\n            await self._default_wal_handler(event)\n\n        # Mark event as complete",
    'events without handlers are not logged')
mut('c17-mode-w', 'C17', ['C17.2'], S,
    "anyio.open_file(self.wal_path, 'a', encoding='utf-8')", "anyio.open_file(self.wal_path, 'w', encoding='utf-8')",
    'WAL truncated on every event')
mut('c17-no-newline', 'C17', ['C17.2'], S,
    "                await f.write(event_json + '\\n')", "                await f.write(event_json)",
    'lines run together')
mut('c17-indent', 'C17', ['C17.2'], S,
    "            event_json = event.model_dump_json()  # pyright", "            event_json = event.model_dump_json(indent=2)  # pyright",
    'multi-line JSON')
mut('c17-dump-subset', 'C17', ['C17.2'], S,
    "            event_json = event.model_dump_json()  # pyright", "            event_json = event.model_dump_json(exclude={'event_path'})  # pyright",
    'path omitted from the WAL line')
mut('c17-reraise', 'C17', ['C17.3'], S,
    "            logger.error(f'❌ {self} Failed to save event {event.event_id} to WAL file: {type(e).__name__} {e}\\n{event}')\n",
    "            logger.error(f'❌ {self} Failed to save event {event.event_id} to WAL file: {type(e).__name__} {e}\\n{event}')\n            raise\n",
    'WAL failure propagates')
mut('c17-dump-outside-try', 'C17', ['C17.3'], S,
    "        try:\n            event_json = event.model_dump_json()  # pyright: ignore[reportUnknownMemberType]\n",
    "        event_json = event.model_dump_json()  # pyright: ignore[reportUnknownMemberType]\n        try:\n",
    'serialisation errors escape the WAL handler')
mut('c17-narrow-except', 'C17', ['C17.3'], S,
    "        except Exception as e:\n            logger.error(f'❌ {self} Failed to save event", "        except OSError as e:\n            logger.error(f'❌ {self} Failed to save event",
    'only OSError contained')
mut('c17-exclude-parent', 'C17', ['C17.4'], M,
    "        default=None, description='ID of the parent event that triggered this event', max_length=36\n",
    "        default=None, description='ID of the parent event that triggered this event', max_length=36, exclude=True\n",
    'parent id excluded from dumps')
mut('c17-extra-forbid', 'C17', ['C17.4'], M,
    "    model_config = ConfigDict(\n        extra='allow',", "    model_config = ConfigDict(\n        extra='ignore',",
    'payload fields dropped on validation')

# ================================================================================================ C18
mut('c18-removal-not-in-finally', 'C18', ['C18.1'], S,
    "        try:\n            # Wait for the future with optional timeout\n            if timeout is not None:\n                return await asyncio.wait_for(future, timeout=timeout)\n            else:\n                return await future\n        finally:\n            # Clean up handler\n",
    "        try:\n            # Wait for the future with optional timeout\n            if timeout is not None:\n                return await asyncio.wait_for(future, timeout=timeout)\n            else:\n                return await future\n        except TimeoutError:\n            raise\n        else:\n            # Clean up handler\n",
    'handler removed only on success')
mut('c18-removal-only-if-done', 'C18', ['C18.1'], S,
    "            if event_key in self.handlers and notify_expect_handler in self.handlers[event_key]:\n",
    "            if future.done() and event_key in self.handlers and notify_expect_handler in self.handlers[event_key]:\n",
    'handler stays subscribed after a timeout / cancellation')
mut('c18-await-before-try', 'C18', ['C18.1'], S,
    "        self.on(event_type, notify_expect_handler)\n\n        try:\n",
    "        self.on(event_type, notify_expect_handler)\n        await asyncio.sleep(0)\n\n        try:\n",
    'cancellation between registration and try leaks the handler')
mut('c18-key-str-for-classes', 'C18', ['C18.2'], S,
    "            event_key: str = str.__str__(event_type) if isinstance(event_type, str) else str(event_type)\n            if isinstance(event_type, type):\n",
    "            event_key: str = str.__str__(event_type) if isinstance(event_type, str) else str(event_type)\n            if False:\n",
    'class patterns never unsubscribed')
mut('c18-no-exclude', 'C18', ['C18.3'], S,
    "            if not future.done() and include(event) and not exclude(event):", "            if not future.done() and include(event):",
    'excluded events resolve the future')
mut('c18-no-done-check', 'C18', ['C18.3'], S,
    "            if not future.done() and include(event) and not exclude(event):", "            if include(event) and not exclude(event):",
    'second match raises InvalidStateError')
mut('c18-or-merge', 'C18', ['C18.3'], S,
    "orig(e) and pred(e)", "orig(e) or pred(e)",
    'include OR predicate')
mut('c18-swallow-timeout', 'C18', ['C18.4'], S,
    "                return await asyncio.wait_for(future, timeout=timeout)\n",
    "                try:\n                    return await asyncio.wait_for(future, timeout=timeout)\n                except TimeoutError:\n                    return None  # type: ignore\n",
    'timeout returns None instead of raising')
mut('c18-ignore-timeout', 'C18', ['C18.4'], S,
    "                return await asyncio.wait_for(future, timeout=timeout)\n", "                return await asyncio.wait_for(future, timeout=None)\n",
    'timeout ignored')

mut('c18-revert-f17-expect', 'C18', ['C18.2'], S,
    "                if isinstance(declared_event_type, str) and declared_event_type != 'UndefinedEvent':\n                    event_key = declared_event_type\n                else:\n                    event_key = event_type.__name__",
    "                event_key = event_type.__name__",
    'expect(<class declaring event_type>) removes its temporary handler from the class-name key it was never filed under (F17 reverted in expect)')
# ================================================================================================ C19
mut('c19-range-retries', 'C19', ['C19.1'], H,
    "    for attempt in range(retries + 1):", "    for attempt in range(retries):",
    'one attempt too few')
mut('c19-call-outside-timeout', 'C19', ['C19.1'], H,
    "            async with asyncio.timeout(timeout):\n                return await func(*args, **kwargs)  # type: ignore[reportCallIssue]",
    "            return await func(*args, **kwargs)  # type: ignore[reportCallIssue]",
    'attempts not cut off')
mut('c19-return-none-after-loop', 'C19', ['C19.2'], H,
    "    # This should never be reached, but satisfies type checker\n    raise RuntimeError('Unexpected state in retry logic')",
    "    # This should never be reached, but satisfies type checker\n    return None  # type: ignore",
    'returns None after the loop')
mut('c19-except-baseexception', 'C19', ['C19.3'], H,
    "        except Exception as e:\n            # Check if we should retry this exception", "        except BaseException as e:\n            # Check if we should retry this exception",
    'cancellation is retried')
mut('c19-except-valueerror', 'C19', ['C19.3'], H,
    "        except Exception as e:\n            # Check if we should retry this exception", "        except (ValueError, RuntimeError) as e:\n            # Check if we should retry this exception",
    'attempt timeouts are not retried')
mut('c19-wrapper-swallows-cancel', 'C19', ['C19.3'], H,
    "            try:\n                return await _execute_with_retries(\n                    func, args, kwargs, retries, timeout, wait, backoff_factor, retry_on, start_time, sem_start, semaphore_limit\n                )\n            finally:",
    "            try:\n                return await _execute_with_retries(\n                    func, args, kwargs, retries, timeout, wait, backoff_factor, retry_on, start_time, sem_start, semaphore_limit\n                )\n            except asyncio.CancelledError:\n                return None  # type: ignore\n            finally:",
    'wrapper swallows cancellation')
mut('c19-filter-after-sleep', 'C19', ['C19.4'], H,
    "            if retry_on is not None and not isinstance(e, retry_on):\n                raise\n\n            if attempt < retries:",
    "            if attempt < retries:",
    'retry_on filter removed')
mut('c19-filter-inverted', 'C19', ['C19.4'], H,
    "            if retry_on is not None and not isinstance(e, retry_on):\n                raise\n", "            if retry_on is not None and isinstance(e, retry_on):\n                raise\n",
    'filter inverted')
mut('c19-backoff-plus-one', 'C19', ['C19.5'], H,
    "                current_wait = wait * (backoff_factor**attempt)", "                current_wait = wait * (backoff_factor ** (attempt + 1))",
    'backoff exponent off by one')
mut('c19-backoff-linear', 'C19', ['C19.5'], H,
    "                current_wait = wait * (backoff_factor**attempt)", "                current_wait = wait * backoff_factor * attempt",
    'linear instead of exponential backoff')
mut('c19-sleep-always', 'C19', ['C19.5'], H,
    "            if attempt < retries:\n                # Calculate wait time with backoff", "            if attempt <= retries:\n                # Calculate wait time with backoff",
    'waits after the last attempt too (and never re-raises)')
mut('c19-last-error-wrapped', 'C19', ['C19.6'], H,
    "                    f'{sem_str}Final error: {type(e).__name__}: {e}'\n                )\n                raise\n",
    "                    f'{sem_str}Final error: {type(e).__name__}: {e}'\n                )\n                raise RuntimeError(f'{func.__name__} failed') from e\n",
    'last exception wrapped')
mut('c19-last-error-swallowed', 'C19', ['C19.6', 'C19.2'], H,
    "                    f'{sem_str}Final error: {type(e).__name__}: {e}'\n                )\n                raise\n",
    "                    f'{sem_str}Final error: {type(e).__name__}: {e}'\n                )\n",
    'last exception swallowed')

# ================================================================================================ C20
mut('c20-release-outside-finally', 'C20', ['C20.1'], H,
    "            finally:\n                # Clean up: decrement active operations and release semaphore\n                _track_active_operations(increment=False)\n\n                if semaphore_acquired and semaphore:",
    "            except Exception:\n                raise\n            else:\n                # Clean up: decrement active operations and release semaphore\n                _track_active_operations(increment=False)\n\n                if semaphore_acquired and semaphore:",
    'slot released only on success')
mut('c20-release-when-not-acquired', 'C20', ['C20.1'], H,
    "                if semaphore_acquired and semaphore:\n                    try:", "                if semaphore:\n                    try:",
    'released although the lax acquisition timed out')
mut('c20-await-between-acquire-and-try', 'C20', ['C20.1'], H,
    "            # Track active operations and check system overload\n            _track_active_operations(increment=True)\n",
    "            await asyncio.sleep(0)\n            # Track active operations and check system overload\n            _track_active_operations(increment=True)\n",
    'cancellation between acquire and try leaks the slot')
mut('c20-double-release', 'C20', ['C20.1'], H,
    "                        elif semaphore:\n                            semaphore.release()\n",
    "                        elif semaphore:\n                            semaphore.release()\n                        if retries == 0 and semaphore_scope != 'multiprocess':\n                            semaphore.release()\n",
    'released twice when retries == 0')
mut('c20-release-skipped-for-scope', 'C20', ['C20.1'], H,
    "                        elif semaphore:\n                            semaphore.release()\n", "                        elif semaphore and semaphore_scope == 'global':\n                            semaphore.release()\n",
    'class / self scoped slots never released')
mut('c20-true-without-acquire', 'C20', ['C20.2'], H,
    "        async with asyncio.timeout(sem_timeout):\n            await semaphore.acquire()\n            return True",
    "        if semaphore_limit > 64:\n            return True\n        async with asyncio.timeout(sem_timeout):\n            await semaphore.acquire()\n            return True",
    'reports acquired without acquiring')
mut('c20-lax-raises', 'C20', ['C20.2'], H,
    "        if not semaphore_lax:\n            raise TimeoutError(\n                f'Failed to acquire semaphore", "        if semaphore_lax:\n            raise TimeoutError(\n                f'Failed to acquire semaphore",
    'lax / non-lax behaviour swapped')
mut('c20-nonlax-returns-false', 'C20', ['C20.2'], H,
    "        if not semaphore_lax:\n            raise TimeoutError(\n                f'Failed to acquire semaphore \"{sem_key}\" within {sem_timeout}s '\n                f'(limit={semaphore_limit}, timeout={timeout}s per operation)'\n            )\n        logger.warning(\n            f'Failed to acquire semaphore \"{sem_key}\" after {sem_wait_time:.1f}s, proceeding without concurrency limit'\n        )\n        return False",
    "        logger.warning(\n            f'Failed to acquire semaphore \"{sem_key}\" after {sem_wait_time:.1f}s, proceeding without concurrency limit'\n        )\n        return False",
    'non-lax timeout lets the function run')
mut('c20-key-ignores-scope', 'C20', ['C20.3'], H,
    "        return f'{class_name}.{base_name}'", "        return base_name",
    'class scope shares the global key')
mut('c20-self-key-by-class', 'C20', ['C20.3'], H,
    "        instance_id = id(args[0])\n", "        instance_id = id(type(args[0]))\n",
    'self scope keyed by the class: instances block each other')
mut('c20-constant-limit', 'C20', ['C20.4'], H,
    "                GLOBAL_RETRY_SEMAPHORES[sem_key] = asyncio.Semaphore(semaphore_limit)", "                GLOBAL_RETRY_SEMAPHORES[sem_key] = asyncio.Semaphore(10)",
    'limit is a constant')
mut('c20-always-new-semaphore', 'C20', ['C20.4'], H,
    "            if sem_key not in GLOBAL_RETRY_SEMAPHORES or GLOBAL_RETRY_SEMAPHORE_LOOPS.get(sem_key) is not current_loop:\n",
    "            if True:\n",
    'a fresh semaphore per call: no bound')
mut('c20-revert-f13', 'C20', ['C20.5'], H,
    "            if sem_key not in GLOBAL_RETRY_SEMAPHORES or GLOBAL_RETRY_SEMAPHORE_LOOPS.get(sem_key) is not current_loop:\n",
    "            if sem_key not in GLOBAL_RETRY_SEMAPHORES:\n",
    'loop check dropped in the main branch (but still present in the fallback branch)')
mut('c20-lock-no-loop-check', 'C20', ['C20.5'], S,
    "        if self._semaphore is None or self._loop != current_loop:", "        if self._semaphore is None:",
    'global lock semaphore bound to the first loop')

# ================================================================================================ more neutral variants (refactors)
def neutral2(id: str, edits: list[tuple[str, str, str]], what: str = '') -> None:
    NEUTRALS.append({'id': id, 'edits': edits, 'what': what})


neutral2('n-rename-from-queue', [
    (S, "        from_queue = False\n", "        dequeued = False\n"),
    (S, "            from_queue = True\n", "            dequeued = True\n"),
    (S, "            if from_queue:\n                self.event_queue.task_done()", "            if dequeued:\n                self.event_queue.task_done()"),
], 'local flag renamed in step')
neutral2('n-rename-inline-event', [
    (M, "                                    event = bus.event_queue.get_nowait()\n", "                                    queued = bus.event_queue.get_nowait()\n"),
    (M, "                                        await bus.process_event(event)\n", "                                        await bus.process_event(queued)\n"),
], 'local renamed in the inline loop (F0 key changes only in its variable-independent part?)')
neutral('n-reorder-ctx-sets', S,
        "        token = _current_event_context.set(event)\n        # Mark that we're inside a handler\n        handler_token = inside_handler_context.set(True)\n",
        "        handler_token = inside_handler_context.set(True)\n        token = _current_event_context.set(event)\n",
        'independent context sets reordered')
neutral('n-nested-if-parent-id', S,
        "            if current_event is not None and current_event.event_id != event.event_id:\n                event.event_parent_id = current_event.event_id",
        "            if current_event is not None:\n                if current_event.event_id != event.event_id:\n                    event.event_parent_id = current_event.event_id",
        'conjunction split into nested ifs')
neutral('n-early-continue-inline', M,
        "                                if bus.event_queue.qsize() > 0:\n",
        "                                if bus.event_queue.qsize() >= 1:\n",
        'equivalent comparison')
neutral('n-wal-local-rename', S,
        "            event_json = event.model_dump_json()  # pyright: ignore[reportUnknownMemberType]\n            self.wal_path.parent.mkdir(parents=True, exist_ok=True)\n            async with await anyio.open_file(self.wal_path, 'a', encoding='utf-8') as f:  # pyright: ignore[reportUnknownMemberType]\n                await f.write(event_json + '\\n')",
        "            line = event.model_dump_json()  # pyright: ignore[reportUnknownMemberType]\n            self.wal_path.parent.mkdir(parents=True, exist_ok=True)\n            async with await anyio.open_file(self.wal_path, 'a', encoding='utf-8') as fh:  # pyright: ignore[reportUnknownMemberType]\n                await fh.write(line + '\\n')",
        'locals renamed in the WAL handler')
neutral('n-retry-wait-commuted', H,
        "                current_wait = wait * (backoff_factor**attempt)", "                current_wait = (backoff_factor**attempt) * wait",
        'commuted product')
neutral('n-expect-key-ifelse', S,
        "            event_key: str = str.__str__(event_type) if isinstance(event_type, str) else str(event_type)\n            if isinstance(event_type, type):\n                declared_event_type = event_type.model_fields['event_type'].default\n                if isinstance(declared_event_type, str) and declared_event_type != 'UndefinedEvent':\n                    event_key = declared_event_type\n                else:\n                    event_key = event_type.__name__  # pyright: ignore[reportUnknownMemberType]\n",
        "            if not isinstance(event_type, type):\n                event_key = str.__str__(event_type) if isinstance(event_type, str) else str(event_type)\n            else:\n                declared = event_type.model_fields['event_type'].default\n                event_key = declared if isinstance(declared, str) and declared != 'UndefinedEvent' else event_type.__name__\n",
        'key derivation in expect restructured (inverted test, conditional expression)')
neutral('n-bus-name-stricter', S,
        "        assert self.name.isidentifier() and not self.name.startswith('_'), (", "        assert not self.name.startswith('_') and self.name.isidentifier() and len(self.name) < 200, (",
        'constructor test reordered and stricter than the validator')
neutral('n-children-listcomp', M,
        "        children: list[BaseEvent[Any]] = []\n        for event_result in self.event_results.values():\n            children.extend(event_result.event_children)\n        return children",
        "        return [child for event_result in self.event_results.values() for child in event_result.event_children]",
        'loop rewritten as a comprehension')
neutral('n-mark-complete-merged-test', M,
        "            if not all_handlers_done:\n                # logger.debug(",
        "            if all_handlers_done is False or not all_handlers_done:\n                # logger.debug(",
        'redundant disjunct')

mut('c08-results-reset-on-reprocess', 'C08', ['C08.2'], S,
    "        # Create pending EventResults for all applicable handlers before execution\n",
    "        for stale_id in [hid for hid, r in event.event_results.items() if r.eventbus_id == str(id(self)) and r.status == 'error']:\n            del event.event_results[stale_id]\n        # Create pending EventResults for all applicable handlers before execution\n",
    'errored results of this bus are dropped when the event is processed again')
mut('c08-children-pruned', 'C08', ['C08.2'], M,
    "        for child_event in self.event_children:\n            for result in child_event.event_results.values():\n                if result.status == 'pending':",
    "        for event_result in self.event_results.values():\n            event_result.event_children[:] = [c for c in event_result.event_children if c.event_status != 'pending']\n        for child_event in self.event_children:\n            for result in child_event.event_results.values():\n                if result.status == 'pending':",
    'pending children are dropped from the child lists on timeout')

mut('c01-auto-unsubscribe', 'C01', ['C01.7'], S,
    "                except Exception as e:\n                    # Error already logged and recorded in execute_handler\n                    logger.debug(",
    "                except Exception as e:\n                    if isinstance(e, RuntimeError) and handler in self.handlers.get(event.event_type, []):\n                        self.handlers[event.event_type].remove(handler)\n                    # Error already logged and recorded in execute_handler\n                    logger.debug(",
    'handlers that raise RuntimeError are silently unsubscribed')
mut('c01-on-inserts-front', 'C01', ['C01.7'], S,
    "        self.handlers[event_key].append(handler)  # type: ignore\n", "        self.handlers[event_key].insert(0, handler)  # type: ignore\n",
    'handlers registered at the front (order of delivery changes; the registry protocol is append-only)')
mut('c16-wait-idle-restarts-after-stop', 'C16', ['C16.5'], S,
    "        # Clear references\n        self._runloop_task = None\n",
    "        # Clear references\n        self._runloop_task = None\n        if self.event_queue and self.event_queue.qsize() and timeout:\n            self._is_running = True\n",
    'stop() marks the bus running again when events are left')
mut('c16-stop-waits-idle-after-flag', 'C16', ['C16.5'], S,
    "        # Clear references\n        self._runloop_task = None\n",
    "        # Clear references\n        self._runloop_task = None\n        if timeout:\n            await asyncio.wait_for(self.wait_until_idle(timeout=timeout), timeout=timeout)\n",
    'stop() calls wait_until_idle() (which calls _start()) after clearing the flag: the bus is restarted')

# ================================================================================================ obligations added after the first independently written regressions
mut('c01-dispatch-early-return', 'C01', ['C01.8'], S,
    "                f'⚠️ {self}.dispatch({event.event_type}) - Bus already in path, not adding again. Path: {event.event_path}'\n            )\n",
    "                f'⚠️ {self}.dispatch({event.event_type}) - Bus already in path, not adding again. Path: {event.event_path}'\n            )\n            return event\n",
    're-dispatch to a bus already in the path returns without enqueuing')
mut('c02-wait-instead-of-join', 'C02', ['C02.5'], S,
    "                    await asyncio.wait_for(handler_task, timeout=0.1)\n                except (asyncio.CancelledError, TimeoutError):\n                    pass  # Expected when we cancel the task\n",
    "                    await asyncio.wait({handler_task}, timeout=0.1)\n                except (asyncio.CancelledError, TimeoutError):\n                    pass  # Expected when we cancel the task\n",
    'cleanup stops waiting after 0.1 s instead of joining the cancelled handler')
mut('c03-no-pending-precreate', 'C03', ['C03.6'], S,
    "        for handler_id, handler in applicable_handlers.items():\n            if handler_id not in event.event_results:\n                event.event_result_update(\n                    handler=handler, eventbus=self, status='pending', timeout=timeout or event.event_timeout\n                )\n",
    "",
    'pending results are no longer registered before the handlers run')
mut('c04-skip-buses-not-in-path', 'C04', ['C04.4'], M,
    "                            # Process one event from this bus if available\n",
    "                            if bus.name not in self.event_path:\n                                continue\n                            # Process one event from this bus if available\n",
    'inline loop only drains buses on the awaited event\'s path')
mut('c04-children-check-direct-only', 'C04', ['C04.5'], M,
    "            if not child_event.event_are_all_children_complete(_visited):\n                return False\n", "",
    'grandchildren not checked (completion signal set early)')
mut('c05-step-conditional-lock', 'C05', ['C05.3'], S,
    "            async with _get_global_lock():\n                # Process the event\n                await self.process_event(event, timeout=timeout)\n",
    "            if any(inspect.iscoroutinefunction(h) for h in self.handlers.get(event.event_type, [])):\n                async with _get_global_lock():\n                    await self.process_event(event, timeout=timeout)\n            else:\n                await self.process_event(event, timeout=timeout)\n",
    'sync-only events processed without the global lock')
mut('c06-runloop-context-keeps-lock-flag', 'C06', ['C06.3'], S,
    "                self._runloop_task = loop.create_task(self._run_loop(), name=f'{self}._run_loop')\n",
    "                self._runloop_task = loop.create_task(self._run_loop(), name=f'{self}._run_loop', context=contextvars.copy_context())\n",
    None) if False else None
mut2('c06-runloop-prepared-context-incomplete', 'C06', ['C06.3'], [
    (S, "                self._runloop_task = loop.create_task(self._run_loop(), name=f'{self}._run_loop')\n",
        "                self._runloop_task = loop.create_task(self._run_loop(), name=f'{self}._run_loop', context=contextvars.copy_context())\n"),
    (S, "        holds_global_lock.set(False)\n        inside_handler_context.set(False)\n", "        inside_handler_context.set(False)\n"),
], 'run-loop task gets an explicit copy of the creator context and no longer resets the lock flag')
mut('c08-signal-without-children', 'C08', ['C08.4'], M,
    "            if not self.event_are_all_children_complete():\n", "            if False and not self.event_are_all_children_complete():\n",
    'completion signalled before the children are complete')
mut('c08-precreate-only-first', 'C08', ['C08.5'], S,
    "        for handler_id, handler in applicable_handlers.items():\n            if handler_id not in event.event_results:\n                event.event_result_update(\n",
    "        for handler_id, handler in list(applicable_handlers.items())[:1]:\n            if handler_id not in event.event_results:\n                event.event_result_update(\n",
    'only the first handler gets a pending result')
mut('c09-inline-await-untimed', 'C09', ['C09.8'], S,
    "            if inspect.iscoroutinefunction(handler):\n                # Create a task for the handler so we can properly cancel it on timeout\n",
    "            if inspect.iscoroutinefunction(handler) and event_result.timeout is None:\n                result_value: Any = await handler(event)  # type: ignore\n            elif inspect.iscoroutinefunction(handler):\n                # Create a task for the handler so we can properly cancel it on timeout\n",
    'untimed async handlers awaited inline in the shared context')
mut('c10-inline-await-falsy-timeout', 'C10', ['C10.1'], S,
    "            if inspect.iscoroutinefunction(handler):\n                # Create a task for the handler so we can properly cancel it on timeout\n",
    "            if inspect.iscoroutinefunction(handler) and not event_result.timeout:\n                result_value: Any = await handler(event)  # type: ignore\n            elif inspect.iscoroutinefunction(handler):\n                # Create a task for the handler so we can properly cancel it on timeout\n",
    'event_timeout=0 treated like no timeout')
mut('c10-timeout-aborts-loop', 'C10', ['C10.7'], S,
    "                    await self.execute_handler(event, handler, timeout=timeout)\n                except Exception as e:",
    "                    await self.execute_handler(event, handler, timeout=timeout)\n                except (ValueError, RuntimeError) as e:",
    'a TimeoutError from one handler aborts the remaining handlers')
mut('c11-log-before-record', 'C11', ['C11.2'], S,
    "            # Record error\n            event.event_result_update(handler=handler, eventbus=self, error=e)\n\n            red = '\\033[91m'\n            reset = '\\033[0m'\n            logger.error(\n                f'❌ {self} Error in event handler {get_handler_name(handler)}({event}) -> \\n{red}{type(e).__name__}({e}){reset}\\n{_log_filtered_traceback(e)}',\n            )\n",
    "            red = '\\033[91m'\n            reset = '\\033[0m'\n            logger.error(\n                f'❌ {self} Error in event handler {get_handler_name(handler)}({event}) -> \\n{red}{type(e).__name__}({e}){reset}\\n{_log_filtered_traceback(e)}',\n            )\n            # Record error\n            event.event_result_update(handler=handler, eventbus=self, error=e)\n",
    'error logged (traceback filter can raise RecursionError on chained exceptions) before it is recorded')
mut('c12-flat-filter-in-loop', 'C12', ['C12.3'], M,
    "            include=lambda event_result: isinstance(event_result.result, list) and include(event_result),",
    "            include=include,",
    'flat_list judges raise_if_none over results of any shape')
MUTANTS[:] = [m for m in MUTANTS if m is not None]
mut('c17-skip-incomplete', 'C17', ['C17.5'], S,
    "        if not self.wal_path:\n            return None\n\n        try:\n            event_json",
    "        if not self.wal_path:\n            return None\n        if event.event_status != 'completed':\n            return None\n\n        try:\n            event_json",
    'events that are not complete yet when processed get no WAL line')
mut('c16-revert-f16', 'C16', ['C16.3'], S,
    "                current_task = asyncio.current_task()\n                if current_task is not None and current_task.cancelling():\n                    break\n",
    "",
    'run loop no longer re-checks cancelling(): cancellations absorbed by cleanup arms are lost (F16 reverted)')
mut('c16-guard-skipped-after-error', 'C16', ['C16.3'], S,
    "                except Exception as e:\n                    logger.exception(f'❌ {self} Error in event loop: {type(e).__name__} {e}', exc_info=True)\n                    # Continue running even if there's an error\n",
    "                except Exception as e:\n                    logger.exception(f'❌ {self} Error in event loop: {type(e).__name__} {e}', exc_info=True)\n                    # Continue running even if there's an error\n                    continue\n",
    'after a contained error the iteration restarts without the cancelling() check')
mut('c19-retry-on-normalised', 'C19', ['C19.7'], H,
    "        @wraps(func)\n        async def wrapper(*args: P.args, **kwargs: P.kwargs) -> T:  # type: ignore[return]\n            # Initialize semaphore-related variables\n",
    "        @wraps(func)\n        async def wrapper(*args: P.args, **kwargs: P.kwargs) -> T:  # type: ignore[return]\n            nonlocal retry_on\n            retry_on = tuple(retry_on) if retry_on else None\n            # Initialize semaphore-related variables\n",
    'empty retry_on collapses to None')
mut('c20-discard-idle-semaphore', 'C20', ['C20.6'], H,
    "                        elif semaphore:\n                            semaphore.release()\n",
    "                        elif semaphore:\n                            semaphore.release()\n                            if not semaphore.locked():\n                                GLOBAL_RETRY_SEMAPHORES.pop(sem_key, None)\n",
    'a semaphore with a free slot is dropped from the registry while others still hold it')

neutral('n-f7-reverted-but-guarded', S,
        "        except (RuntimeError, QueueShutDown):\n            # Queue was shut down or the event loop is closing",
        "        except (asyncio.CancelledError, RuntimeError, QueueShutDown):\n            # Queue was shut down or the event loop is closing",
        'polling absorbs CancelledError again, but the run loop re-checks cancelling() after the step: the cancellation is still honoured (C16 holds)')
mut('c15-unbounded-idle-poll', 'C15', ['C15.6'], S,
    "            has_next_event, _pending = await asyncio.wait({get_next_queued_event}, timeout=wait_for_timeout)\n",
    "            poll_timeout = None if self._on_idle.is_set() else wait_for_timeout\n            has_next_event, _pending = await asyncio.wait({get_next_queued_event}, timeout=poll_timeout)\n",
    'once the idle flag is up the run loop sleeps without bound: a waiter that cleared the flag is never woken')
mut('c15-await-get-directly', 'C15', ['C15.6'], S,
    "                # Get task timed out, cancel it cleanly to suppress warnings\n                get_next_queued_event.cancel()\n",
    "                # Get task timed out, keep waiting for it\n                return await get_next_queued_event\n",
    'after the poll timed out the run loop blocks on the queue without bound')

# ================================================================================================ round-2 additions
mut('c12-flat-list-aliases-first-result', 'C12', ['C12.3'], M,
    "        merged_results: list[T_EventResultType | None] = []\n        for event_result in valid_results.values():\n            merged_results.extend(\n                cast(list[T_EventResultType | None], event_result.result)\n            )  # append the contents of the list to the merged list\n        return merged_results",
    "        merged_results: list[T_EventResultType | None] | None = None\n        for event_result in valid_results.values():\n            chunk = cast(list[T_EventResultType | None], event_result.result)\n            if merged_results is None:\n                merged_results = chunk\n            else:\n                merged_results.extend(chunk)\n        return merged_results or []",
    'the merged list starts as the first handler\'s own list: calling the view mutates a recorded result')
mut('c08-flat-dict-updates-first-result', 'C08', ['C08.6'], M,
    "        merged_results: dict[str, Any] = {}\n", "        merged_results: dict[str, Any] = next((r.result for r in valid_results.values() if r.result), {})  # type: ignore\n",
    'flat_dict merges into the first handler\'s own dict')
mut('c09-child-needs-no-parent-id', 'C09', ['C09.9'], S,
    "                        if event.event_id != current_event.event_id:\n                            current_event.event_results[current_handler_id].event_children.append(event)",
    "                        if event.event_id != current_event.event_id and event.event_parent_id == current_event.event_id:\n                            current_event.event_results[current_handler_id].event_children.append(event)",
    'events dispatched with an explicit parent id are not registered as children')
mut('c09-event-bus-cache', 'C09', ['C09.7'], M,
    "        for bus in list(EventBus.all_instances):\n            if bus and hasattr(bus, 'name') and bus.name == current_bus_name:\n                return bus\n",
    "        for bus in list(EventBus.all_instances):\n            if bus and hasattr(bus, 'name') and bus.name == current_bus_name:\n                self.__dict__['_bus_cache'] = bus\n                return bus\n",
    None) if False else None
mut('c03-parallel-wait-with-timeout', 'C03', ['C03.7'], S,
    "            for handler_id, (task, handler) in handler_tasks.items():\n                try:\n                    await task\n                except Exception:\n                    # Error already logged and recorded in execute_handler\n                    pass\n",
    "            await asyncio.wait([task for task, _h in handler_tasks.values()], timeout=timeout or event.event_timeout)\n",
    'parallel handlers are waited for with a timeout: the marking step can run while one is still started')
mut('c02-queue-reset-on-stop', 'C02', ['C02.6'], S,
    "        # Clear references\n        self._runloop_task = None\n", "        # Clear references\n        self._runloop_task = None\n        self.event_queue = None\n",
    'stop() drops the queue object (events still queued are lost when the bus is used again)')
mut('c04-cancel-skips-clean-children', 'C04', ['C04.6'], M,
    "            child_event.event_cancel_pending_child_processing(error)\n",
    "            if any(r.status == 'pending' for r in child_event.event_results.values()):\n                child_event.event_cancel_pending_child_processing(error)\n",
    'recursion only into children that had pending results themselves')
MUTANTS[:] = [m for m in MUTANTS if m is not None]
mut('c01-handler-lookup-cached', 'C01', ['C01.1'], S,
    "        applicable_handlers: list[EventHandler] = []\n\n        # Add event-type-specific handlers\n",
    "        cache = self.__dict__.setdefault('_lookup_cache', {})\n        if event.event_type in cache:\n            return cache[event.event_type]\n        applicable_handlers: list[EventHandler] = []\n\n        # Add event-type-specific handlers\n",
    'handler lookup memoised per event type (returns a stale mapping)')
mut('c07-forward-declined-silently', 'C07', ['C07.6'], S,
    "                f'⚠️ {self}.dispatch({event.event_type}) - Bus already in path, not adding again. Path: {event.event_path}'\n            )\n",
    "                f'⚠️ {self}.dispatch({event.event_type}) - Bus already in path, not adding again. Path: {event.event_path}'\n            )\n            return event\n",
    'a bus already in the path silently declines the event')
mut('c08-errored-handler-reruns', 'C08', ['C08.7'], S,
    "            elif existing_result.completed_at is not None:", "            elif existing_result.status == 'completed':",
    'a handler whose result ended in error runs again on re-dispatch')
mut('c04-inline-branch-needs-history', 'C04', ['C04.7'], M,
    "            if not self.event_completed_signal.is_set() and inside_handler_context.get() and holds_global_lock.get():",
    "            tracked = any(self.event_id in b.event_history for b in list(EventBus.all_instances))\n            if not self.event_completed_signal.is_set() and inside_handler_context.get() and holds_global_lock.get() and tracked:",
    'an event evicted from every history is waited for with the blocking wait while holding the lock')
mut('c13-await-evicted-blocks', 'C13', ['C13.5'], M,
    "            if not self.event_completed_signal.is_set() and inside_handler_context.get() and holds_global_lock.get():",
    "            tracked = any(self.event_id in b.event_history for b in list(EventBus.all_instances))\n            if not self.event_completed_signal.is_set() and inside_handler_context.get() and holds_global_lock.get() and tracked:",
    'awaiting an evicted event from a handler deadlocks')
mut('c02-queue-recreated-after-shutdown', 'C02', ['C02.6'], S,
    "                if self.event_queue is None:\n                    # Set queue size based on whether we have limits",
    "                if self.event_queue is None or self.event_queue._is_shutdown:\n                    # Set queue size based on whether we have limits",
    'a shut-down queue (possibly still holding events) is replaced on restart')
mut('c15-task-done-before-processing', 'C15', ['C15.4'], M,
    "                                    try:\n                                        await bus.process_event(event)\n                                    finally:\n                                        # always balance the get_nowait(), also when we are cancelled mid-processing,\n                                        # otherwise bus.event_queue.join() / wait_until_idle() would hang forever\n                                        bus.event_queue.task_done()\n",
    "                                    bus.event_queue.task_done()\n                                    await bus.process_event(event)\n",
    'join() returns while the event is still being processed inline')
mut('c18-lookup-memoised', 'C18', ['C18.5'], S,
    "        applicable_handlers: list[EventHandler] = []\n\n        # Add event-type-specific handlers\n",
    "        cache = self.__dict__.setdefault('_lookup_cache', {})\n        if event.event_type in cache:\n            return cache[event.event_type]\n        applicable_handlers: list[EventHandler] = []\n\n        # Add event-type-specific handlers\n",
    'a removed temporary handler keeps being delivered to through a memoised lookup')
mut('c15-cancel-skips-completed-children', 'C15', ['C15.7'], M,
    "        for child_event in self.event_children:\n            for result in child_event.event_results.values():\n                if result.status == 'pending':",
    "        for child_event in self.event_children:\n            if child_event.event_status == 'completed':\n                continue\n            for result in child_event.event_results.values():\n                if result.status == 'pending':",
    'grandchildren below an interrupted child keep pending results: the bus never becomes idle')
mut('c12-cache-before-explicit-type', 'C12', ['C12.5'], M,
    "        # Check if class explicitly defines event_result_type in model_fields\n",
    "        if cls._event_result_type_cache is not None:\n            data['event_result_type'] = cls._event_result_type_cache\n            return data\n        # Check if class explicitly defines event_result_type in model_fields\n",
    'inherited cache consulted before the explicit declaration of the class')
mut('c17-bytes-base64-one-sided', 'C17', ['C17.4'], M,
    "    model_config = ConfigDict(\n        extra='allow',", "    model_config = ConfigDict(\n        ser_json_bytes='base64',\n        extra='allow',",
    'bytes payloads are written base64 but read back as the base64 text')

# ================================================================================================ round-3 additions
mut('c05-inline-while-drain', 'C05', ['C05.4'], M,
    "                                if bus.event_queue.qsize() > 0:\n", "                                while bus.event_queue.qsize() > 0:\n",
    'the completion break leaves only the inner loop: other buses keep being drained after the awaited event completed')
mut('c05-no-completion-break', 'C05', ['C05.4'], M,
    "                                    # Check if the event we're waiting for is now complete\n                                    if self.event_completed_signal.is_set():\n                                        break\n",
    "",
    'no completion check between two inline process_event calls')
mut('c07-suffix-from-uuid-prefix', 'C07', ['C07.7'], S,
    "            unique_suffix = uuid7str()[-8:]", "            unique_suffix = self.id[:8]",
    'conflict suffix from the timestamp head of a UUIDv7')
mut('c07-no-rename-on-conflict', 'C07', ['C07.7'], S,
    "            self.name = f'{original_name}_{unique_suffix}'\n", "            pass\n",
    'conflicting name kept')
mut('c07-forward-by-func-identity', 'C07', ['C07.2'], S,
    "            inspect.ismethod(handler) and isinstance(handler.__self__, EventBus) and handler.__name__ == 'dispatch'\n",
    "            inspect.ismethod(handler) and handler.__func__ is EventBus.dispatch\n",
    'a subclass overriding dispatch is no longer recognised as a forward (recursion guard applies to it)')
mut('c01-forward-by-func-identity', 'C01', ['C01.10'], S,
    "            inspect.ismethod(handler) and isinstance(handler.__self__, EventBus) and handler.__name__ == 'dispatch'\n",
    "            inspect.ismethod(handler) and handler.__func__ is EventBus.dispatch\n",
    'echo of c07-forward-by-func-identity')
mut('c07-path-substring', 'C07', ['C07.2'], S,
    "            if target_bus.name in event.event_path:", "            if target_bus.name in '≫'.join(event.event_path):",
    'list membership replaced by a substring test')
mut('c09-event-id-plain-str', 'C09', ['C09.10'], M,
    "    event_id: UUIDStr = Field(default_factory=uuid7str, max_length=36)", "    event_id: str = Field(default_factory=uuid7str, max_length=36)",
    'event_id no longer canonicalised like event_parent_id')
mut('c19-sleep-under-timeout', 'C19', ['C19.1'], H,
    "            async with asyncio.timeout(timeout):\n                return await func(*args, **kwargs)",
    "            async with asyncio.timeout(timeout):\n                if attempt > 0:\n                    await asyncio.sleep(0.01)\n                return await func(*args, **kwargs)",
    'something else awaits under the per-attempt timeout')
mut('c10-taskgroup', 'C10', ['C10.7'], S,
    "                    await task\n                except Exception:\n                    # Error already logged and recorded in execute_handler\n                    pass",
    "                    await task\n                except Exception:\n                    for other_task, _ in handler_tasks.values():\n                        other_task.cancel()",
    'a failing handler cancels its siblings')
neutral('n-retry-terminal-first', H,
        "            if attempt < retries:", "            if not (attempt >= retries):",
        'comparison spelled through its negation')
neutral('n-on-key-match-statement', S,
        "        if event_pattern == '*':\n            event_key = '*'\n        elif isinstance(event_pattern, type) and issubclass(event_pattern, BaseEvent):  # pyright: ignore[reportUnnecessaryIsInstance]",
        "        match event_pattern:\n            case '*':\n                event_key = '*'\n            case _:\n                event_key = ''\n        if event_key == '*':\n            pass\n        elif isinstance(event_pattern, type) and issubclass(event_pattern, BaseEvent):  # pyright: ignore[reportUnnecessaryIsInstance]",
        'wildcard test written as a match statement')
neutral2('n-local-aliases-step-and-inline', [
    (S, "        assert self._on_idle and self.event_queue, 'EventBus._start() must be called before step()'\n\n        # Track if we got the event from the queue\n        from_queue = False\n",
        "        assert self._on_idle and self.event_queue, 'EventBus._start() must be called before step()'\n        queue = self.event_queue\n        idle_flag = self._on_idle\n\n        # Track if we got the event from the queue\n        from_queue = False\n"),
    (S, "        # Clear idle state when we get an event\n        self._on_idle.clear()", "        # Clear idle state when we get an event\n        idle_flag.clear()"),
    (S, "            if from_queue:\n                self.event_queue.task_done()\n\n        logger.debug(f'✅ {self}.step({event}) COMPLETE')", "            if from_queue:\n                queue.task_done()\n\n        logger.debug(f'✅ {self}.step({event}) COMPLETE')"),
    (M, "                            # Process one event from this bus if available\n                            try:\n                                if bus.event_queue.qsize() > 0:\n                                    event = bus.event_queue.get_nowait()",
        "                            # Process one event from this bus if available\n                            bus_queue = bus.event_queue\n                            try:\n                                if bus_queue.qsize() > 0:\n                                    event = bus_queue.get_nowait()"),
    (M, "                                        bus.event_queue.task_done()", "                                        bus_queue.task_done()"),
], 'new local aliases for attribute chains (propagated back by sa/alias.py)')
mut('c01-revert-f19-on', 'C01', ['C01.1'], S,
    "            event_key = str.__str__(event_pattern)", "            event_key = str(event_pattern)",
    'str-Enum members filed under their printed form again (F19 reverted in on)')
mut('c18-revert-f19-expect', 'C18', ['C18.2'], S,
    "            event_key: str = str.__str__(event_type) if isinstance(event_type, str) else str(event_type)", "            event_key: str = str(event_type)",
    'expect removes a str-Enum pattern from the printed-form key it was never filed under (F19 reverted in expect)')
mut('c18-untimed-wait-on-falsy-timeout', 'C18', ['C18.4'], S,
    "            if timeout is not None:\n                return await asyncio.wait_for(future, timeout=timeout)", "            if timeout:\n                return await asyncio.wait_for(future, timeout=timeout)",
    'timeout=0 waits forever')
mut('c17-log-handler-formats-results', 'C17', ['C17.6'], S,
    "        # logger.debug(\n        # \tf'✅ {self} completed: {event} -> {list(event.event_results.values()) or '<no handlers matched>'}'\n        # )\n        pass",
    "        logger.debug(f'completed: {event} -> {[str(r) for r in event.event_results.values()]}')",
    'the default log hook formats handler-provided values before the WAL append')
mut('c17-wal-failure-below-default-level', 'C17', ['C17.3'], S,
    "            logger.error(f'❌ {self} Failed to save event {event.event_id} to WAL file", "            logger.info(f'❌ {self} Failed to save event {event.event_id} to WAL file",
    'the failure report is below the default logger level')
mut2('c17-default-level-above-report', 'C17', ['C17.3'], [
    (M, "BUBUS_LOGGING_LEVEL = os.getenv('BUBUS_LOGGING_LEVEL', 'WARNING').upper()", "BUBUS_LOGGING_LEVEL = os.getenv('BUBUS_LOGGING_LEVEL', 'CRITICAL').upper()"),
], 'the default logger level filters the failure report out')
mut('c11-errored-handler-rerun', 'C11', ['C11.7'], S,
    "            elif existing_result.completed_at is not None:", "            elif existing_result.status == 'completed':",
    'an errored result no longer blocks a second run')
mut('c12-include-bool', 'C12', ['C12.6'], M,
    "        if event_result.result is None:\n            return False", "        if not event_result.result:\n            return False",
    'falsy results dropped by the default filter')
mut('c13-status-from-signal', 'C13', ['C13.6'], M,
    "        return 'completed' if self.event_completed_at else 'started' if self.event_started_at else 'pending'",
    "        if self._event_completed_signal is not None and self._event_completed_signal.is_set():\n            return 'completed'\n        return 'completed' if self.event_completed_at else 'started' if self.event_started_at else 'pending'",
    'status read from the sticky completion signal')
mut('c13-sort-key-datetime', 'C13', ['C13.2'], S,
    "            started_events.sort(key=lambda x: x[1].event_created_at.timestamp())", "            started_events.sort(key=lambda x: x[1].event_created_at)",
    'datetimes compared directly')
mut('c14-shutdown-drains', 'C14', ['C14.5'], S,
    "        self._is_shutdown = True\n\n        # Cancel all waiting getters without triggering warnings",
    "        self._is_shutdown = True\n        while not self.empty():\n            self._get()\n\n        # Cancel all waiting getters without triggering warnings",
    'stop() discards the backlog')
mut('c03-signal-recreated', 'C03', ['C03.1'], M,
    "        if self._event_completed_signal is None:\n            try:\n                asyncio.get_running_loop()\n                self._event_completed_signal = asyncio.Event()",
    "        if self._event_completed_signal is None or getattr(self._event_completed_signal, '_loop', None) is not None:\n            try:\n                asyncio.get_running_loop()\n                self._event_completed_signal = asyncio.Event()",
    'the completion signal can be replaced by a fresh unset one')
mut('c20-detached-acquire', 'C20', ['C20.2'], H,
    "            await semaphore.acquire()\n            return True", "            await asyncio.ensure_future(semaphore.acquire())\n            return True",
    'the acquisition is detached from the calling task')
mut('c20-loop-closed-instead-of-running', 'C20', ['C20.5'], H,
    "            if sem_key not in GLOBAL_RETRY_SEMAPHORES or GLOBAL_RETRY_SEMAPHORE_LOOPS.get(sem_key) is not current_loop:",
    "            if sem_key not in GLOBAL_RETRY_SEMAPHORES or GLOBAL_RETRY_SEMAPHORE_LOOPS.get(sem_key) is None or GLOBAL_RETRY_SEMAPHORE_LOOPS.get(sem_key).is_closed():",
    'the cached semaphore is kept while its loop is merely not closed')

# ================================================================================================ round-4 additions (feature-shaped)
_NEW_CANCEL_API = '''
    def cancel_queued(self, event: 'BaseEvent[Any]') -> None:
        """Withdraw an event: give it up and mark it complete."""
        event.event_mark_complete_if_all_handlers_completed()

    def _start(self) -> None:'''
mut('c03-mark-complete-from-new-api', 'C03', ['C03.1'], S, "\n    def _start(self) -> None:", _NEW_CANCEL_API,
    'a new public method evaluates completion of an event that was never processed')
mut('c08-mark-complete-from-new-api', 'C08', ['C08.4'], S, "\n    def _start(self) -> None:", _NEW_CANCEL_API, 'echo')
_NEW_FORWARD_API = '''
    def forward_to(self, target: 'EventBus') -> None:
        """Forward everything to another bus."""

        def forward_event(event: 'BaseEvent[Any]') -> Any:
            return target.dispatch(event)

        self.on('*', forward_event)

    def _start(self) -> None:'''
mut('c07-library-forwarding-closure', 'C07', ['C07.9'], S, "\n    def _start(self) -> None:", _NEW_FORWARD_API,
    'the library registers a forwarding closure the recursion guard does not recognise')
_NEW_LATER_API = '''
    def dispatch_later(self, event: 'BaseEvent[Any]', delay: float) -> None:
        """Dispatch after a delay."""
        asyncio.get_running_loop().call_later(delay, self.dispatch, event)

    def _start(self) -> None:'''
mut('c06-call-later-dispatch', 'C06', ['C06.3'], S, "\n    def _start(self) -> None:", _NEW_LATER_API,
    'a scheduled callback that dispatches inherits the scheduling handler context')
mut('c09-call-later-dispatch', 'C09', ['C09.12'], S, "\n    def _start(self) -> None:", _NEW_LATER_API, 'echo')
mut('c10-record-timeout-overwritten', 'C10', ['C10.1'], M,
    "        if 'result' in kwargs:", "        if 'timeout' in kwargs:\n            self.timeout = kwargs['timeout']\n        if 'result' in kwargs:",
    'update() can replace the timeout a handler runs under')
mut('c15-runloop-extra-wait', 'C15', ['C15.6'], S,
    "                    _processed_event = await self.step()", "                    await asyncio.Event().wait() if getattr(self, '_paused', False) else None\n                    _processed_event = await self.step()",
    'the processing loop can wait without bound before taking the next event')
mut('c05-runloop-extra-wait', 'C05', ['C05.5'], S,
    "                    _processed_event = await self.step()", "                    await asyncio.Event().wait() if getattr(self, '_paused', False) else None\n                    _processed_event = await self.step()",
    'echo')
_NEW_IMMEDIATE_API = '''
    async def dispatch_immediate(self, event: 'BaseEvent[Any]') -> 'BaseEvent[Any]':
        """Process an event right away, without queueing."""
        self.event_history[event.event_id] = event
        await self.process_event(event)
        return event

    def _start(self) -> None:'''
mut('c10-new-processing-entry-point', 'C10', ['C10.9'], S, "\n    def _start(self) -> None:", _NEW_IMMEDIATE_API,
    'a new entry point processes events outside the step / inline-loop chain')
mut('c04-new-processing-entry-point', 'C04', ['C04.9'], S, "\n    def _start(self) -> None:", _NEW_IMMEDIATE_API, 'echo')
_NEW_LOCK_OPTION = "            async with (self._own_lock if getattr(self, '_own_lock', None) else _get_global_lock()):"
mut('c02-per-bus-lock-option', 'C02', ['C02.7'], S, "            async with _get_global_lock():", _NEW_LOCK_OPTION,
    'an option lets a bus process events under a lock of its own')
mut('c20-skip-acquire-on-inherited-flag', 'C20', ['C20.7'], H,
    "            if semaphore_limit is not None:\n                # Get semaphore key and create/retrieve semaphore",
    "            if semaphore_limit is not None and not _HELD.get(False):\n                # Get semaphore key and create/retrieve semaphore",
    'the acquisition is skipped on the strength of inherited per-task state')
mut('c16-slot-before-handler', 'C16', ['C16.6'], S,
    "        handler_task = None\n        try:\n            if inspect.iscoroutinefunction(handler):",
    "        handler_task = None\n        await asyncio.sleep(0)  # wait for a slot\n        try:\n            if inspect.iscoroutinefunction(handler):",
    'a handler task suspends before it starts its handler')
mut('c17-wal-rewritten-elsewhere', 'C17', ['C17.8'], S, "\n    def _start(self) -> None:",
    "\n    def trim_wal(self, keep_last: int = 1000) -> None:\n        \"\"\"Keep only the newest lines of the WAL.\"\"\"\n        if self.wal_path:\n            lines = self.wal_path.read_text().splitlines()[-keep_last:]\n            self.wal_path.write_text('\\n'.join(lines) + '\\n')\n\n    def _start(self) -> None:",
    'a second writer rewrites the WAL file')
mut('c17-wal-not-append-mode', 'C17', ['C17.8'], S, "anyio.open_file(self.wal_path, 'a', encoding='utf-8')", "anyio.open_file(self.wal_path, 'w', encoding='utf-8')",
    'the WAL is truncated on every write')
mut('c13-bound-changed-later', 'C13', ['C13.7'], S, "\n    def _start(self) -> None:",
    "\n    def set_history_limit(self, n: int | None) -> None:\n        \"\"\"Change the history bound.\"\"\"\n        self.max_history_size = n\n\n    def _start(self) -> None:",
    'the history bound is changed after construction')
mut('c12-validate-with-strict-false', 'C12', ['C12.1'], M, "ResultType.validate_python(result)", "ResultType.validate_python(result, strict=False)",
    'an explicit validation mode overrides the declared type')
mut('c01-on-skips-duplicate-names', 'C01', ['C01.7'], S,
    "        if new_handler_name in existing_registered_handlers:\n            warnings.warn(", "        if new_handler_name in existing_registered_handlers:\n            if getattr(self, 'skip_duplicates', False):\n                return\n            warnings.warn(",
    'on() can return without registering the handler')
mut('c18-on-skips-duplicate-names', 'C18', ['C18.6'], S,
    "        if new_handler_name in existing_registered_handlers:\n            warnings.warn(", "        if new_handler_name in existing_registered_handlers:\n            if getattr(self, 'skip_duplicates', False):\n                return\n            warnings.warn(",
    'echo')
mut('c01-serial-loop-skips-after-answer', 'C01', ['C01.4'], S,
    "                try:\n                    await self.execute_handler(event, handler, timeout=timeout)",
    "                if getattr(event, '_answered', False):\n                    continue\n                try:\n                    await self.execute_handler(event, handler, timeout=timeout)",
    'an iteration of the serial handler loop can skip its handler')
mut('c11-serial-loop-skips-after-answer', 'C11', ['C11.1'], S,
    "                try:\n                    await self.execute_handler(event, handler, timeout=timeout)",
    "                if getattr(event, '_answered', False):\n                    continue\n                try:\n                    await self.execute_handler(event, handler, timeout=timeout)",
    'echo')
_NEW_BULK_API = '''
    def dispatch_many(self, events: list['BaseEvent[Any]']) -> None:
        """Dispatch a batch."""
        for event in events:
            self.event_history[event.event_id] = event
        for event in events:
            self.event_queue.put_nowait(event)  # type: ignore[union-attr]

    def _start(self) -> None:'''
mut('c14-bulk-entry-point', 'C14', ['C14.6'], S, "\n    def _start(self) -> None:", _NEW_BULK_API, 'events enter the history through a bulk entry point before they are enqueued')
mut('c15-bulk-entry-point', 'C15', ['C15.8'], S, "\n    def _start(self) -> None:", _NEW_BULK_API, 'echo')
mut('c15-history-before-put', 'C15', ['C15.11'], S,
    "                self.event_queue.put_nowait(event)\n                # Only add to history after successfully queuing\n                self.event_history[event.event_id] = event\n",
    "                self.event_history[event.event_id] = event\n                self.event_queue.put_nowait(event)\n",
    'echo of c14-history-before-put: a rejected dispatch stays pending in the history, the bus never goes idle again')
mut('c15-swallow-queuefull', 'C15', ['C15.11'], S,
    "                raise  # could also block indefinitely until queue has space, but dont drop silently or delete events\n",
    "                pass\n",
    'echo of c14-swallow-queuefull')

# ---- round 5 obligations
mut('c15-start-only-if-never-started', 'C15', ['C15.9'], S,
    "        self._start()\n        assert self._on_idle and self.event_queue, 'EventBus._start() must be called before wait_until_idle() is reached'",
    "        if self.event_queue is None:\n            self._start()\n        assert self._on_idle and self.event_queue, 'EventBus._start() must be called before wait_until_idle() is reached'",
    'wait_until_idle() no longer restarts a run loop that ended without stop()')
mut('c14-start-flag-without-task', 'C14', ['C14.7'], S,
    "                self._runloop_task = loop.create_task(self._run_loop(), name=f'{self}._run_loop')\n                self._is_running = True",
    "                if self._runloop_task is None:\n                    self._runloop_task = loop.create_task(self._run_loop(), name=f'{self}._run_loop')\n                self._is_running = True",
    'a bus restarted after stop() is flagged running but nobody consumes its queue')
mut('c01-recursion-count-ignores-completed', 'C01', ['C01.11'], S,
    "            if result.status in ('pending', 'started', 'completed'):\n                # This handler processed the parent event, increment depth",
    "            if result.status in ('pending', 'started'):\n                # This handler processed the parent event, increment depth",
    'levels whose handler already finished are not counted: unbounded handler recursion through completed ancestors')
mut('c01-recursion-count-counts-errors', 'C01', ['C01.11'], S,
    "            if result.status in ('pending', 'started', 'completed'):\n                # This handler processed the parent event, increment depth",
    "            if result.status:\n                # This handler processed the parent event, increment depth",
    'levels where the handler failed are counted too: a handler is refused delivery after two failed ancestors')
mut('c19-inner-arm-replaces', 'C19', ['C19.6'], H,
    "            async with asyncio.timeout(timeout):\n                return await func(*args, **kwargs)  # type: ignore[reportCallIssue]",
    "            try:\n                async with asyncio.timeout(timeout):\n                    return await func(*args, **kwargs)  # type: ignore[reportCallIssue]\n            except TimeoutError as te:\n                raise TimeoutError(f'{func.__name__} timed out') from te",
    'a TimeoutError raised by the function itself is replaced before retry_on is consulted')

# ---- round 7 obligations (minimal one-line regressions)
mut('c01-selection-break', 'C01', ['C01.2'], S,
    "            if self._would_create_loop(event, handler):\n                continue\n",
    "            if self._would_create_loop(event, handler):\n                break\n",
    'the selection loop ends at the first handler that would create a loop: the handlers after it are not run')
mut('c06-depth-reset-on-reentry', 'C06', ['C06.8'], S,
    "            # We already hold the lock in this context, increment depth\n            self._depth += 1",
    "            # We already hold the lock in this context, increment depth\n            self._depth = 1",
    'a re-entrant hold resets the counter: the inner exit releases the lock under the outer holder')
mut('c02-depth-reset-on-reentry', 'C02', ['C02.9'], S,
    "            # We already hold the lock in this context, increment depth\n            self._depth += 1",
    "            # We already hold the lock in this context, increment depth\n            self._depth = 1", 'echo')
mut('c06-depth-not-counted-on-acquire', 'C06', ['C06.8'], S,
    "        holds_global_lock.set(True)\n        self._depth = 1\n", "        holds_global_lock.set(True)\n", 'the acquiring entry leaves the counter alone')
mut('c06-exit-double-decrement', 'C06', ['C06.8'], S,
    "        self._depth -= 1\n        if self._depth == 0:", "        self._depth -= 2\n        if self._depth <= 0:", 'an exit gives back two holds')
mut('c03-walk-advance-conditional', 'C03', ['C03.3'], S,
    "                parent_event.event_mark_complete_if_all_handlers_completed()\n\n            # Move up the chain\n            current = parent_event\n",
    "                parent_event.event_mark_complete_if_all_handlers_completed()\n\n                # Move up the chain\n                current = parent_event\n",
    'the parent walk advances only past an ancestor it has just re-checked')
mut('c06-shielded-processing', 'C06', ['C06.1'], S,
    "                await self.process_event(event, timeout=timeout)\n        finally:",
    "                await asyncio.shield(self.process_event(event, timeout=timeout))\n        finally:",
    'processing survives the cancellation of the lock holder')
mut('c06-processing-as-task', 'C06', ['C06.1'], S,
    "                await self.process_event(event, timeout=timeout)\n        finally:",
    "                await asyncio.ensure_future(self.process_event(event, timeout=timeout))\n        finally:",
    'processing runs as a task of its own')
mut('c07-path-without-last', 'C07', ['C07.2'], S,
    "            if target_bus.name in event.event_path:", "            if target_bus.name in event.event_path[:-1]:", 'the last bus of the path is not looked at')
mut('c12-raise-last-error', 'C12', ['C12.7'], M,
    "            failing_handler, failing_result = list(error_results.items())[0]  # throw first error",
    "            failing_handler, failing_result = error_results.popitem()  # throw first error", 'the error of the last failing handler is raised')
mut('c12-raise-last-error-index', 'C12', ['C12.7'], M,
    "            failing_handler, failing_result = list(error_results.items())[0]  # throw first error",
    "            failing_handler, failing_result = list(error_results.items())[-1]  # throw first error", 'the error of the last failing handler is raised')
mut('c14-raw-datetime-sort-after-accept', 'C14', ['C14.1'], S,
    "        completed_events.sort(key=lambda x: x[1].event_created_at.timestamp())", "        completed_events.sort(key=lambda x: x[1].event_created_at)",
    'dispatch can raise TypeError from the cleanup after it has accepted and registered the event')
mut('c20-self-key-by-hash', 'C20', ['C20.3'], H,
    "        instance_id = id(args[0])", "        instance_id = hash(args[0])", 'instances that compare equal share one semaphore')

# ---- round 7 neutral variants (harmless small edits whose first contact was a false alarm)
neutral('n7-idle-named-parts', S,
    "                if not (self.events_pending or self.events_started or self.event_queue.qsize()):\n                    self._on_idle.set()\n                return None",
    "                nothing_in_history = not self.events_pending and not self.events_started\n                nothing_queued = self.event_queue.qsize() == 0\n                if nothing_in_history and nothing_queued:\n                    self._on_idle.set()\n                return None",
    'De Morgan with named parts')
neutral('n7-retries-left', H,
    "            if attempt < retries:\n", "            retries_left = retries - attempt\n            if retries_left > 0:\n", 'the loop bound spelled as a difference')
neutral('n7-queue-empty', M,
    "                                if bus.event_queue.qsize() > 0:\n", "                                if not bus.event_queue.empty():\n", 'queue.empty()')
neutral('n7-children-completed-at', M,
    "            if child_event.event_status != 'completed':\n", "            if child_event.event_completed_at is None:\n", 'status spelled as its timestamp')
neutral('n7-release-then-clear', S,
    "            holds_global_lock.set(False)\n            self._get_semaphore().release()\n", "            self._get_semaphore().release()\n            holds_global_lock.set(False)\n",
    'release and flag clear swapped inside the non-suspending __aexit__')
neutral('n7-first-error-next-iter', M,
    "            failing_handler, failing_result = list(error_results.items())[0]  # throw first error",
    "            failing_handler, failing_result = next(iter(error_results.items()))  # throw first error", 'first item without building the list')
neutral('n7-shutdown-then-flag', S,
    "        # Signal shutdown\n        self._is_running = False\n\n        # Shutdown the queue to unblock any pending get() operations\n        if self.event_queue:\n            self.event_queue.shutdown()\n",
    "        # Shutdown the queue to unblock any pending get() operations\n        if self.event_queue is not None:\n            self.event_queue.shutdown()\n\n        # Signal shutdown\n        self._is_running = False\n",
    'two independent synchronous steps of stop() swapped')

# ---- round 8 obligations
mut('c03-walk-stops-at-signalled-ancestor', 'C03', ['C03.3'], S,
    "                parent_event.event_mark_complete_if_all_handlers_completed()\n\n            # Move up the chain\n            current = parent_event\n",
    "                parent_event.event_mark_complete_if_all_handlers_completed()\n            else:\n                break\n\n            # Move up the chain\n            current = parent_event\n",
    'the parent walk stops at an ancestor that is already signalled: the ancestors above it are not re-checked')
mut('c16-deadline-by-truthiness', 'C16', ['C16.1'], S,
    "            await asyncio.wait_for(join_task, timeout=remaining_timeout)\n",
    "            await asyncio.wait_for(join_task, timeout=(timeout if timeout else None))\n",
    'stop(timeout=0) waits for the queue without bound: a truthiness test on the timeout treats 0 as "no timeout"')
MUTANTS[:] = [m for m in MUTANTS if m is not None]
