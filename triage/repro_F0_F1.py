import asyncio, logging
from bubus import EventBus, BaseEvent
logging.disable(logging.CRITICAL)

class P(BaseEvent): pass
class C(BaseEvent): pass
class U(BaseEvent):
    n: int = 0

async def f0():
    bus = EventBus(name='F0bus')
    log = []
    async def on_p(e):
        log.append('p-begin')
        c = bus.dispatch(C())
        await c
        log.append('p-end')
    async def on_c(e): log.append('c')
    async def on_u(e): log.append(f'u{e.n}')
    bus.on(P, on_p); bus.on(C, on_c); bus.on(U, on_u)
    p = bus.dispatch(P())
    bus.dispatch(U(n=1)); bus.dispatch(U(n=2))
    await p
    await bus.wait_until_idle()
    print('F0 order:', log)
    await bus.stop()

async def f1():
    a = EventBus(name='F1A'); b = EventBus(name='F1B')
    out = {}
    async def on_p(e):
        c = b.dispatch(C())
        await asyncio.sleep(0.01)   # yield so B's run loop takes c off its queue
        r = await c
        out['status'] = c.event_status
        out['signal'] = c.event_completed_signal.is_set()
        out['results'] = {k: v.status for k, v in c.event_results.items()}
    async def on_c(e): return 'ok'
    a.on(P, on_p); b.on(C, on_c)
    # make sure b's run loop is started before, so it is polling its queue
    b._start()
    await asyncio.sleep(0.01)
    p = a.dispatch(P())
    await p
    print('F1 child at in-handler await return:', out)
    await a.stop(); await b.stop()

asyncio.run(f0())
asyncio.run(f1())
