import asyncio, logging
from bubus import EventBus, BaseEvent
logging.disable(logging.CRITICAL)
class E(BaseEvent): pass
class L(BaseEvent): pass
async def main():
    a = EventBus(name='A1'); b = EventBus(name='B1')
    async def long(e): await asyncio.sleep(0.5)
    async def quick(e): pass
    b.on(L, long); a.on(E, quick)
    b.dispatch(L())
    await asyncio.sleep(0.05)          # B holds the global lock in its handler
    a.dispatch(E())                    # A's run loop dequeues E and blocks on the global lock
    await asyncio.sleep(0.05)
    await a.stop(timeout=0)            # cancels A's run loop while it waits for the lock
    print('A unfinished tasks after stop:', a.event_queue._unfinished_tasks, 'qsize', a.event_queue.qsize())
    await b.wait_until_idle()
    # re-use bus A
    a.event_queue._is_shutdown = False if False else a.event_queue._is_shutdown
    try:
        await asyncio.wait_for(a.event_queue.join(), 0.5); print('join returned')
    except asyncio.TimeoutError:
        print('join() HANGS: task_done never called for the dequeued event')
    await b.stop()
asyncio.run(main())
