"""F16 candidate: a cancellation of the run-loop task that arrives while execute_handler's finally awaits the monitor task it
has just cancelled is swallowed (`except CancelledError: pass`), so the run loop keeps running."""
import asyncio, logging, sys
from bubus import EventBus, BaseEvent
logging.disable(logging.CRITICAL)
class E(BaseEvent): pass
async def main():
    bus = EventBus(name='F16')
    loop = asyncio.get_running_loop()
    def sync_handler(e):
        # request cancellation of the run-loop task at the next loop iteration: it will be awaiting the cancelled monitor task then
        loop.call_soon(bus._runloop_task.cancel)
        return 'ok'
    bus.on(E, sync_handler)
    bus.dispatch(E())
    await asyncio.sleep(0.3)
    t = bus._runloop_task
    alive = t is not None and not t.done()
    print('run-loop task still alive 0.3s after cancel():', alive, '| bus running:', bus._is_running)
    if alive:
        t.cancel()
        await asyncio.sleep(0.2)
    return 1 if alive else 0
sys.exit(asyncio.run(main()))
