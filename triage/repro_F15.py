import asyncio, logging
from bubus import EventBus, BaseEvent
logging.disable(logging.CRITICAL)
class P(BaseEvent): pass
class C(BaseEvent): pass
class U(BaseEvent): pass
class X(BaseEvent):
    n: int = 0
async def stop_inline():
    a = EventBus(name='S3A'); b = EventBus(name='S3B')
    ran = []
    async def on_x(e): ran.append(('B handler ran', e.n))
    async def on_c(e): pass
    async def on_u(e): pass
    async def on_p(e): await a.dispatch(C())
    b.on(X, on_x); a.on(P, on_p); a.on(C, on_c); a.on(U, on_u)
    for i in range(4): b.dispatch(X(n=i))
    await b.stop()
    print('stop() returned; b running?', b._is_running, 'b queue size', b.event_queue.qsize(), 'ran so far', ran)
    n_before = len(ran)
    p = a.dispatch(P()); a.dispatch(U()); a.dispatch(U())
    await p
    print('handlers of the stopped bus started after stop() returned:', ran[n_before:])
    await a.stop()
asyncio.run(stop_inline())
