import asyncio, logging, sys, time
from bubus import EventBus, BaseEvent
from bubus.helpers import retry
logging.disable(logging.CRITICAL)

class P(BaseEvent): pass
class C(BaseEvent): pass
class X(BaseEvent):
    n: int = 0

async def f6():
    a = EventBus(name='F6A'); b = EventBus(name='F6B')   # b first used inside a handler of a
    running = []; overlaps = []
    async def on_p(e):
        b.dispatch(X(n=0))          # first use of b -> its run loop task inherits holds_global_lock=True
    async def slow(tag):
        async def h(e):
            running.append(tag)
            if len(running) > 1: overlaps.append(tuple(running))
            await asyncio.sleep(0.05)
            running.remove(tag)
        h.__name__ = 'h_' + tag
        return h
    a.on(P, on_p); a.on(X, await slow('A')); b.on(X, await slow('B'))
    await a.dispatch(P())
    await asyncio.sleep(0.01)
    a.dispatch(X(n=1)); b.dispatch(X(n=2))
    await a.wait_until_idle(); await b.wait_until_idle()
    print('F6 overlapping handlers across buses:', overlaps)
    await a.stop(); await b.stop()

def f7():
    import subprocess, textwrap
    code = textwrap.dedent('''
        import asyncio, logging
        logging.disable(logging.CRITICAL)
        from bubus import EventBus, BaseEvent
        class E(BaseEvent): pass
        async def main():
            bus = EventBus(name='F7bus')
            await bus.dispatch(E())
        asyncio.run(main())
        print('exited')
    ''')
    try:
        r = subprocess.run([sys.executable, '-c', code], capture_output=True, text=True, timeout=5)
        print('F7 program output:', r.stdout.strip(), r.returncode)
    except subprocess.TimeoutExpired:
        print('F7 program with a bus left running did NOT exit within 5s (asyncio.run hangs)')

async def f9():
    a = EventBus(name='F9A'); b = EventBus(name='F9B')
    seen = {}
    async def after(e): seen['after_forward_handler_on_A sees event_bus'] = e.event_bus.name
    a.on('*', b.dispatch); a.on(P, after)
    await a.dispatch(P()); await b.wait_until_idle()
    print('F9', seen)
    await a.stop(); await b.stop()

async def f11():
    bus = EventBus(name='F11bus', max_history_size=3)
    async def on_p(e):
        for i in range(6): bus.dispatch(C())
    async def on_c(e): pass
    bus.on(P, on_p); bus.on(C, on_c)
    p = bus.dispatch(P())
    try:
        await asyncio.wait_for(asyncio.shield(p.event_completed_signal.wait()), 2)
        print('F11 parent completed')
    except asyncio.TimeoutError:
        await bus.wait_until_idle(timeout=1)
        print('F11 parent signal never set; derived status', p.event_status, 'children complete', all(c.event_status=='completed' for c in p.event_children), 'parent in history', p.event_id in bus.event_history)
    await bus.stop()

async def f12():
    from typing import Optional, Literal
    bus = EventBus(name='F12bus')
    class O(BaseEvent[int | None]): pass
    class L(BaseEvent[Literal['a','b']]): pass
    async def h(e): return 5
    async def hl(e): return 'a'
    bus.on(O, h); bus.on(L, hl)
    for ev in (O(), L()):
        try:
            e = await bus.dispatch(ev)
            print('F12', type(ev).__name__, [(r.status, r.result, type(r.error).__name__, str(r.error)[:80]) for r in e.event_results.values()])
        except BaseException as ex:
            print('F12 raised', type(ex).__name__, ex)
    await bus.wait_until_idle(timeout=1)
    print('F12 history', [(e.event_type, e.event_status) for e in bus.event_history.values()])
    await bus.stop()

def f13():
    @retry(retries=0, timeout=1, semaphore_limit=1, semaphore_name='f13sem', semaphore_timeout=0.5, semaphore_lax=False)
    async def work(): await asyncio.sleep(0.05); return 1
    async def contended(): return await asyncio.gather(work(), work(), return_exceptions=True)
    print('F13 loop1', asyncio.run(contended()))
    print('F13 loop2', asyncio.run(contended()))

asyncio.run(f6()); f7(); asyncio.run(f9()); asyncio.run(f11()); asyncio.run(f12()); f13()
