import asyncio, logging
from bubus import EventBus, BaseEvent
logging.disable(logging.CRITICAL)
class P(BaseEvent): pass
hits = []
async def trial(k):
    a = EventBus(name=f'IA{k}'); b = EventBus(name=f'IB{k}')
    ran = []
    async def on_b(e): ran.append('b')
    a.on('*', b.dispatch); b.on(P, on_b)
    a._start(); b._start()
    await asyncio.sleep(0.25)       # both idle flags set by the 0.1s poll
    async def waiter():
        for _ in range(k): await asyncio.sleep(0)
        await b.wait_until_idle()
        return (b.event_queue.qsize(), list(ran))
    w = asyncio.create_task(waiter())
    a.dispatch(P())
    q, r = await w
    if q > 0 and not r: hits.append((k, q, r))
    await a.wait_until_idle(); await b.wait_until_idle()
    await a.stop(); await b.stop()
async def main():
    for k in range(0, 14): await trial(k)
    print('false-idle returns (k, qsize at return, B handlers run):', hits)
asyncio.run(main())
