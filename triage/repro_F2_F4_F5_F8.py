import asyncio, logging, sys
from bubus import EventBus, BaseEvent
logging.disable(logging.CRITICAL)

class R(BaseEvent):
    depth: int = 0
class P(BaseEvent): pass
class C(BaseEvent): pass
class G(BaseEvent): pass

async def f2():
    bus = EventBus(name='F2bus')
    async def on_r(e):
        if e.depth < 4:
            bus.dispatch(R(depth=e.depth + 1))
    bus.on(R, on_r)
    root = bus.dispatch(R())
    try:
        await asyncio.wait_for(asyncio.shield(root.event_completed_signal.wait()), 2)
        print('F2 root completed')
    except asyncio.TimeoutError:
        print('F2 root NOT complete after 2s; history statuses:', [(e.depth, e.event_status) for e in bus.event_history.values()], 'unfinished', bus.event_queue._unfinished_tasks)
    await bus.stop()

async def f3():
    bus = EventBus(name='F3bus')
    rej = []
    async def on_p(e):
        for i in range(120):
            try: bus.dispatch(C())
            except Exception as ex: rej.append(type(ex).__name__)
    async def on_c(e): pass
    bus.on(P, on_p); bus.on(C, on_c)
    p = bus.dispatch(P())
    try:
        await asyncio.wait_for(asyncio.shield(p.event_completed_signal.wait()), 3)
        print('F3 parent completed; rejected', len(rej))
    except asyncio.TimeoutError:
        kids = p.event_children
        print('F3 parent NOT complete after 3s; rejected', len(rej), set(rej), 'children', len(kids), 'incomplete children', sum(1 for c in kids if c.event_status != 'completed'), 'of which never in history:', sum(1 for c in kids if c.event_status!='completed' and c.event_id not in bus.event_history))
    await bus.stop()

async def f4():
    a = EventBus(name='F4A'); b = EventBus(name='F4B')
    async def slow(e):
        await asyncio.sleep(0.05); return 'b-done'
    a.on('*', b.dispatch); b.on(P, slow)
    e = a.dispatch(P())
    await e
    s1 = (e.event_status, {r.eventbus_name + '.' + r.handler_name.split('.')[-1]: r.status for r in e.event_results.values()})
    await asyncio.sleep(0.02)
    s2 = (e.event_status, {r.eventbus_name + '.' + r.handler_name.split('.')[-1]: r.status for r in e.event_results.values()})
    await b.wait_until_idle()
    s3 = (e.event_status, {r.eventbus_name + '.' + r.handler_name.split('.')[-1]: r.status for r in e.event_results.values()})
    print('F4 at await-return', s1); print('F4 +20ms         ', s2); print('F4 after idle    ', s3)
    print('F8 forwarded root parent==self?', e.event_parent_id == e.event_id)
    await a.stop(); await b.stop()

async def f5():
    bus = EventBus(name='F5bus')
    async def on_p(e):
        c = bus.dispatch(C())
        await c
    async def on_c(e):
        await asyncio.sleep(1.0)
    bus.on(P, on_p); bus.on(C, on_c)
    p = bus.dispatch(P(event_timeout=0.1))
    await p
    kids = p.event_children
    print('F5 parent done; child status', kids[0].event_status, 'child signal', kids[0].event_completed_signal.is_set(), {r.status for r in kids[0].event_results.values()}, 'unfinished', bus.event_queue._unfinished_tasks)
    try:
        await asyncio.wait_for(bus.event_queue.join(), 1.0)
        print('F5 join ok')
    except asyncio.TimeoutError:
        print('F5 queue.join() hangs (unfinished_tasks=%d)' % bus.event_queue._unfinished_tasks)
    await bus.stop()

for f in (f2, f3, f4, f5):
    asyncio.run(f())
