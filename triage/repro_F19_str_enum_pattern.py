"""F19 (C01): a handler registered with a member of `class Names(str, Enum)` is never delivered.

on() accepts any str pattern and filed it under str(pattern); for a (str, Enum) member str() is 'Names.PING' while the member equals
'Ping', the event_type events are looked up under.  Found by C01.1's fifth pattern kind (added after regression C18-r3-1 changed the key
derivation of on() only).  Exit 1 = defect present; exit 0 = repaired."""
import asyncio
import sys
from enum import Enum

from bubus import BaseEvent, EventBus


class Names(str, Enum):
    PING = 'Ping'


class Ping(BaseEvent):
    pass


async def main() -> int:
    bus = EventBus(name='F19Bus')
    seen: list[str] = []

    def by_member(e: BaseEvent) -> None:
        seen.append('by-enum-member')

    bus.on(Names.PING, by_member)
    fut = asyncio.ensure_future(bus.expect(Names.PING, timeout=0.5))
    await asyncio.sleep(0)
    await bus.dispatch(Ping())
    try:
        got = await fut
    except asyncio.TimeoutError:
        got = None
    left = {k: len(v) for k, v in bus.handlers.items() if v}
    await bus.stop()
    print('handlers run:', seen, '| expect(Names.PING) resolved:', got is not None, '| registry afterwards:', left)
    ok = seen == ['by-enum-member'] and got is not None and sum(left.values()) == 1
    print('OK' if ok else 'DEFECT: the handler registered with a str-Enum member was skipped / expect never resolved / temporary handler leaked')
    return 0 if ok else 1


sys.exit(asyncio.run(main()))
