"""F17 (C01): a handler registered by event class is never delivered when the class declares its own event_type default.

on(<class>) filed the handler under the class name, _get_applicable_handlers looks handlers up under event.event_type, which is the
declared default for such a class (supported: tests/test_eventbus.py::test_explicit_event_type_override).  Found by C01.1's fourth
pattern kind after an independently written regression (C18-r2-1) changed the key derivation of on() only.
Exit 1 = defect present; exit 0 = repaired.
"""
import asyncio
import sys

from bubus import BaseEvent, EventBus


class OverrideEvent(BaseEvent):
    event_type: str = 'custom_type'


async def main() -> int:
    bus = EventBus(name='F17Bus')
    seen: list[str] = []

    def by_class(e: BaseEvent) -> None:
        seen.append('by-class')

    def by_string(e: BaseEvent) -> None:
        seen.append('by-string')

    bus.on(OverrideEvent, by_class)
    bus.on('custom_type', by_string)
    fut = asyncio.ensure_future(bus.expect(OverrideEvent, timeout=1))
    await asyncio.sleep(0)
    e = await bus.dispatch(OverrideEvent())
    try:
        got = await fut
    except asyncio.TimeoutError:
        got = None
    leftover = sum(len(v) for v in bus.handlers.values())
    await bus.stop()
    print('event_type =', e.event_type, '| handlers run:', seen, '| expect(OverrideEvent) resolved:', got is not None, '| handlers registered after expect:', leftover)
    ok = 'by-class' in seen and got is not None and leftover == 2
    print('OK' if ok else 'DEFECT: handler registered by class was skipped / expect() by class never resolves / temporary handler leaked')
    return 0 if ok else 1


sys.exit(asyncio.run(main()))
