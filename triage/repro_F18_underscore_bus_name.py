"""F18 (C01): EventBus(name='_private') is accepted, but the data model records bus names as PythonIdentifierStr (no leading underscore):
creating the pending EventResult of every handler fails validation inside process_event, so no handler of that bus is ever invoked and
its events never complete.  Found by C01.9 (constructor acceptance must imply the recording fields' validator).
Exit 1 = defect present (name accepted, handlers never run); exit 0 = repaired (the name is refused at construction, or handlers run)."""
import asyncio
import sys

from bubus import BaseEvent, EventBus


class Ping(BaseEvent):
    pass


async def main() -> int:
    try:
        bus = EventBus(name='_private')
    except AssertionError as e:
        print('refused at construction:', e)
        return 0
    seen: list[int] = []
    bus.on(Ping, lambda e: seen.append(1))
    ev = bus.dispatch(Ping())
    try:
        await asyncio.wait_for(ev, 1)
    except asyncio.TimeoutError:
        pass
    print('handlers run:', seen, '| status:', ev.event_status)
    await bus.stop()
    return 0 if seen else 1


sys.exit(asyncio.run(main()))
