import asyncio, logging
from bubus import EventBus, BaseEvent
logging.disable(logging.CRITICAL)
class P(BaseEvent): pass
class C(BaseEvent): pass
async def f3():
    bus = EventBus(name='F3b', max_history_size=1000)
    rej = []
    async def on_p(e):
        for i in range(120):
            try: bus.dispatch(C())
            except Exception as ex: rej.append(type(ex).__name__)
    async def on_c(e): pass
    bus.on(P, on_p); bus.on(C, on_c)
    p = bus.dispatch(P())
    try:
        await asyncio.wait_for(asyncio.shield(p.event_completed_signal.wait()), 3)
        print('F3 parent completed; rejected', len(rej), set(rej), 'children recorded', len(p.event_children))
    except asyncio.TimeoutError:
        kids = p.event_children
        print('F3 parent NOT complete after 3s; rejected', len(rej), set(rej), 'children recorded', len(kids), 'never-accepted children recorded', sum(1 for c in kids if c.event_id not in bus.event_history))
    await bus.stop()
asyncio.run(f3())
