import asyncio, logging, sys, time
from bubus import EventBus, BaseEvent
logging.disable(logging.CRITICAL)

class P(BaseEvent): pass
class C(BaseEvent): pass
class X(BaseEvent):
    n: int = 0

async def f9():
    a = EventBus(name='G9A'); b = EventBus(name='G9B')
    seen = {}
    async def after(e): seen['handler on A, registered after forward, sees event_bus'] = e.event_bus.name
    a.on(P, b.dispatch); a.on(P, after)
    await a.dispatch(P()); await b.wait_until_idle()
    print('F9', seen)
    await a.stop(); await b.stop()

async def c02():
    # bus B's run loop takes X1 off B's queue and blocks on the global lock held by A's handler;
    # A's handler then awaits a child on B and drains B's queue inline: X2 and the child run before X1
    a = EventBus(name='O2A'); b = EventBus(name='O2B')
    order = []
    async def on_p(e):
        b.dispatch(X(n=1)); b.dispatch(X(n=2))
        await asyncio.sleep(0.01)     # B's run loop dequeues X1, blocks on lock
        await b.dispatch(C())
    async def on_x(e): order.append(e.n)
    async def on_c(e): order.append('c')
    a.on(P, on_p); b.on(X, on_x); b.on(C, on_c)
    b._start(); await asyncio.sleep(0.01)
    await a.dispatch(P()); await b.wait_until_idle()
    print('C02 processing order on B (enqueue order was 1,2,c):', order)
    await a.stop(); await b.stop()

async def stop_inline():
    a = EventBus(name='S1A'); b = EventBus(name='S1B')
    ran = []
    async def on_x(e): ran.append(('B handler ran', e.n))
    async def on_c(e): pass
    async def on_p(e):
        await a.dispatch(C())
    b.on(X, on_x); a.on(P, on_p); a.on(C, on_c)
    b._start(); await asyncio.sleep(0)
    # put an event on b and stop b before its run loop gets to it
    b.dispatch(X(n=7))
    await b.stop()
    print('stop returned; b queue size', b.event_queue.qsize(), 'ran', ran)
    await a.dispatch(P())
    print('after a handler on another bus awaited a child: handlers of stopped bus that ran:', ran)
    await a.stop()

async def cancelled_handler():
    bus = EventBus(name='K1')
    ran = []
    async def bad(e):
        t = asyncio.create_task(asyncio.sleep(10)); t.cancel()
        await t      # raises CancelledError inside the handler (a cancelled sub-task)
    async def good(e): ran.append('good')
    async def on_x(e): ran.append(('x', e.n))
    bus.on(P, bad); bus.on(P, good); bus.on(X, on_x)
    p = bus.dispatch(P()); bus.dispatch(X(n=1))
    await asyncio.sleep(0.3)
    print('handler-raised CancelledError: ran', ran, 'runloop done?', bus._runloop_task.done(), 'is_running', bus._is_running, 'p signal', p.event_completed_signal.is_set(), 'queue', bus.event_queue.qsize())
    await bus.stop()

for f in (f9, c02, stop_inline, cancelled_handler):
    asyncio.run(f())
