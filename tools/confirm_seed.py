#!/venv/bin/python
"""Confirm an independently written regression and file it under /verif/seeded/<id>/.

    confirm_seed.py <agent seed dir> <property id> <seed id>

Confirms in a fresh scratch worktree of /repo (removed afterwards): the demonstration passes on the clean tree, fails with the
patch, the pinned test suite still passes with the patch; then runs every static check against the patched tree (eval_patch)
and records which ones report a violation.
"""
import json, os, re, shutil, subprocess, sys, tempfile, time

VERIF = os.path.dirname(os.path.dirname(os.path.abspath(__file__)))
PY = '/venv/bin/python'


def sh(cmd, cwd, env=None, timeout=1200):
    e = dict(os.environ)
    e.update(env or {})
    try:
        r = subprocess.run(cmd, cwd=cwd, env=e, capture_output=True, text=True, timeout=timeout)
        return r.returncode, (r.stdout + r.stderr)
    except subprocess.TimeoutExpired as ex:
        return 124, f'TIMEOUT after {timeout}s\n{ex.stdout or ""}'


def suite(wt):
    cmd = [PY, '-m', 'pytest', '-q', '-p', 'no:cacheprovider', '--timeout=900', '-o', 'addopts=', '-o', 'log_cli=false']
    priv = os.path.join(os.path.dirname(wt), 'tmpdir')  # private TMPDIR: the multiprocess-semaphore tests share a directory under the temp dir
    os.makedirs(priv, exist_ok=True)
    rc, out = sh(cmd, wt, {'PYTHONPATH': wt, 'TMPDIR': priv})
    tail = out.strip().splitlines()[-1] if out.strip() else ''
    failed = re.findall(r'^FAILED (\S+)', out, re.M)
    if rc != 0 and failed and all('TestMultiprocessSemaphore' in f for f in failed):
        for _ in range(3):  # cross-process /tmp interference: re-run that file alone
            rc2, out2 = sh(cmd + ['tests/test_semaphores.py'], wt, {'PYTHONPATH': wt, 'TMPDIR': priv})
            if rc2 == 0:
                return 0, tail + ' | multiprocess-semaphore tests re-run alone: ' + out2.strip().splitlines()[-1]
            time.sleep(2)
    return rc, tail + (' | FAILED ' + ', '.join(failed[:5]) if failed else '')


def main():
    src, prop, sid = os.path.abspath(sys.argv[1]), sys.argv[2].upper(), sys.argv[3]
    patch = os.path.join(src, 'patch.diff')
    demo = os.path.join(src, 'demo.py')
    tmp = tempfile.mkdtemp(prefix='bubus-seed-')
    wt = os.path.join(tmp, 'wt')
    meta = {'id': sid, 'property': prop, 'written_by': 'fresh sub-agent that saw only the property text and a scratch worktree', 'ran': []}
    try:
        subprocess.run(['git', '-C', '/repo', 'worktree', 'add', '-q', '--detach', wt, os.environ.get('SEED_BASE', 'HEAD')], check=True)
        head = subprocess.run(['git', '-C', '/repo', 'rev-parse', '--short', os.environ.get('SEED_BASE', 'HEAD')], capture_output=True, text=True).stdout.strip()
        meta['repo_head'] = head
        if os.environ.get('SEED_BASE'):
            meta['seed_base'] = os.environ['SEED_BASE']
            meta['note'] = 'confirmed against an earlier commit of /repo: a later fix: commit repaired the underlying defect, after which this change no longer breaks the property'
        shutil.copy(demo, os.path.join(wt, '_demo.py'))
        repeat = int(os.environ.get('CONFIRM_REPEAT', '1'))  # schedule-dependent demonstrations: the clean tree must pass every time, the patched tree must fail at least once
        rc_clean = 0
        for _ in range(repeat):
            rc1, out = sh([PY, '_demo.py'], wt, {'PYTHONPATH': wt}, timeout=180)
            rc_clean = rc_clean or rc1
        meta['ran'].append({'cmd': 'demo.py on the clean tree' + (f' ({repeat} runs, all must pass)' if repeat > 1 else ''), 'rc': rc_clean, 'tail': out.strip().splitlines()[-3:]})
        rc, out = sh(['git', 'apply', '--whitespace=nowarn', patch], wt)
        if rc != 0:
            meta['confirmed'] = False
            meta['why'] = 'patch does not apply: ' + out[:300]
        else:
            rcs = []
            for _ in range(repeat):
                rc_patched, out = sh([PY, '_demo.py'], wt, {'PYTHONPATH': wt}, timeout=180)
                rcs.append(rc_patched)
                if rc_patched != 0:
                    break
            meta['ran'].append({'cmd': 'demo.py with the patch' + (f' (exit codes of successive runs until the first failure: {rcs})' if repeat > 1 else ''), 'rc': rc_patched, 'tail': out.strip().splitlines()[-3:]})
            os.remove(os.path.join(wt, '_demo.py'))
            rc_suite, tail = suite(wt)
            meta['ran'].append({'cmd': 'pinned test suite with the patch', 'rc': rc_suite, 'tail': tail})
            meta['confirmed'] = (rc_clean == 0 and rc_patched != 0 and rc_suite == 0)
        rc, out = sh([PY, os.path.join(VERIF, 'tools', 'eval_patch.py'), patch], VERIF)
        fired = re.findall(r'^FIRED: (.*)$', out, re.M)
        meta['checks_fired'] = fired[0].split() if fired and fired[0] != '(none)' else []
        und = re.findall(r'^UNDECIDED: (.*)$', out, re.M)
        meta['checks_undecided'] = und[0].split() if und and und[0] != '(none)' else []
        meta['check_reports'] = [l.strip() for l in out.splitlines() if l.startswith('     ')][:12]
        meta['caught_by_own_property_check'] = prop in meta['checks_fired']
    finally:
        subprocess.run(['git', '-C', '/repo', 'worktree', 'remove', '--force', wt], capture_output=True)
        shutil.rmtree(tmp, ignore_errors=True)
    notes = os.path.join(src, 'notes.md')
    meta['needs_to_manifest'] = ''
    if os.path.exists(notes):
        txt = open(notes, encoding='utf-8').read()
        m = re.search(r'(?is)(needed to manifest|needs to manifest|what is needed|to manifest)[^\n]*\n?(.{0,700})', txt)
        meta['needs_to_manifest'] = (m.group(0) if m else txt[:600]).strip()[:900]
    if meta.get('confirmed'):
        dst = os.path.join(VERIF, 'seeded', sid)
        os.makedirs(dst, exist_ok=True)
        shutil.copy(patch, os.path.join(dst, 'patch.diff'))
        shutil.copy(demo, os.path.join(dst, 'demo.py'))
        if os.path.exists(notes):
            shutil.copy(notes, os.path.join(dst, 'notes.md'))
        json.dump(meta, open(os.path.join(dst, 'meta.json'), 'w'), indent=1, ensure_ascii=False)
    print(json.dumps({k: meta[k] for k in ('id', 'confirmed', 'checks_fired', 'caught_by_own_property_check') if k in meta}), flush=True)
    if not meta.get('confirmed'):
        print(json.dumps(meta, indent=1)[:1500])


if __name__ == '__main__':
    main()
