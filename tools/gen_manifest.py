#!/venv/bin/python
"""Regenerate /verif/MANIFEST.json from the rule modules that exist (keeps the manifest valid at all times)."""

from __future__ import annotations

import importlib
import json
import os
import sys

VERIF = os.path.dirname(os.path.dirname(os.path.abspath(__file__)))
sys.path.insert(0, VERIF)
sys.dont_write_bytecode = True

PY = '/venv/bin/python'
BASELINE_CMD = 'cd /repo && /venv/bin/python -m pytest -ra -q -p no:cacheprovider --timeout=900 --continue-on-collection-errors'

NOTE = (
    'Structural necessary conditions only: the check decides clauses whose truth is visible in the shape of the library code on every '
    'path (pairing on all exits incl. cancellation at every await, ordering, ownership, exception containment, sibling agreement, '
    'finite case splits evaluated abstractly). The behavioural property over all schedules / handler programs is NOT decided. '
    'Fault models: FM-cancel (every await may raise CancelledError), FM-explicit (raise statements + escape sets of resolved repo '
    'callees), FM-lib (frozen table), FM-handler (opaque callbacks raise any Exception); asserts hold; pydantic/asyncio trusted. '
    'No bubus code is executed.'
)


def main() -> None:
    props = [json.loads(l) for l in open(os.path.join(VERIF, 'properties.jsonl'), encoding='utf-8')]
    checks = []
    na = []
    for p in props:
        pid = p['id']
        try:
            mod = importlib.import_module(f'rules.{pid.lower()}')
        except ModuleNotFoundError:
            na.append({'property_id': pid, 'reason': 'static check not built yet in this round (work in progress; see DESIGN.md section 4 for the planned obligations)'})
            continue
        obs = mod.OBLIGATIONS
        kinds = sorted({k for o in obs for k in o.kind.replace(' ', '').split('/')})
        decided = '; '.join(f'{o.id} {o.sentence}' for o in obs)
        claim = getattr(mod, 'CLAIM', '')
        checks.append(
            {
                'property_id': pid,
                'quick_cmd': f'{PY} /verif/check.py {pid} --tier quick',
                'thorough_cmd': f'{PY} /verif/check.py {pid} --tier thorough',
                'evidence_file': f'/verif/evidence/{pid}.json',
                'replay_cmd_template': f'{PY} /verif/check.py {pid} --replay {{path}}',
                'engine': 'bubus-sa',
                'level_claimed': {
                    'category': 'other',
                    'text': (claim + ' ' if claim else '')
                    + f'Static analysis decides {len(obs)} structural obligations that are necessary conditions of {pid} on every path of the library code: '
                    + decided
                    + '. A pass means each of these holds on the current tree (or is a listed known finding); it does not decide the behaviour under all schedules/programs.',
                    'design_ref': f'DESIGN.md section 4, {pid}',
                },
                'level_note': NOTE,
                'technique': 'repo-specific static analysis (' + ', '.join(kinds) + ' rules over AST/CFG with typed exception edges, path-sensitive facts, resolved call graph, effects)',
            }
        )
    manifest = {
        'version': 1,
        'setup_cmd': 'true',
        'hooks': {
            'guard': 'BUBUS_VERIF',
            'enable': 'none needed: static analysis reads the source of /repo; no hook or instrumentation was added to browser-use/bubus',
            'baseline_off_cmd': BASELINE_CMD,
            'source_commits': [],
            'add_only': True,
        },
        'engines': [
            {
                'name': 'bubus-sa',
                'path': '/verif/sa',
                'serves_properties': [c['property_id'] for c in checks],
                'kind_free_text': 'stdlib-only static analyser: ast loader + annotation-driven receiver typing, statement CFG with typed exceptional '
                'edges and inlined finally/with-exit, escape-set fixed point, path search over CFG x facts, call graph with transitive attribute '
                'effects, tiny abstract evaluator for finite case splits; rules in /verif/rules; seeded-mutant self-test in /verif/selftest',
            }
        ],
        'checks': checks,
        'notes': 'Every check is static: it parses /repo/bubus/*.py on every run and never imports or runs bubus. exit 0 = all structural obligations hold or are '
        'listed known findings (KNOWN-FINDING lines); exit 1 = VIOLATION lines with replay files under /verif/evidence/violations; exit 2 = ANALYSIS-ERROR '
        '(vanished anchor, instance floor undershot, self-test failure). Known findings: /verif/known_findings.json. Genuine defects repaired in /repo by '
        'separate "fix:" commits are listed there as fixed entries (they suppress nothing). /verif/triage holds design-time dynamic reproductions of the '
        'findings; they are not part of any check.',
        'not_applicable': na,
    }
    with open(os.path.join(VERIF, 'MANIFEST.json'), 'w', encoding='utf-8') as f:
        json.dump(manifest, f, indent=1, ensure_ascii=False)
        f.write('\n')
    print(f'MANIFEST.json: {len(checks)} checks, {len(na)} not_applicable')


if __name__ == '__main__':
    main()
