#!/venv/bin/python
"""Regenerate sa/known_units.json from /repo's current tree: the units (functions) and, per unit, the local names the rules were written
against.  Run only after confirming by hand that the tree is the one the rules describe (after a `fix:` commit in /repo, for example)."""
import ast, json, os, sys
V = os.path.dirname(os.path.dirname(os.path.abspath(__file__)))
sys.path.insert(0, V)
from sa.alias import _own, local_names, FuncNode  # noqa: E402
root = sys.argv[1] if len(sys.argv) > 1 else '/repo'
units, locs = [], {}
for fn_ in sorted(os.listdir(os.path.join(root, 'bubus'))):
    if not fn_.endswith('.py'):
        continue
    rel = f'bubus/{fn_}'
    tree = ast.parse(open(os.path.join(root, rel), encoding='utf-8').read())
    def rec(body, prefix, in_fn=None):
        for st in body:
            if isinstance(st, FuncNode):
                qn = f'{prefix}{st.name}'
                units.append([rel, qn]); locs[f'{rel}::{qn}'] = local_names(st)
                for n in _own(st):
                    pass
                nested(st, f'{qn}.')
            elif isinstance(st, ast.ClassDef):
                rec(st.body, f'{st.name}.')
            elif isinstance(st, (ast.If, ast.Try)):
                for f in ('body', 'orelse', 'finalbody'):
                    rec(getattr(st, f, []) or [], prefix)
    def nested(fn, prefix):
        for n in _own(fn):
            if isinstance(n, FuncNode):
                qn = f'{prefix}{n.name}'
                units.append([rel, qn]); locs[f'{rel}::{qn}'] = local_names(n)
                nested(n, f'{qn}.')
    rec(tree.body, '')
p = os.path.join(V, 'sa', 'known_units.json')
old = json.load(open(p))
new_units = sorted(map(list, {tuple(u) for u in units}))
print('units before', len(old['units']), 'now', len(new_units), 'added', sorted(set(map(tuple, new_units)) - set(map(tuple, old['units']))), 'removed', sorted(set(map(tuple, old['units'])) - set(map(tuple, new_units))))
old['units'] = new_units
old['locals'] = locs
old['_comment_locals'] = 'local names (per unit) the rules were written against; a local that is NOT listed is a new name: if it is a plain alias of an attribute chain it is propagated into its uses before analysis (sa/alias.py)'
json.dump(old, open(p, 'w'), indent=0, ensure_ascii=False)
# attribute names per class (new attributes are new state: sa/memo.py)
attrs = {}
for fn_ in sorted(os.listdir(os.path.join(root, 'bubus'))):
    if not fn_.endswith('.py'):
        continue
    tree = ast.parse(open(os.path.join(root, 'bubus', fn_), encoding='utf-8').read())
    for cls in [n for n in ast.walk(tree) if isinstance(n, ast.ClassDef)]:
        names = set()
        for st in cls.body:
            if isinstance(st, (ast.Assign, ast.AnnAssign)):
                for t in (st.targets if isinstance(st, ast.Assign) else [st.target]):
                    if isinstance(t, ast.Name):
                        names.add(t.id)
        for n in ast.walk(cls):
            if isinstance(n, ast.Attribute) and isinstance(n.ctx, ast.Store) and isinstance(n.value, ast.Name) and n.value.id in ('self', 'cls'):
                names.add(n.attr)
        attrs[cls.name] = sorted(names)
old = json.load(open(p))
old['attrs'] = attrs
json.dump(old, open(p, 'w'), indent=0, ensure_ascii=False)
# module-level names (new module-level literals are named constants: sa/consts.py)
globs = {}
for fn_ in sorted(os.listdir(os.path.join(root, 'bubus'))):
    if not fn_.endswith('.py'):
        continue
    tree = ast.parse(open(os.path.join(root, 'bubus', fn_), encoding='utf-8').read())
    names = set()
    for st in ast.walk(tree):
        if isinstance(st, (ast.Assign, ast.AnnAssign)) and st in tree.body or (isinstance(st, (ast.Assign, ast.AnnAssign)) and getattr(st, 'col_offset', 1) == 0):
            for t in (st.targets if isinstance(st, ast.Assign) else [st.target]):
                if isinstance(t, ast.Name):
                    names.add(t.id)
    globs[f'bubus/{fn_}'] = sorted(names)
old = json.load(open(p))
old['globals'] = globs
old['_comment_globals'] = 'module-level names the rules were written against; a module-level name that is NOT listed and is bound once to a literal is a named constant, written out at its uses (sa/consts.py)'
json.dump(old, open(p, 'w'), indent=0, ensure_ascii=False)
# parameter names per unit (a parameter that is NOT listed is new: rules may read the function with it at its default when no library caller passes anything else)
params = {}
for fn_ in sorted(os.listdir(os.path.join(root, 'bubus'))):
    if not fn_.endswith('.py'):
        continue
    rel = f'bubus/{fn_}'
    tree = ast.parse(open(os.path.join(root, rel), encoding='utf-8').read())
    def recp(body, prefix):
        for st in body:
            if isinstance(st, FuncNode):
                qn = f'{prefix}{st.name}'
                a = st.args
                params[f'{rel}::{qn}'] = [x.arg for x in a.posonlyargs + a.args + a.kwonlyargs] + ([a.vararg.arg] if a.vararg else []) + ([a.kwarg.arg] if a.kwarg else [])
                recp([n for n in ast.walk(st) if isinstance(n, FuncNode) and n is not st and any(n is c_ for c_ in ast.iter_child_nodes(st))] , f'{qn}.')
                for sub in ast.iter_child_nodes(st):
                    if isinstance(sub, (ast.If, ast.Try, ast.With, ast.For, ast.While)):
                        recp([n for n in ast.walk(sub) if isinstance(n, FuncNode)], f'{qn}.')
            elif isinstance(st, ast.ClassDef):
                recp(st.body, f'{st.name}.')
            elif isinstance(st, (ast.If, ast.Try)):
                for f in ('body', 'orelse', 'finalbody'):
                    recp(getattr(st, f, []) or [], prefix)
    recp(tree.body, '')
old = json.load(open(p))
old['params'] = params
old['_comment_params'] = 'parameter names (per unit) the rules were written against'
json.dump(old, open(p, 'w'), indent=0, ensure_ascii=False)
