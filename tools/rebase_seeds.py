#!/venv/bin/python
"""For every filed regression whose patch no longer applies to /repo HEAD, record the newest /repo commit it still applies to as
meta.json seed_base (the thorough tier skips such patches; tools/eval_patch.py evaluates them against that commit)."""
import glob, json, os, subprocess, sys
VERIF = os.path.dirname(os.path.dirname(os.path.abspath(__file__)))
commits = subprocess.run(['git', '-C', '/repo', 'log', '--format=%h', '-n', '15'], capture_output=True, text=True).stdout.split()
def applies(commit, patch):
    files = sorted({l[6:].strip() for l in open(patch) if l.startswith('+++ b/')})
    import tempfile, shutil
    tmp = tempfile.mkdtemp(prefix='bubus-rebase-')
    try:
        for f in files:
            os.makedirs(os.path.dirname(os.path.join(tmp, f)), exist_ok=True)
            src = subprocess.run(['git', '-C', '/repo', 'show', f'{commit}:{f}'], capture_output=True, text=True).stdout
            open(os.path.join(tmp, f), 'w').write(src)
        return subprocess.run(['git', 'apply', '--check', '--whitespace=nowarn', '--unsafe-paths', '--directory', tmp, patch], capture_output=True, cwd=tmp).returncode == 0
    finally:
        shutil.rmtree(tmp, ignore_errors=True)
for patch in sorted(glob.glob(os.path.join(VERIF, 'seeded', '*', 'patch.diff'))):
    mp = os.path.join(os.path.dirname(patch), 'meta.json')
    meta = json.load(open(mp))
    if applies(commits[0], patch):
        if meta.get('seed_base') and not meta.get('seed_base_reason', '').startswith('relies'):
            pass
        continue
    for cm in commits[1:]:
        if applies(cm, patch):
            if meta.get('seed_base') != cm:
                meta['seed_base'] = cm
                meta.setdefault('seed_base_reason', f'the patch touches code changed by a later repair in /repo; it applies to {cm}')
                json.dump(meta, open(mp, 'w'), indent=1)
                print(os.path.basename(os.path.dirname(patch)), '-> seed_base', cm)
            break
    else:
        print(os.path.basename(os.path.dirname(patch)), 'applies to none of the last commits', file=sys.stderr)
