#!/venv/bin/python
"""Regenerate the table of filed regressions (DESIGN.md section 9) from /verif/seeded/*/meta.json."""
import glob, json, os, re
VERIF = os.path.dirname(os.path.dirname(os.path.abspath(__file__)))
rows = []
for m in sorted(glob.glob(os.path.join(VERIF, 'seeded', '*', 'meta.json'))):
    d = json.load(open(m))
    notes = os.path.join(os.path.dirname(m), 'notes.md')
    first = ''
    if os.path.exists(notes):
        txt = [l.strip() for l in open(notes, encoding='utf-8').read().splitlines() if l.strip() and not l.startswith('#')]
        first = re.sub(r'[|*`]', '', txt[0])[:170] if txt else ''
    own = 'yes' if d.get('caught_by_own_property_check') else 'NO'
    rows.append(f"| {d['id']} | {d['property']} | {first} | {', '.join(d.get('checks_fired', [])) or '—'} | {own} |" + (f" base {d['seed_base']}" if d.get('seed_base') else ''))
hdr = '| id | breaks | change (first line of the author\'s notes) | checks that report a VIOLATION | own property\'s check fires |\n|---|---|---|---|---|\n'
out = hdr + '\n'.join(rows) + '\n'
start, end = '<!-- SEED-TABLE-BEGIN -->', '<!-- SEED-TABLE-END -->'
p = os.path.join(VERIF, 'DESIGN.md')
s = open(p, encoding='utf-8').read()
if start in s:
    s = s[: s.index(start) + len(start)] + '\n' + out + s[s.index(end):]
    open(p, 'w', encoding='utf-8').write(s)
print(f'{len(rows)} seeds; own-property catch: {sum(1 for r in rows if "| yes |" in r)}/{len(rows)}')
