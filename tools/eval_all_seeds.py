#!/venv/bin/python
"""Run every check against every filed regression (/verif/seeded/*) and neutral refactoring (/verif/neutral/*)."""
import glob, json, os, re, subprocess, sys
from concurrent.futures import ThreadPoolExecutor
VERIF = os.path.dirname(os.path.dirname(os.path.abspath(__file__)))
def run(p):
    env = dict(os.environ)
    meta = os.path.join(os.path.dirname(p), 'meta.json')
    if os.path.exists(meta):
        b = json.load(open(meta)).get('seed_base')
        if b: env['SEED_BASE'] = b
    r = subprocess.run(['/venv/bin/python', os.path.join(VERIF, 'tools', 'eval_patch.py'), p], capture_output=True, text=True, env=env)
    m = re.findall(r'^FIRED: (.*)$', r.stdout, re.M)
    u = re.findall(r'^UNDECIDED: (.*)$', r.stdout, re.M)
    return p, (m[0] if m else 'ERROR ' + r.stdout[-200:]) + ('' if not u or u[0] == '(none)' else '  [undecided: ' + u[0] + ']')
pats = sorted(glob.glob(os.path.join(VERIF, 'seeded', '*', 'patch.diff'))) + sorted(glob.glob(os.path.join(VERIF, 'neutral', '*', 'patch.diff'))) + [a for a in sys.argv[1:] if not a.startswith('--')]
bad = 0
with ThreadPoolExecutor(4) as ex:
    for p, fired in ex.map(run, pats):
        d = os.path.basename(os.path.dirname(p))
        kind = 'neutral' if '/neutral/' in p else 'seeded'
        prop = d.split('-')[0]
        ok = (fired == '(none)') if kind == 'neutral' else (prop in fired.split('[')[0].split())
        mp = os.path.join(os.path.dirname(p), 'meta.json')
        if kind == 'seeded' and not ok and os.path.exists(mp) and json.load(open(mp)).get('expected_uncaught'):
            ok = True
            fired += '  (documented miss)'
        if kind == 'seeded' and '--update' in sys.argv and os.path.exists(mp) and not fired.startswith('ERROR'):
            md = json.load(open(mp))
            now = fired.split('[')[0].split('(')[0].split()
            if md.get('checks_fired') != now:
                md.setdefault('checks_fired_when_confirmed', md.get('checks_fired'))
                md['checks_fired'] = now
                md['caught_by_own_property_check'] = prop in now
                json.dump(md, open(mp, 'w'), indent=1)
        bad += 0 if ok else 1
        print(f'{kind:8s} {d:12s} fired: {fired}  {"ok" if ok else "<<<<<< UNEXPECTED"}')
sys.exit(1 if bad else 0)
