"""Print the normalised (folded / alias-propagated / loop-normalised) form of units: show_unit.py <root> <module> <qualname>..."""
import ast
import os
import sys

sys.path.insert(0, os.path.dirname(os.path.dirname(os.path.abspath(__file__))))
from sa.loader import Program  # noqa: E402

p = Program(sys.argv[1])
for n in sys.argv[3:]:
    u = p.unit(sys.argv[2] if sys.argv[2].endswith(".py") else sys.argv[2].replace(".", "/") + ".py", n)
    print(ast.unparse(u.node))
    print('-' * 40)
