#!/venv/bin/python
"""Write the text of one property (from properties.jsonl) the way it is handed to a sub-agent: usage make_property_txt.py C07 <out file>."""
import json, os, sys
V = os.path.dirname(os.path.dirname(os.path.abspath(__file__)))
pid, out = sys.argv[1].upper(), sys.argv[2]
p = next(x for x in (json.loads(l) for l in open(os.path.join(V, 'properties.jsonl'))) if x['id'] == pid)
a = p['anchors']
tx = lambda v: v.get('text', json.dumps(v)) if isinstance(v, dict) else v  # noqa: E731
mech = '; '.join(f"{m['name']} @ {m['where']}" for m in a.get('mechanism', []))
state = '; '.join(f"{m['name']} ({m['meaning']}) @ {m['where']}" for m in a.get('state', []))
txt = (f"PROPERTY {p['id']}: {p['title']}\n\nStatement: {tx(p['statement'])}\n\nQuantifier: {tx(p['quantifier'])}\n\nWhy the existing tests cannot settle it: {tx(p['why_tests_cant'])}\n\n"
       f"Where it lives (anchors): files {a.get('files')}; state: {state}; mechanisms: {mech}\n")
open(out, 'w').write(txt)
