"""Regenerate DESIGN.md Appendix A (between the KF-TABLE markers) from known_findings.json."""
import json
import os
import re

V = os.path.dirname(os.path.dirname(os.path.abspath(__file__)))
kf = json.load(open(os.path.join(V, 'known_findings.json')))
esc = lambda s: s.replace('|', '\\|')
rows = ['| property | id | key | what fails |', '|---|---|---|---|']
for e in kf['open']:
    rows.append(f"| {e['property']} | {e['id']} | `{esc(e['key'])}` | {esc(e['what'])} |")
fixed = ['* ' + f for f in kf['fixed']]
block = ('<!-- KF-TABLE-BEGIN -->\nOpen (printed as `KNOWN-FINDING: property=<id> …` on every run, exit 0):\n\n' + '\n'.join(rows) +
         '\n\nFixed (documentation only; they suppress nothing — reverting a repair makes its obligation a VIOLATION again, and each\nrevert is a self-test mutant):\n\n' + '\n'.join(fixed) + '\n<!-- KF-TABLE-END -->')
p = os.path.join(V, 'DESIGN.md')
s = open(p).read()
if 'KF-TABLE-BEGIN' in s:
    s = re.sub(r'<!-- KF-TABLE-BEGIN -->.*?<!-- KF-TABLE-END -->', lambda m: block, s, flags=re.S)
else:
    a = s.index('Open (printed as `KNOWN-FINDING')
    b = s.index('## Appendix B')
    s = s[:a] + block + '\n\n' + s[b:]
open(p, 'w').write(s)
print('appendix A regenerated:', len(kf['open']), 'open,', len(kf['fixed']), 'fixed')
