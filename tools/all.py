#!/venv/bin/python
"""Run every registered check (quick by default) in parallel; print one line each; exit non-zero if any is not clean."""
import json, os, subprocess, sys
from concurrent.futures import ThreadPoolExecutor
VERIF = os.path.dirname(os.path.dirname(os.path.abspath(__file__)))
tier = sys.argv[1] if len(sys.argv) > 1 else 'quick'
man = json.load(open(os.path.join(VERIF, 'MANIFEST.json')))
def run(ch):
    cmd = ch['quick_cmd'] if tier == 'quick' else ch.get('thorough_cmd', ch['quick_cmd'])
    r = subprocess.run(cmd, shell=True, cwd=VERIF, capture_output=True, text=True)
    return ch['property_id'], r.returncode, r.stdout.strip().splitlines()
bad = 0
with ThreadPoolExecutor(8 if tier == 'quick' else 2) as ex:
    for pid, rc, lines in ex.map(run, man['checks']):
        last = lines[-1] if lines else ''
        print(f'{pid} rc={rc} {last}')
        if rc != 0:
            bad += 1
            for l in lines[:-1]:
                if not l.startswith('KNOWN-FINDING'):
                    print('   ', l[:240])
sys.exit(1 if bad else 0)
