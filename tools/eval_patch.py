#!/venv/bin/python
"""Evaluate the checks against a patched copy of the library (never touches /repo).

    eval_patch.py <patch.diff> [Cxx ...]     -> for every (or the given) property: exit code and VIOLATION summary lines
"""
import json, os, shutil, subprocess, sys, tempfile
from concurrent.futures import ThreadPoolExecutor

VERIF = os.path.dirname(os.path.dirname(os.path.abspath(__file__)))


def main() -> int:
    patch = os.path.abspath(sys.argv[1])
    props = [p.upper() for p in sys.argv[2:]] or [f'C{i:02d}' for i in range(1, 21)]
    tmp = tempfile.mkdtemp(prefix='bubus-eval-')
    try:
        subprocess.run(['git', '-C', '/repo', 'worktree', 'add', '-q', '--detach', os.path.join(tmp, 'wt'), os.environ.get('SEED_BASE', 'HEAD')], check=True)
        wt = os.path.join(tmp, 'wt')
        import re as _re

        def reports(out: str) -> set[str]:
            # the report lines of a run, without line numbers (which the patch shifts)
            return {_re.sub(r':\d+', ':N', l.strip()) for l in out.splitlines() if l.startswith('  [')}

        base_reports: dict[str, set[str]] = {}
        if os.environ.get('SEED_BASE'):
            # an earlier commit of /repo can itself violate a property that was repaired since: only what the patch adds counts
            def run0(p):
                r0 = subprocess.run(['/venv/bin/python', os.path.join(VERIF, 'check.py'), p, '--root', wt, '--no-evidence'], capture_output=True, text=True, cwd=VERIF)
                return p, reports(r0.stdout)
            with ThreadPoolExecutor(8) as ex0:
                base_reports = dict(ex0.map(run0, props))
        r = subprocess.run(['git', '-C', wt, 'apply', '--whitespace=nowarn', patch], capture_output=True, text=True)
        if r.returncode != 0:
            print('PATCH DOES NOT APPLY:', r.stderr.strip())
            return 3

        def run(p):
            r = subprocess.run(['/venv/bin/python', os.path.join(VERIF, 'check.py'), p, '--root', wt, '--no-evidence'], capture_output=True, text=True, cwd=VERIF)
            lines = r.stdout.splitlines()
            viol = []
            for i, l in enumerate(lines):
                if l.startswith('VIOLATION') and i + 1 < len(lines):
                    viol.append(lines[i + 1].strip()[:230])
                if l.startswith('ANALYSIS-ERROR'):
                    viol.append(l[:230])
            rc = r.returncode
            if rc == 1 and base_reports.get(p) and not (reports(r.stdout) - base_reports[p]):
                return p, 0, [f'(reports only what the base commit already reports without the patch: not counted)']
            return p, rc, viol

        fired, broken = [], []
        with ThreadPoolExecutor(8) as ex:
            for p, rc, viol in ex.map(run, props):
                if rc != 0:
                    (fired if rc == 1 else broken).append(p)
                    print(f'{p} rc={rc}')
                    for v in viol:
                        print('    ', v)
        # exit 1 = a VIOLATION was reported; exit 2 = the analysis could not decide (ANALYSIS-ERROR): that is not a verdict and is listed apart
        print('FIRED:', ' '.join(fired) if fired else '(none)')
        print('UNDECIDED:', ' '.join(broken) if broken else '(none)')
        return 0
    finally:
        subprocess.run(['git', '-C', '/repo', 'worktree', 'remove', '--force', os.path.join(tmp, 'wt')], capture_output=True)
        shutil.rmtree(tmp, ignore_errors=True)


if __name__ == '__main__':
    sys.exit(main())
