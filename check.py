#!/venv/bin/python
"""bubus-sa driver.

    check.py <Cnn> --tier quick|thorough [--root /repo] [--replay <violation.json>]

exit 0  every structural obligation of the property holds on the current tree (or is a listed known finding)
exit 1  at least one obligation fails with a key not listed open in known_findings.json (VIOLATION lines)
exit 2  ANALYSIS-ERROR: vanished anchor, instance floor undershot, internal error, checker self-test failed
"""

from __future__ import annotations

import argparse
import importlib
import json
import os
import sys
import time
import traceback

HERE = os.path.dirname(os.path.abspath(__file__))
sys.path.insert(0, HERE)
sys.dont_write_bytecode = True


def load_obligations(prop: str):
    mod = importlib.import_module(f'rules.{prop.lower()}')
    obs = list(mod.OBLIGATIONS)
    for o in obs:
        o.prop = prop
    return obs


def analyse(root: str):
    from sa.callgraph import CallGraph
    from sa.cfg import Analysis
    from sa.loader import Program

    prog = Program(root)
    an = Analysis(prog)
    cg = CallGraph(an)
    return prog, an, cg


def main() -> int:
    ap = argparse.ArgumentParser()
    ap.add_argument('prop')
    ap.add_argument('--tier', default=os.environ.get('VERIF_TIER', 'quick'), choices=['quick', 'thorough'])
    ap.add_argument('--root', default=os.environ.get('BUBUS_SA_ROOT', '/repo'))
    ap.add_argument('--replay', default=None)
    ap.add_argument('--no-evidence', action='store_true')
    args = ap.parse_args()
    prop = args.prop.upper()
    seed = int(os.environ.get('VERIF_SEED', '0') or 0)
    t0 = time.time()
    try:
        from sa.report import run_property

        obs = load_obligations(prop)
        prog, an, cg = analyse(args.root)
        only_key = None
        if args.replay:
            rep = json.load(open(args.replay, encoding='utf-8'))
            only_key = rep['key']
            obs = [o for o in obs if o.id == rep['obligation']]
            print(f'replaying obligation {rep["obligation"]} key={only_key}')
        extra = {}
        rc_self = 0
        if args.tier == 'thorough' and not args.replay:
            from selftest.run import run_selftest

            rc_self, extra = run_selftest(prop, args.root, seed)
            from sa.bytecheck import cross_check, sabotage_selfcheck

            bc = cross_check(prog, an)
            sab = sabotage_selfcheck(prog)
            extra['bytecode_crosscheck'] = {
                'what': 'every exceptional CFG edge destination compared with the unwinding chain from CPython\'s exception table (source compiled, never executed)',
                'functions': bc['functions'], 'statements_checked': bc['statements_checked'], 'edges_checked': bc['edges_checked'],
                'mismatches': bc['mismatches'][:20], 'skipped': bc['skipped'][:20], 'builder_sabotage_selfcheck': sab,
            }
            print(f'bytecode cross-check: {bc["edges_checked"]} exceptional edges of {bc["statements_checked"]} statements in {bc["functions"]} functions, '
                  f'{len(bc["mismatches"])} mismatches; sabotaged builders detected: {sum(1 for x in sab if x["status"] == "detected")}/{len(sab)}')
            for mm in bc['mismatches'][:10]:
                print(f'ANALYSIS-ERROR property={prop} bytecode cross-check: {mm}')
            if bc['mismatches'] or any(x['status'] == 'NOT DETECTED' for x in sab):
                rc_self = 2
        rc, _ = run_property(
            prop, obs, prog, an, cg, args.tier, seed, t0, only_key=only_key, extra_cov=extra,
            write_evidence=not (args.no_evidence or args.replay),
        )  # fmt: skip
        if args.replay:
            print('replay: violation reproduces' if rc == 1 else 'replay: violation does not reproduce on the current tree')
        if rc == 0 and rc_self != 0:
            rc = 2
        return rc
    except SystemExit:
        raise
    except BaseException as e:  # tracebacks must not look like violations
        print(f'ANALYSIS-ERROR property={prop} {type(e).__name__}: {e}')
        traceback.print_exc(file=sys.stdout)
        return 2


if __name__ == '__main__':
    sys.exit(main())
