"""Statement-level control-flow graphs with typed exceptional edges and inlined ``finally`` blocks.

Built in continuation-passing style (from the end of each block backwards), so that a ``finally`` body /
``with`` exit is copied once per continuation kind (fall-through, return, break, continue, each
propagating exception type).  "Every path from A to any exit passes through B" is then a plain graph
property, including exits through cancellation at any ``await`` (fault model FM-cancel).
"""

from __future__ import annotations

import ast
from collections import deque
from dataclasses import dataclass, field
from typing import Callable, Iterable, Iterator

from .exc import CANCEL, ExcT, FaultModel, decide_nonnull, handler_type_names
from .loader import FuncNode, Program, U, Unit


def const_truth(e: ast.AST) -> bool | None:
    """Truth of a test decidable from constants alone (`False and X`, `True or X`, `not False`, literals)."""
    if isinstance(e, ast.Constant):
        return bool(e.value)
    if isinstance(e, ast.UnaryOp) and isinstance(e.op, ast.Not):
        r = const_truth(e.operand)
        return None if r is None else (not r)
    if isinstance(e, ast.BoolOp):
        vals = [const_truth(v) for v in e.values]
        if isinstance(e.op, ast.And):
            if any(v is False for v in vals):
                return False
            return True if all(v is True for v in vals) else None
        if any(v is True for v in vals):
            return True
        return False if all(v is False for v in vals) else None
    return None


class Node:
    __slots__ = ('id', 'kind', 'ast', 'unit', 'succ', 'exc', 'tag')

    def __init__(self, id: int, kind: str, node: ast.AST | None, unit: Unit, exc: ExcT | None = None, tag: str = ''):
        self.id = id
        self.kind = kind
        self.ast = node
        self.unit = unit
        self.succ: list[Edge] = []
        self.exc = exc
        self.tag = tag

    @property
    def line(self) -> int:
        return getattr(self.ast, 'lineno', 0) if self.ast is not None else 0

    def text(self, limit: int = 110) -> str:
        if self.kind in ('exit', 'entry'):
            return f'<{self.kind}>'
        if self.kind == 'raise_exit':
            return f'<exit by raising {self.exc}>'
        if self.kind == 'reraise':
            return f'<propagate {self.exc} after finally/with-exit>'
        a = self.ast
        if self.kind == 'except':
            h = a  # type: ignore[assignment]
            return f'except {U(h.type) if h.type is not None else ""}{" as " + h.name if h.name else ""}: [{self.exc}]'  # type: ignore[union-attr]
        if self.kind in ('if', 'while'):
            s = f'{self.kind} {U(a.test)}'  # type: ignore[union-attr]
        elif self.kind == 'for':
            s = f'for {U(a.target)} in {U(a.iter)}'  # type: ignore[union-attr]
        elif self.kind == 'with':
            s = 'with-enter ' + ', '.join(U(i.context_expr) for i in a.items)  # type: ignore[union-attr]
        elif self.kind == 'withexit':
            s = 'with-exit ' + ', '.join(U(i.context_expr) for i in a.items)  # type: ignore[union-attr]
        elif isinstance(a, FuncNode):
            s = f'def {a.name}(...)'
        else:
            s = U(a).split('\n')[0]
        return s if len(s) <= limit else s[: limit - 3] + '...'

    def where(self) -> str:
        return f'{self.unit.module}:{self.line}'

    def add(self, label: str, dst: 'Node', exc: ExcT | None = None) -> None:
        for e in self.succ:
            if e.dst is dst and e.label == label:
                return
        self.succ.append(Edge(label, dst, exc))

    def __repr__(self) -> str:
        return f'<N{self.id} {self.kind} L{self.line} {self.text(50)}>'


@dataclass
class Edge:
    label: str  # next | true | false | iter | done | return | break | continue | exc
    dst: Node
    exc: ExcT | None = None

    @property
    def is_exc(self) -> bool:
        return self.exc is not None


@dataclass
class K:
    nxt: Node
    ret: Callable[[], Node]
    brk: Callable[[], Node] | None
    cnt: Callable[[], Node] | None
    exc: Callable[[ExcT], list[Node]]
    cur_exc: ExcT | None = None

    def with_(self, **kw) -> 'K':
        d = dict(nxt=self.nxt, ret=self.ret, brk=self.brk, cnt=self.cnt, exc=self.exc, cur_exc=self.cur_exc)
        d.update(kw)
        return K(**d)


class CFG:
    def __init__(self, unit: Unit, fm: FaultModel, nonnull: frozenset[str] = frozenset()):
        self.unit = unit
        self.fm = fm
        self.nonnull = nonnull  # parameters known not to be None at this (specialised) call site
        self.nodes: list[Node] = []
        self.exit = self._new('exit', None)
        self.raise_exits: dict[ExcT, Node] = {}
        k = K(nxt=self.exit, ret=lambda: self.exit, brk=None, cnt=None, exc=self._raise_exit, cur_exc=None)
        body_entry = self._block(unit.node.body, k)
        self.entry = self._new('entry', unit.node)
        self.entry.add('next', body_entry)
        self._by_ast: dict[int, list[Node]] = {}
        for n in self.nodes:
            if n.ast is not None:
                self._by_ast.setdefault(id(n.ast), []).append(n)
        self._reach = self._reachable_from_entry()

    # ---------------------------------------------------------------- construction
    def _new(self, kind: str, node: ast.AST | None, exc: ExcT | None = None, tag: str = '') -> Node:
        n = Node(len(self.nodes), kind, node, self.unit, exc, tag)
        self.nodes.append(n)
        return n

    def _raise_exit(self, t: ExcT) -> list[Node]:
        if t not in self.raise_exits:
            self.raise_exits[t] = self._new('raise_exit', None, t)
        return [self.raise_exits[t]]

    def _exc_edges(self, n: Node, st: ast.stmt, k: K) -> None:
        for t in sorted(self.fm.raises(st, self.unit, self.nonnull)):
            if t.name == '<reraise>':
                t = k.cur_exc or ExcT('BaseException', False)
            for tgt in k.exc(t):
                n.add('exc', tgt, t)

    def _block(self, stmts: list[ast.stmt], k: K) -> Node:
        nxt = k.nxt
        for st in reversed(stmts):
            nxt = self._stmt(st, k.with_(nxt=nxt))
        return nxt

    def _stmt(self, st: ast.stmt, k: K) -> Node:
        if isinstance(st, ast.Return):
            n = self._new('return', st)
            n.add('return', k.ret())
            self._exc_edges(n, st, k)
            return n
        if isinstance(st, ast.Raise):
            n = self._new('raise', st)
            self._exc_edges(n, st, k)
            return n
        if isinstance(st, ast.Break):
            n = self._new('stmt', st)
            assert k.brk is not None
            n.add('break', k.brk())
            return n
        if isinstance(st, ast.Continue):
            n = self._new('stmt', st)
            assert k.cnt is not None
            n.add('continue', k.cnt())
            return n
        if isinstance(st, ast.If):
            n = self._new('if', st)
            dec = decide_nonnull(st.test, self.nonnull) if self.nonnull else None
            if dec is None:
                dec = const_truth(st.test)
            if dec is not False:
                n.add('true', self._block(st.body, k))
            if dec is not True:
                n.add('false', self._block(st.orelse, k) if st.orelse else k.nxt)
            self._exc_edges(n, st, k)
            return n
        if isinstance(st, ast.While):
            head = self._new('while', st)
            after = self._block(st.orelse, k) if st.orelse else k.nxt
            kb = k.with_(nxt=head, brk=lambda: k.nxt, cnt=lambda: head)
            head.add('true', self._block(st.body, kb))
            ct = const_truth(st.test)
            if ct is False:
                head.succ.clear()  # body is dead code
            if ct is not True:
                head.add('false', after)
            self._exc_edges(head, st, k)
            return head
        if isinstance(st, (ast.For, ast.AsyncFor)):
            head = self._new('for', st)
            after = self._block(st.orelse, k) if st.orelse else k.nxt
            kb = k.with_(nxt=head, brk=lambda: k.nxt, cnt=lambda: head)
            head.add('iter', self._block(st.body, kb))
            head.add('done', after)
            self._exc_edges(head, st, k)
            return head
        if isinstance(st, ast.Try):
            return self._try(st, k)
        if isinstance(st, (ast.With, ast.AsyncWith)):
            return self._with(st, k)
        if isinstance(st, ast.Match):
            # structural patterns the loader could not turn into tests: a non-deterministic choice between the cases (and falling through)
            n = self._new('stmt', st)
            for case in st.cases:
                n.add('case', self._block(case.body, k))
            n.add('next', k.nxt)
            self._exc_edges(n, st, k)
            return n
        if st.__class__.__name__ == 'TryStar':
            raise NotImplementedError(f'{self.unit.loc(st)}: statement kind {type(st).__name__} not modelled')
        n = self._new('stmt', st)
        n.add('next', k.nxt)
        self._exc_edges(n, st, k)
        return n

    def _try(self, st: ast.Try, k: K) -> Node:
        H = self.fm.h
        if st.finalbody:
            memo: dict[object, Node] = {}

            def fin(tag: object, mk: Callable[[], Node], cur: ExcT | None = None) -> Node:
                if tag not in memo:
                    memo[tag] = self._block(st.finalbody, k.with_(nxt=mk(), cur_exc=cur if cur is not None else k.cur_exc))
                return memo[tag]

            def reraise(t: ExcT) -> Node:
                r = self._new('reraise', st, t)
                for tgt in k.exc(t):
                    r.add('exc', tgt, t)
                return r

            ki = K(
                nxt=fin('next', lambda: k.nxt),
                ret=lambda: fin('ret', k.ret),
                brk=(lambda: fin('brk', k.brk)) if k.brk else None,  # type: ignore[arg-type]
                cnt=(lambda: fin('cnt', k.cnt)) if k.cnt else None,  # type: ignore[arg-type]
                exc=lambda t: [fin(('exc', t), lambda: reraise(t), t)],
                cur_exc=k.cur_exc,
            )
        else:
            ki = k
        hmemo: dict[tuple[int, ExcT], Node] = {}

        def handler_entry(h: ast.ExceptHandler, t: ExcT) -> Node:
            key = (id(h), t)
            if key not in hmemo:
                n = self._new('except', h, t)
                hmemo[key] = n
                n.add('next', self._block(h.body, ki.with_(cur_exc=t)))
            return hmemo[key]

        def exc_body(t: ExcT) -> list[Node]:
            targets: list[Node] = []
            for h in st.handlers:
                names = handler_type_names(h)
                m = H.match(t, names)
                if m != 'no':
                    for tn in H.narrowed(t, names):
                        targets.append(handler_entry(h, tn))
                if m == 'yes':
                    return targets
            return targets + ki.exc(t)

        orelse_entry = self._block(st.orelse, ki) if st.orelse else ki.nxt
        kb = K(nxt=orelse_entry, ret=ki.ret, brk=ki.brk, cnt=ki.cnt, exc=exc_body, cur_exc=ki.cur_exc)
        return self._block(st.body, kb)

    def _with(self, st: ast.With | ast.AsyncWith, k: K) -> Node:
        is_async = isinstance(st, ast.AsyncWith)
        exit_raises: set[ExcT] = set()
        if is_async:
            lib_suspending = False
            for it in st.items:
                t = self.fm.prog.infer(it.context_expr, self.unit)
                if t is not None and t.kind == 'cls':
                    m = self.fm.prog.method(t.name, '__aexit__')
                    if m is not None:
                        exit_raises |= set(self.fm.escape.get(m.key, frozenset()))
                        continue
                if isinstance(it.context_expr, ast.Call) and U(it.context_expr.func) in ('asyncio.timeout', 'asyncio.timeout_at'):
                    continue
                if isinstance(it.context_expr, ast.Call) and U(it.context_expr.func).split('.')[-1] == 'TaskGroup':
                    # the errors of the child tasks are re-raised as a group when the block is left — if a child can fail at all with anything but cancellation
                    tgv = it.optional_vars.id if isinstance(it.optional_vars, ast.Name) else None
                    payloads = [x.args[0] for b in st.body for x in ast.walk(b) if isinstance(x, ast.Call) and isinstance(x.func, ast.Attribute) and x.func.attr == 'create_task'
                                and isinstance(x.func.value, ast.Name) and x.func.value.id == tgv and x.args and isinstance(x.args[0], ast.Call)]
                    H = self.fm.h
                    can_fail = not payloads or tgv is None
                    for pl in payloads:
                        for t_ in self.fm.call_raises_as_awaited(pl, self.unit):
                            if H.is_sub(t_.name, 'Exception') or (not t_.exact and H.is_sub('Exception', t_.name)):
                                can_fail = True
                    if can_fail:
                        exit_raises.add(ExcT('ExceptionGroup', False))
                lib_suspending = True
            if lib_suspending:
                exit_raises.add(CANCEL)
        memo: dict[object, Node] = {}

        def ex(tag: object, mk: Callable[[], Node]) -> Node:
            if tag not in memo:
                n = self._new('withexit', st, tag=str(tag))
                memo[tag] = n
                n.add('next', mk())
                for t in sorted(exit_raises):
                    for tgt in k.exc(t):
                        n.add('exc', tgt, t)
            return memo[tag]

        def reraise(t: ExcT) -> Node:
            r = self._new('reraise', st, t)
            for tgt in k.exc(t):
                r.add('exc', tgt, t)
            return r

        ki = K(
            nxt=ex('next', lambda: k.nxt),
            ret=lambda: ex('ret', k.ret),
            brk=(lambda: ex('brk', k.brk)) if k.brk else None,  # type: ignore[arg-type]
            cnt=(lambda: ex('cnt', k.cnt)) if k.cnt else None,  # type: ignore[arg-type]
            exc=lambda t: [ex(('exc', t), lambda: reraise(t))],
            cur_exc=k.cur_exc,
        )
        enter = self._new('with', st)
        enter.add('next', self._block(st.body, ki))
        self._exc_edges(enter, st, k)  # failure/cancellation while entering: exit is NOT run
        return enter

    # ---------------------------------------------------------------- queries
    def _reachable_from_entry(self) -> set[int]:
        seen = {self.entry.id}
        dq = deque([self.entry])
        while dq:
            n = dq.popleft()
            for e in n.succ:
                if e.dst.id not in seen:
                    seen.add(e.dst.id)
                    dq.append(e.dst)
        return seen

    def live(self, n: Node) -> bool:
        return n.id in self._reach

    def live_nodes(self) -> list[Node]:
        return [n for n in self.nodes if n.id in self._reach]

    def nodes_of(self, node: ast.AST, kinds: tuple[str, ...] | None = None) -> list[Node]:
        out = [n for n in self._by_ast.get(id(node), []) if n.id in self._reach]
        if kinds is not None:
            out = [n for n in out if n.kind in kinds]
        return out

    def escape_set(self) -> frozenset[ExcT]:
        return frozenset(t for t, n in self.raise_exits.items() if n.id in self._reach)

    def exits(self) -> list[Node]:
        return [self.exit] + [n for n in self.raise_exits.values()]

    def stmt_nodes(self, pred: Callable[[Node], bool]) -> list[Node]:
        return [n for n in self.live_nodes() if pred(n)]


# --------------------------------------------------------------------------------------------
# whole-program analysis: CFG per unit + escape-set fixed point
# --------------------------------------------------------------------------------------------


class Analysis:
    def __init__(self, prog: Program):
        self.prog = prog
        self.fm = FaultModel(prog)
        self.cfgs: dict[tuple[str, str], CFG] = {}
        self.iterations = 0
        self.fm.cfg_factory = lambda u, nn: CFG(u, self.fm, nn)
        self._fixpoint()

    def _fixpoint(self) -> None:
        units = [u for u in self.prog.units.values() if u.module != 'bubus/logging.py']
        for _ in range(12):
            self.iterations += 1
            changed = False
            self.fm.unresolved.clear()
            self.fm.opaque_calls.clear()
            self.fm.resolved_calls = 0
            self.fm._spec_memo.clear()
            for u in units:
                g = CFG(u, self.fm)
                self.cfgs[u.key] = g
                esc = g.escape_set()
                if esc != self.fm.escape.get(u.key, frozenset()):
                    self.fm.escape[u.key] = esc
                    changed = True
            if not changed:
                return
        raise RuntimeError('escape-set fixed point did not converge')

    def cfg(self, u: Unit) -> CFG:
        g = self.cfgs.get(u.key)
        if g is None:
            g = CFG(u, self.fm)
            self.cfgs[u.key] = g
        return g

    def escapes(self, u: Unit) -> frozenset[ExcT]:
        return self.fm.escape.get(u.key, frozenset())


# --------------------------------------------------------------------------------------------
# path search over CFG x facts
# --------------------------------------------------------------------------------------------

Env = tuple  # sorted tuple of (atom, value)


@dataclass
class Step:
    node: Node
    via: str  # edge label taken to reach node
    env: Env


def search(
    starts: Iterable[tuple[Node, Env]],
    is_target: Callable[[Node, dict], bool],
    is_barrier: Callable[[Node, dict], bool] = lambda n, e: False,
    edge_ok: Callable[[Node, Edge, dict], 'dict | None'] = lambda n, e, env: env,
    transfer: Callable[[Node, dict], dict] = lambda n, env: env,
    max_states: int = 200000,
) -> list[Step] | None:
    """BFS; returns the shortest witness path to a target state, or None.

    The start nodes themselves are not tested as targets/barriers; *transfer* is applied when leaving a node.
    """
    seen: set[tuple[int, Env]] = set()
    dq: deque[tuple[Node, Env, tuple | None]] = deque()
    for n, env in starts:
        key = (n.id, env)
        if key not in seen:
            seen.add(key)
            dq.append((n, env, None))
    parent: dict[tuple[int, Env], tuple[tuple[int, Env] | None, Node, str]] = {}
    count = 0
    while dq:
        n, env, _ = dq.popleft()
        count += 1
        if count > max_states:
            raise RuntimeError('state explosion in path search')
        d_after = transfer(n, dict(env))
        for e in n.succ:
            d2 = edge_ok(n, e, dict(d_after))
            if d2 is None:
                continue
            env2: Env = tuple(sorted(d2.items()))
            key2 = (e.dst.id, env2)
            lab = e.label if e.exc is None else f'raises {e.exc}'
            if is_target(e.dst, d2):
                # rebuild: predecessors via parent links (start states are never in `parent`), then the final step
                path: list[Step] = []
                cur: tuple[int, Env] | None = (n.id, env)
                while cur is not None and cur in parent:
                    prev, node, lab2 = parent[cur]
                    path.append(Step(node, lab2, cur[1]))
                    cur = prev
                path.reverse()
                path.append(Step(e.dst, lab, env2))
                return path
            if key2 in seen:
                continue
            seen.add(key2)
            parent[key2] = ((n.id, env), e.dst, lab)
            if is_barrier(e.dst, d2):
                continue
            dq.append((e.dst, env2, None))
    return None


def fmt_path(start: Node, path: list[Step], limit: int = 14) -> list[str]:
    lines = [f'{start.where()}  {start.text()}']
    shown = path if len(path) <= limit else path[: limit // 2] + [None] + path[-limit // 2 :]  # type: ignore[list-item]
    for s in shown:
        if s is None:
            lines.append('  ...')
            continue
        facts = ''
        if s.env:
            facts = '   {' + ', '.join(f'{a}={v}' for a, v in s.env) + '}'
        lines.append(f'  --{s.via}--> {s.node.where()}  {s.node.text()}{facts}')
    return lines


def reachable(starts: Iterable[Node], edge_ok: Callable[[Node, Edge], bool] = lambda n, e: True, stop: Callable[[Node], bool] = lambda n: False) -> set[int]:
    seen: set[int] = set()
    dq = deque()
    for s in starts:
        if s.id not in seen:
            seen.add(s.id)
            dq.append(s)
    while dq:
        n = dq.popleft()
        if stop(n):
            continue
        for e in n.succ:
            if edge_ok(n, e) and e.dst.id not in seen:
                seen.add(e.dst.id)
                dq.append(e.dst)
    return seen
