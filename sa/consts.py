"""New named constants are written out at their uses, before analysis.

A maintenance commit that replaces the literal `('completed', 'error')` by a module-level `TERMINAL_RESULT_STATUSES`, or the literal `0.1` by a class attribute
`STOP_GRACE_PERIOD`, changes nothing; the rules, which were written against the literals, would see an opaque name.  This pass recognises a *new* name (not in
sa/known_units.json "globals" / "attrs") that is

  * bound exactly once, at module level or in a class body, to a literal (a number, string, bool, None, a tuple / frozenset of such, or a `+` of such tuples and
    of other constants of this kind), and
  * never assigned anywhere else in the library (no `global NAME`, no `self.NAME = ...`, no `Cls.NAME = ...`),

and substitutes the literal for every read of it: `NAME` in the defining module and in modules that import it by name, `self.NAME` / `cls.NAME` inside the class and
`Cls.NAME` anywhere.  The definition stays.  A name that is shadowed by a parameter or local of a function is left alone in that function.  The rewrite preserves
behaviour exactly (the value of an immutable literal bound once is that literal).  Nothing the rules were written against is touched: the names of the unchanged tree
are all in the frozen lists.
"""

from __future__ import annotations

import ast
import copy

FuncNode = (ast.FunctionDef, ast.AsyncFunctionDef)


def _literal(e: ast.AST, env: dict[str, ast.AST]) -> ast.AST | None:
    """The literal *e* stands for (names of already recognised constants written out), or None."""
    if isinstance(e, ast.Constant) and (e.value is None or isinstance(e.value, (str, int, float, bool, bytes))):
        return e
    if isinstance(e, ast.UnaryOp) and isinstance(e.op, ast.USub) and isinstance(e.operand, ast.Constant) and isinstance(e.operand.value, (int, float)):
        return e
    if isinstance(e, ast.Name) and e.id in env:
        return env[e.id]
    if isinstance(e, ast.Tuple):
        elts = [_literal(x, env) for x in e.elts]
        if all(x is not None for x in elts):
            return ast.Tuple(elts=[copy.deepcopy(x) for x in elts], ctx=ast.Load())
        return None
    if isinstance(e, ast.Call) and isinstance(e.func, ast.Name) and e.func.id in ('frozenset', 'tuple') and len(e.args) == 1 and not e.keywords and isinstance(e.args[0], (ast.Tuple, ast.Set, ast.List)):
        elts = [_literal(x, env) for x in e.args[0].elts]
        if all(isinstance(x, ast.Constant) for x in elts):
            return ast.Tuple(elts=[copy.deepcopy(x) for x in elts], ctx=ast.Load())  # membership and iteration are all the library does with such a constant
        return None
    if isinstance(e, ast.BinOp) and isinstance(e.op, ast.Add):
        a, b = _literal(e.left, env), _literal(e.right, env)
        if isinstance(a, ast.Tuple) and isinstance(b, ast.Tuple):
            return ast.Tuple(elts=[copy.deepcopy(x) for x in a.elts + b.elts], ctx=ast.Load())
    return None


def _binding(st: ast.stmt) -> tuple[str, ast.AST] | None:
    if isinstance(st, ast.Assign) and len(st.targets) == 1 and isinstance(st.targets[0], ast.Name):
        return st.targets[0].id, st.value
    if isinstance(st, ast.AnnAssign) and isinstance(st.target, ast.Name) and st.value is not None:
        return st.target.id, st.value
    return None


def _locals_of(fn: ast.AST) -> set[str]:
    out = {a.arg for a in fn.args.posonlyargs + fn.args.args + fn.args.kwonlyargs}
    if fn.args.vararg:
        out.add(fn.args.vararg.arg)
    if fn.args.kwarg:
        out.add(fn.args.kwarg.arg)
    declared_global: set[str] = set()
    for n in ast.walk(fn):
        if isinstance(n, ast.Name) and isinstance(n.ctx, (ast.Store, ast.Del)):
            out.add(n.id)
        elif isinstance(n, ast.Global):
            declared_global.update(n.names)
        elif isinstance(n, ast.ExceptHandler) and n.name:
            out.add(n.name)
    return out - declared_global


class _SubstNames(ast.NodeTransformer):
    def __init__(self, consts: dict[str, ast.AST], class_consts: dict[tuple[str, str], ast.AST], log: list[str], module: str):
        self.consts, self.class_consts, self.log, self.module = consts, class_consts, log, module
        self.shadow: list[set[str]] = []
        self.cls: list[str] = []
        self.hits: dict[str, int] = {}

    def _fn(self, node):
        self.shadow.append(_locals_of(node))
        self.generic_visit(node)
        self.shadow.pop()
        return node

    visit_FunctionDef = _fn  # noqa: N815
    visit_AsyncFunctionDef = _fn  # noqa: N815

    def visit_Lambda(self, node):  # noqa: N802
        self.shadow.append({a.arg for a in node.args.posonlyargs + node.args.args + node.args.kwonlyargs})
        self.generic_visit(node)
        self.shadow.pop()
        return node

    def visit_ClassDef(self, node):  # noqa: N802
        self.cls.append(node.name)
        self.generic_visit(node)
        self.cls.pop()
        return node

    def visit_Name(self, node):  # noqa: N802
        if isinstance(node.ctx, ast.Load) and node.id in self.consts and not any(node.id in s for s in self.shadow):
            self.hits[node.id] = self.hits.get(node.id, 0) + 1
            return ast.copy_location(copy.deepcopy(self.consts[node.id]), node)
        return node

    def visit_Attribute(self, node):  # noqa: N802
        self.generic_visit(node)
        if isinstance(node.ctx, ast.Load) and isinstance(node.value, ast.Name):
            owner = None
            if node.value.id in ('self', 'cls') and self.cls:
                owner = self.cls[-1]
            elif any(c == node.value.id for c, _ in self.class_consts):
                owner = node.value.id
            if owner is not None and (owner, node.attr) in self.class_consts:
                key = f'{owner}.{node.attr}'
                self.hits[key] = self.hits.get(key, 0) + 1
                return ast.copy_location(copy.deepcopy(self.class_consts[(owner, node.attr)]), node)
        return node


def write_out_new_constants(parsed: list[tuple[str, ast.Module]], known_globals: dict[str, list[str]] | None, known_attrs: dict[str, list[str]] | None) -> list[str]:
    if known_globals is None:
        return []
    log: list[str] = []
    known_attrs = known_attrs or {}
    # every store anywhere in the library: a name or attribute assigned in a second place is state, not a constant
    attr_stores: dict[str, int] = {}
    global_stores: dict[tuple[str, str], int] = {}
    for rel, tree in parsed:
        for n in ast.walk(tree):
            if isinstance(n, ast.Attribute) and isinstance(n.ctx, (ast.Store, ast.Del)):
                attr_stores[n.attr] = attr_stores.get(n.attr, 0) + 1
        for fn in [n for n in ast.walk(tree) if isinstance(n, FuncNode)]:
            gl = {nm for n in ast.walk(fn) if isinstance(n, ast.Global) for nm in n.names}
            for n in ast.walk(fn):
                if isinstance(n, ast.Name) and isinstance(n.ctx, (ast.Store, ast.Del)) and n.id in gl:
                    global_stores[(rel, n.id)] = global_stores.get((rel, n.id), 0) + 1
    per_module: dict[str, dict[str, ast.AST]] = {}
    class_consts: dict[tuple[str, str], ast.AST] = {}
    for rel, tree in parsed:
        known = set(known_globals.get(rel, []))
        consts: dict[str, ast.AST] = {}
        counts: dict[str, int] = {}
        for st in tree.body:
            b = _binding(st)
            if b is not None:
                counts[b[0]] = counts.get(b[0], 0) + 1
        for st in tree.body:
            b = _binding(st)
            if b is None or b[0] in known or counts[b[0]] != 1 or (rel, b[0]) in global_stores:
                continue
            lit = _literal(b[1], consts)
            if lit is not None:
                consts[b[0]] = lit
        per_module[rel] = consts
        for cls in [n for n in tree.body if isinstance(n, ast.ClassDef)]:
            kn = set(known_attrs.get(cls.name, []))
            ccounts: dict[str, int] = {}
            for st in cls.body:
                b = _binding(st)
                if b is not None:
                    ccounts[b[0]] = ccounts.get(b[0], 0) + 1
            cenv = dict(consts)
            for st in cls.body:
                b = _binding(st)
                if b is None or b[0] in kn or ccounts[b[0]] != 1 or attr_stores.get(b[0], 0):
                    continue
                if isinstance(st, ast.AnnAssign) and 'ClassVar' not in ast.unparse(st.annotation) and any(isinstance(base, ast.Name) and base.id == 'BaseModel' or 'BaseModel' in ast.unparse(base) for base in cls.bases):
                    continue  # an annotated attribute of a pydantic model is a field (per instance), not a constant
                lit = _literal(b[1], cenv)
                if lit is not None:
                    class_consts[(cls.name, b[0])] = lit
                    cenv[b[0]] = lit
    # imports by name carry the constant into the importing module
    for rel, tree in parsed:
        for st in tree.body:
            if isinstance(st, ast.ImportFrom) and st.module:
                src = 'bubus/' + st.module.split('.')[-1] + '.py'
                if src in per_module and src != rel:
                    for al in st.names:
                        if al.name in per_module[src] and (al.asname or al.name) not in per_module[rel]:
                            per_module[rel] = dict(per_module[rel])
                            per_module[rel][al.asname or al.name] = per_module[src][al.name]
    for rel, tree in parsed:
        consts = per_module.get(rel, {})
        if not consts and not class_consts:
            continue
        sub = _SubstNames(consts, class_consts, log, rel)
        # definitions stay as they are: visit everything but the defining statements' targets (a Load never is one)
        sub.visit(tree)
        for nm, k in sorted(sub.hits.items()):
            v = consts.get(nm) if nm in consts else class_consts.get(tuple(nm.split('.', 1)))  # type: ignore[arg-type]
            log.append(f'{rel}: new named constant `{nm}` = {ast.unparse(v)[:60]} written out at its {k} use(s)')
        if sub.hits:
            ast.fix_missing_locations(tree)
    return log
