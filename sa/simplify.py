"""Constant-test pruning and dead-store elimination, after folding.

Folding a new helper into its callers substitutes the call's arguments for the parameters.  A helper that serves several callers through a mode parameter
(`result_type=None` / `result_type=dict`) leaves tests behind that no longer depend on anything: `if None is not None:`, `if dict is not None:`.  Each caller
then contains a branch that can never run (or always runs), and the rules would read the dead branch as if it were part of the function.  This pass

 1. replaces an `if` whose test is decidable from literals alone by the branch that runs, and
 2. removes a plain store to a *new* local (not in sa/known_units.json "locals") that is overwritten, unconditionally and in the same block, before any read.

Both rewrites preserve behaviour exactly (the removed code cannot execute / the removed value cannot be observed; only side-effect-free right-hand sides are
removed).  Nothing the rules were written against is touched: the unchanged tree has no literal-only test and its locals are all in the frozen list.
"""

from __future__ import annotations

import ast

from .alias import FuncNode, _blocks, _own

BUILTIN_TYPES = {'dict', 'list', 'set', 'tuple', 'str', 'int', 'float', 'bool', 'bytes', 'frozenset', 'object', 'type'}
_UNKNOWN = object()


def const_value(e: ast.AST):
    """The value of a test that depends on literals only (a builtin type name stands for itself: never None, always truthy); _UNKNOWN otherwise."""
    if isinstance(e, ast.Constant):
        return e.value
    if isinstance(e, ast.Name) and e.id in BUILTIN_TYPES:
        return ('type', e.id)
    if isinstance(e, ast.UnaryOp) and isinstance(e.op, ast.Not):
        v = const_value(e.operand)
        return _UNKNOWN if v is _UNKNOWN else (not v)
    if isinstance(e, ast.BoolOp):
        vals = [const_value(v) for v in e.values]
        if isinstance(e.op, ast.And):
            if any(v is not _UNKNOWN and not v for v in vals):
                return False
            return _UNKNOWN if any(v is _UNKNOWN for v in vals) else vals[-1]
        if any(v is not _UNKNOWN and v for v in vals):
            return True
        return _UNKNOWN if any(v is _UNKNOWN for v in vals) else vals[-1]
    if isinstance(e, ast.Compare) and len(e.ops) == 1:
        a, b = const_value(e.left), const_value(e.comparators[0])
        if a is _UNKNOWN or b is _UNKNOWN:
            return _UNKNOWN
        op = e.ops[0]
        singletons = (None, True, False)
        if isinstance(op, (ast.Is, ast.IsNot)):
            # identity is decidable for the singletons and for type names; not for other literals
            if not all((x in singletons if not isinstance(x, tuple) else True) for x in (a, b) if not isinstance(x, (int, float, str, bytes)) or isinstance(x, bool)):
                return _UNKNOWN
            if any(isinstance(x, (int, float, str, bytes)) and not isinstance(x, bool) for x in (a, b)):
                return _UNKNOWN
            same = (a is b) if not (isinstance(a, tuple) or isinstance(b, tuple)) else (a == b)
            return same if isinstance(op, ast.Is) else (not same)
        if isinstance(op, (ast.Eq, ast.NotEq)):
            if isinstance(a, tuple) != isinstance(b, tuple):
                same = False
            else:
                same = a == b
            return same if isinstance(op, ast.Eq) else (not same)
    return _UNKNOWN


class _Prune(ast.NodeTransformer):
    def __init__(self) -> None:
        self.n = 0

    def visit_If(self, node: ast.If):
        self.generic_visit(node)
        v = const_value(node.test)
        if v is _UNKNOWN:
            return node
        self.n += 1
        keep = node.body if v else node.orelse
        return keep or [ast.copy_location(ast.Pass(), node)]

    def visit_IfExp(self, node: ast.IfExp):
        self.generic_visit(node)
        v = const_value(node.test)
        if v is _UNKNOWN or isinstance(node.test, ast.Constant):
            return node
        self.n += 1
        return node.body if v else node.orelse


def _pure_rhs(e: ast.AST) -> bool:
    if isinstance(e, ast.Lambda):
        return True
    return all(isinstance(x, (ast.Name, ast.Attribute, ast.Constant, ast.Load)) for x in ast.walk(e))


def simplify_after_folding(tree: ast.Module, module: str, known_locals: dict[str, list[str]] | None) -> list[str]:
    log: list[str] = []
    pr = _Prune()
    pr.visit(tree)
    if pr.n:
        log.append(f'{module}: {pr.n} test(s) decidable from literals alone replaced by the branch that runs')
    if known_locals is None:
        if log:
            ast.fix_missing_locations(tree)
        return log

    def one(fn, qn: str) -> None:
        known = set(known_locals.get(f'{module}::{qn}', []))
        params = {a.arg for a in fn.args.posonlyargs + fn.args.args + fn.args.kwonlyargs}
        nested_names = {x.id for n in _own(fn) if isinstance(n, FuncNode + (ast.Lambda, ast.ClassDef)) for x in ast.walk(n) if isinstance(x, ast.Name)}
        changed = True
        while changed:
            changed = False
            for blk in _blocks(fn):
                for i, st in enumerate(blk):
                    tgt = val = None
                    if isinstance(st, ast.Assign) and len(st.targets) == 1 and isinstance(st.targets[0], ast.Name):
                        tgt, val = st.targets[0].id, st.value
                    elif isinstance(st, ast.AnnAssign) and isinstance(st.target, ast.Name) and st.value is not None:
                        tgt, val = st.target.id, st.value
                    if tgt is None or tgt in known or tgt in params or tgt in nested_names or not _pure_rhs(val):
                        continue
                    for j in range(i + 1, len(blk)):
                        s2 = blk[j]
                        reads = any(isinstance(x, ast.Name) and x.id == tgt and isinstance(x.ctx, ast.Load) for x in ast.walk(s2))
                        t2 = s2.targets[0] if isinstance(s2, ast.Assign) and len(s2.targets) == 1 else s2.target if isinstance(s2, ast.AnnAssign) and s2.value is not None else None
                        if isinstance(t2, ast.Name) and t2.id == tgt and not reads:
                            blk[i] = ast.copy_location(ast.Pass(), st)
                            log.append(f'{module}:{qn} store `{ast.unparse(st)[:60]}` is overwritten before any read: removed')
                            changed = True
                            break
                        if reads or any(isinstance(x, ast.Name) and x.id == tgt for x in ast.walk(s2)):
                            break  # read, or conditionally written: keep
                        if any(isinstance(x, (ast.Return, ast.Raise, ast.Break, ast.Continue, ast.Try)) for x in ast.walk(s2)):
                            break  # control may leave the block: keep it simple
                    if changed:
                        break
                if changed:
                    break

    def split_tuples(fn, qn: str) -> None:
        # `a, b = (X, Y)` with side-effect-free X, Y that mention neither a nor b is `a = X; b = Y` (so each binding can be looked at on its own)
        known = set(known_locals.get(f'{module}::{qn}', []))
        for blk in _blocks(fn):
            i = 0
            while i < len(blk):
                st = blk[i]
                if isinstance(st, ast.Assign) and len(st.targets) == 1 and isinstance(st.targets[0], ast.Tuple) and isinstance(st.value, ast.Tuple) and len(st.targets[0].elts) == len(st.value.elts) \
                        and all(isinstance(t, ast.Name) for t in st.targets[0].elts) and all(_pure_rhs(v) and not isinstance(v, ast.Lambda) for v in st.value.elts):
                    # (known locals as well: the rewrite is exact, and the pinned tree has no tuple-to-tuple binding for a rule to have been written against)
                    tnames = {t.id for t in st.targets[0].elts}
                    if not any(isinstance(x, ast.Name) and x.id in tnames for v in st.value.elts for x in ast.walk(v)):
                        new = [ast.copy_location(ast.Assign(targets=[t], value=v, type_comment=None), st) for t, v in zip(st.targets[0].elts, st.value.elts)]
                        blk[i:i + 1] = new
                        log.append(f'{module}:{qn} tuple binding `{ast.unparse(st)[:70]}` written as {len(new)} bindings')
                        i += len(new)
                        continue
                i += 1

    def const_then_test(fn, qn: str) -> None:
        # `x = <literal>` directly followed by `if <test that only needs x>`: the test is decided (x is a new local; this is what a memo read evaluated as a miss leaves behind)
        known = set(known_locals.get(f'{module}::{qn}', []))
        changed = True
        while changed:
            changed = False
            for blk in _blocks(fn):
                for i in range(len(blk) - 1):
                    st, nx = blk[i], blk[i + 1]
                    if not (isinstance(st, ast.Assign) and len(st.targets) == 1 and isinstance(st.targets[0], ast.Name) and isinstance(st.value, ast.Constant) and st.targets[0].id not in known
                            and isinstance(nx, ast.If)):
                        continue
                    x = st.targets[0].id

                    class _S(ast.NodeTransformer):
                        def visit_Name(self, node):
                            return ast.copy_location(ast.Constant(value=st.value.value), node) if node.id == x and isinstance(node.ctx, ast.Load) else node

                    import copy as _copy

                    t2 = _S().visit(_copy.deepcopy(nx.test))
                    v = const_value(t2)
                    if v is _UNKNOWN:
                        continue
                    keep = nx.body if v else nx.orelse
                    blk[i + 1:i + 2] = keep or [ast.copy_location(ast.Pass(), nx)]
                    log.append(f'{module}:{qn} test `{ast.unparse(nx.test)[:60]}` decided by `{ast.unparse(st)[:40]}` just before it')
                    changed = True
                    break
                if changed:
                    break

    def visit(body: list[ast.stmt], prefix: str) -> None:
        for st in body:
            if isinstance(st, FuncNode):
                qn = f'{prefix}{st.name}'
                def all_levels(fn_, q_):
                    yield fn_, q_
                    for n_ in _own(fn_):
                        if isinstance(n_, FuncNode):
                            yield from all_levels(n_, f'{q_}.{n_.name}')

                for n, nq in all_levels(st, qn):
                    split_tuples(n, nq)
                    const_then_test(n, nq)
                    one(n, nq)
            elif isinstance(st, ast.ClassDef):
                visit(st.body, f'{st.name}.')
            elif isinstance(st, (ast.If, ast.Try)):
                for f in ('body', 'orelse', 'finalbody'):
                    visit(getattr(st, f, []) or [], prefix)

    visit(tree.body, '')
    if log:
        ast.fix_missing_locations(tree)
    return log
