"""Obligations -> verdicts, known-finding matching, evidence JSON, VIOLATION / KNOWN-FINDING lines, replay files."""

from __future__ import annotations

import json
import os
import re
import time
from dataclasses import dataclass, field
from typing import Any, Callable

from .callgraph import CallGraph
from .cfg import Analysis, Node, Step, fmt_path
from .exc import FM_LIB_DOC
from .loader import AnchorError, Program, U, Unit

VERIF = os.path.dirname(os.path.dirname(os.path.abspath(__file__)))


class AnalysisError(Exception):
    """The checker cannot decide (vanished anchor, instance floor undershot, undecidable shape): exit 2."""


def norm_key(s: str) -> str:
    return re.sub(r'\s+', ' ', s).strip()


@dataclass
class Instance:
    ob: str
    site: str  # file:line unit
    ok: bool
    what: str  # one line: what was checked / what fails
    key: str = ''  # finding key (only for failures)
    witness: list[str] = field(default_factory=list)
    detail: dict = field(default_factory=dict)


@dataclass
class Obligation:
    id: str  # 'C01.3'
    kind: str  # PAIR / MPT / ...
    sentence: str
    fn: Callable[['Ctx'], None]
    prop: str = ''


class Ctx:
    """What a rule function sees."""

    def __init__(self, prog: Program, an: Analysis, cg: CallGraph, prop: str):
        self.prog = prog
        self.an = an
        self.cg = cg
        self.prop = prop
        self.cur: Obligation | None = None
        self.instances: list[Instance] = []
        self.notes: list[str] = []
        self.units_touched: set[str] = set()

    # -- helpers -----------------------------------------------------------------------------
    def unit(self, module: str, qualname: str) -> Unit:
        u = self.prog.unit(module, qualname)
        self.units_touched.add(str(u))
        return u

    def cfg(self, u: Unit):
        self.units_touched.add(str(u))
        return self.an.cfg(u)

    def ok(self, site: str, what: str, **detail: Any) -> None:
        assert self.cur is not None
        self.instances.append(Instance(self.cur.id, site, True, what, detail=detail))

    def fail(self, unit: Unit | str, decisive: str, what: str, node: Any = None, witness: list[str] | None = None, **detail: Any) -> None:
        """Record a failing instance.  key = ob | module | unit | normalised decisive text (never a line number)."""
        assert self.cur is not None
        if isinstance(unit, Unit):
            mod, qn = unit.module, unit.qualname
            line = getattr(node, 'orig_lineno', None) or getattr(node, 'lineno', None) or getattr(node, 'line', None) or unit.node.lineno
            site = f'{mod}:{line} {qn}'
        else:
            mod, qn, site = '', unit, unit
        key = norm_key(f'{self.cur.id} | {mod} | {qn} | {decisive}')
        self.instances.append(Instance(self.cur.id, site, False, what, key=key, witness=witness or [], detail=detail))

    def floor(self, n: int, confirmed: int, what: str, hard: int = 1) -> None:
        """Vacuity guard.  *confirmed* is the number of sites counted by hand on the tree the rules were written for; a run that finds none (fewer than *hard*) cannot
        have checked anything and is an analysis error.  Finding fewer than *confirmed* but at least *hard* is legitimate (two sites merged into one by a refactoring): every
        site that exists is still checked, and the difference is recorded in the evidence."""
        if n < hard:
            raise AnalysisError(f'{self.cur.id if self.cur else "?"}: instance floor undershot: found {n} {what}, confirmed by hand: {confirmed} (at least {hard} must exist)')
        if n < confirmed:
            self.note(f'found {n} {what}; the tree the rules were written for has {confirmed} (sites merged or removed: each remaining site is checked)')

    def note(self, s: str) -> None:
        self.notes.append(f'{self.cur.id if self.cur else ""}: {s}')

    def path(self, start: Node, path: list[Step]) -> list[str]:
        return fmt_path(start, path)


def load_known() -> dict:
    p = os.path.join(VERIF, 'known_findings.json')
    if not os.path.exists(p):
        return {'open': [], 'fixed': []}
    return json.load(open(p, encoding='utf-8'))


TRUSTED_BASE = [
    'CPython 3.12 ast / compile (parser of the analysed source)',
    'stdlib semantics summarised in the fault-model table FM-lib: ' + '; '.join(FM_LIB_DOC),
    'asyncio.Queue is FIFO; asyncio.Event/Semaphore semantics; wait_for cancels and awaits its inner task; '
    'a task created without context= copies the creator context',
    'pydantic treated as a black box',
    'an event queue hands out events, never None; the values of event_results are result records, never None',
    'only /repo/bubus/*.py is library code; user handlers are arbitrary (may raise any Exception, suspend, dispatch) '
    'but do not reach into private bus state',
    'the bubus-sa engine itself (validated by the thorough tier: seeded mutants must be reported, neutral variants must stay silent)',
]

ASSUMPTIONS = [
    'FM-cancel: every await may raise CancelledError; FM-explicit: raise statements and escape sets of resolved repo callees; '
    'FM-lib: frozen table; FM-handler: opaque callbacks may raise any Exception',
    'assert statements hold',
    'get_handler_name() never takes its "not callable" arm for handlers accepted by EventBus.on() (asserted there)',
    'a passing check means: every structural necessary condition listed for the property holds on this tree (or is a listed '
    'known finding); it does NOT mean the behavioural property holds for all schedules/programs',
]


def run_property(
    prop: str,
    obligations: list[Obligation],
    prog: Program,
    an: Analysis,
    cg: CallGraph,
    tier: str,
    seed: int,
    t0: float,
    only_key: str | None = None,
    extra_cov: dict | None = None,
    write_evidence: bool = True,
    quiet: bool = False,
) -> tuple[int, list[Instance]]:
    """Evaluate obligations; print lines; write evidence; return (exit code, instances)."""
    ctx = Ctx(prog, an, cg, prop)
    errors: list[str] = []
    for ob in obligations:
        ctx.cur = ob
        n_before = len(ctx.instances)
        try:
            ob.fn(ctx)
            if len(ctx.instances) == n_before:
                raise AnalysisError(f'{ob.id}: rule produced no instance (vacuous)')
        except (AnchorError, AnalysisError, NotImplementedError) as e:
            errors.append(f'{ob.id}: {e}')
        except Exception as e:  # internal error in a rule: analysis broken, not a violation
            import traceback

            errors.append(f'{ob.id}: internal error {type(e).__name__}: {e} @ {traceback.format_exc().strip().splitlines()[-3:]}')
    ctx.cur = None

    known = load_known()
    open_keys = {norm_key(e['key']): e for e in known.get('open', []) if e.get('property') == prop}
    fails = [i for i in ctx.instances if not i.ok]
    if only_key is not None:
        fails = [i for i in fails if i.key == norm_key(only_key)]
    kf = [i for i in fails if i.key in open_keys]
    viol = [i for i in fails if i.key not in open_keys]
    stale = [k for k in open_keys if k not in {i.key for i in fails}] if only_key is None else []

    lines: list[str] = []
    for i in kf:
        lines.append(f'KNOWN-FINDING: property={prop} {i.key} :: {open_keys[i.key].get("what", i.what)}')
    replay_paths: list[str] = []
    if viol:
        vdir = os.path.join(VERIF, 'evidence', 'violations')
        os.makedirs(vdir, exist_ok=True)
        for n, i in enumerate(viol, 1):
            rp = os.path.join(vdir, f'{prop}-{n}.json')
            ob = next(o for o in obligations if o.id == i.ob)
            with open(rp, 'w', encoding='utf-8') as f:
                json.dump(
                    {
                        'property': prop, 'obligation': i.ob, 'kind': ob.kind, 'rule': ob.sentence, 'key': i.key,
                        'site': i.site, 'what': i.what, 'witness': i.witness, 'detail': i.detail,
                        'source_digest': prog.digest, 'root': prog.root,
                    },
                    f, indent=1, ensure_ascii=False,
                )  # fmt: skip
            replay_paths.append(rp)
            lines.append(f'VIOLATION property={prop} replay={rp}')
            lines.append(f'  [{i.ob} {ob.kind}] {i.site}: {i.what}')
            lines.append(f'  rule: {ob.sentence}')
            for w in i.witness[:16]:
                lines.append(f'    {w}')
    for e in errors:
        lines.append(f'ANALYSIS-ERROR property={prop} {e}')
    for k in stale:
        lines.append(f'NOTE property={prop} listed known finding no longer reproduces (fixed or moved): {k}')

    rc = 1 if viol else (2 if errors else 0)
    obs_total = len(obligations)
    failed_obs = {i.ob for i in fails} | {e.split(':')[0] for e in errors}
    discharged = obs_total - len(failed_obs)
    if write_evidence:
        samples = []
        for i in ctx.instances[:60]:
            d = {'obligation': i.ob, 'site': i.site, 'verdict': 'holds' if i.ok else ('known-finding' if i.key in open_keys else 'VIOLATION'), 'what': i.what}
            if i.witness:
                d['witness'] = i.witness[:12]
            if i.detail:
                d['detail'] = {k: v for k, v in i.detail.items() if isinstance(v, (int, str, float, bool, list))}
            samples.append(d)
        distinct = len({(i.ob, i.site, i.what) for i in ctx.instances})
        cov = {
            'explanation': (
                f'Static analysis of {prog.root}/bubus/*.py (source digest {prog.digest}); no bubus code is executed. '
                f'{obs_total} structural obligations (necessary conditions of {prop}) evaluated as '
                f'{len(ctx.instances)} rule instances over CFGs with typed exceptional edges (cancellation at every await), '
                'path-sensitive facts, the resolved call graph and transitive attribute effects. '
                'Decides the listed structural clauses only, not the behaviour under all schedules.'
            ),
            'obligations': obs_total,
            'discharged': discharged,
            'known_findings': [i.key for i in kf],
            'evaluations': len(ctx.instances),
            'distinct_nontrivial': distinct,
            'rule': 'one instance = one (obligation, site) pair discovered by query over the resolved program; '
            'non-trivial = a distinct site with a non-empty path/site set actually examined',
            'samples': samples,
            'obligation_table': [{'id': o.id, 'kind': o.kind, 'rule': o.sentence, 'instances': sum(1 for i in ctx.instances if i.ob == o.id),
                                  'failing': sum(1 for i in ctx.instances if i.ob == o.id and not i.ok)} for o in obligations],
            'functions_analysed': sorted(ctx.units_touched),
            'cfg_units': len(an.cfgs),
            'cfg_nodes': sum(len(g.nodes) for g in an.cfgs.values()),
            'call_sites': cg.n_calls,
            'call_sites_resolved_repo': cg.n_resolved,
            'call_sites_opaque_callback': cg.n_opaque,
            'call_sites_library': cg.n_library,
            'escape_fixpoint_iterations': an.iterations,
            'checker_cmd': f'/venv/bin/python /verif/check.py {prop} --tier {tier}',
            'trusted_base': TRUSTED_BASE,
            'notes': ctx.notes,
            'folded_new_helpers': list(getattr(prog, 'fold_log', [])),
            'analysis_errors': errors,
            'exhaustive': False,
        }  # fmt: skip
        if extra_cov:
            cov.update(extra_cov)
        ev = {
            'property_id': prop, 'tier': tier, 'seed': seed, 'level': 'other', 'coverage': cov,
            'assumptions': ASSUMPTIONS, 'wall_s': round(time.time() - t0, 3), 'violations': len(viol),
        }  # fmt: skip
        edir = os.path.join(VERIF, 'evidence')
        os.makedirs(edir, exist_ok=True)
        tmp = os.path.join(edir, f'.{prop}.json.tmp')
        with open(tmp, 'w', encoding='utf-8') as f:
            json.dump(ev, f, indent=1, ensure_ascii=False)
        os.replace(tmp, os.path.join(edir, f'{prop}.json'))
    if not quiet:
        for ln in lines:
            print(ln)
        print(
            f'{prop} [{tier}] obligations={obs_total} discharged={discharged} instances={len(ctx.instances)} '
            f'known-findings={len(kf)} violations={len(viol)} analysis-errors={len(errors)} wall={time.time() - t0:.2f}s'
        )
    return rc, ctx.instances
